"""Shared machinery of all checks: Lean build/audit, driver, evidence, verdict.

Verdict protocol (DESIGN §3.3):
  1. regenerate lean/D3/Gen/* from /repo now
  2. lake build <property modules>
  3. audit (forbidden tokens; `#print axioms` of every property theorem)
  4. corpus + correspondence (implementation vs executable Lean model)
  5. property oracle on the real code (failing-input search), known-findings replay
Exit 0 (held on everything explored) / 1 (VIOLATION line) / 2 (infrastructure).
"""
import fcntl
import hashlib
import json
import os
import random
import re
import struct
import subprocess
import sys
import time

VERIF = os.path.normpath(os.path.join(os.path.dirname(os.path.abspath(__file__)), ".."))
LEAN = os.path.join(VERIF, "lean")
SCRATCH = os.path.join(VERIF, ".scratch")
REPO = os.environ.get("D3_REPO", "/repo")
ALLOWED_AXIOMS = {"propext", "Classical.choice", "Quot.sound"}
FORBIDDEN = re.compile(
    r"\b(sorry|admit|native_decide|bv_decide|implemented_by|unsafe)\b|^\s*axiom\s|maxHeartbeats\s+0\b")


class Infra(Exception):
    """tool failure: exit 2, never a VIOLATION"""


# ----------------------------------------------------------------------------- floats
def f2h(x):
    return "%016x" % struct.unpack("<Q", struct.pack("<d", float(x)))[0]


def h2f(s):
    return struct.unpack("<d", struct.pack("<Q", int(s, 16)))[0]


def q2s(fr):
    """Fraction -> protocol string"""
    return "%d/%d" % (fr.numerator, fr.denominator)


def s2q(s):
    from fractions import Fraction
    if "/" in s:
        a, b = s.split("/")
        return Fraction(int(a), int(b))
    return Fraction(int(s))


# ----------------------------------------------------------------------------- lean
def lean_env():
    """environment for running `lean` directly on the project's build products (what `lake env` sets up,
    without taking lake's own lock, so drivers never wait for somebody else's `lake build`)"""
    env = dict(os.environ)
    lib = os.path.join(LEAN, ".lake", "build", "lib", "lean")
    env["LEAN_PATH"] = lib + (os.pathsep + env["LEAN_PATH"] if env.get("LEAN_PATH") else "")
    return env


class LeanLock:
    def __enter__(self):
        os.makedirs(SCRATCH, exist_ok=True)
        self.f = open(os.path.join(SCRATCH, "lean.lock"), "w")
        fcntl.flock(self.f, fcntl.LOCK_EX)
        return self

    def __exit__(self, *a):
        fcntl.flock(self.f, fcntl.LOCK_UN)
        self.f.close()


def regenerate():
    """Regenerate every D3/Gen file from /repo. Returns dict name->(changed, info)."""
    sys.path.insert(0, os.path.join(VERIF, "harness"))
    import gen_constants
    res = {}
    ch, consts = gen_constants.write(os.path.join(LEAN, "D3", "Gen", "Constants.lean"))
    res["Constants"] = (ch, consts)
    try:
        import py2lean
        res.update(py2lean.write_all(os.path.join(LEAN, "D3", "Gen")))
    except ImportError:
        pass
    return res


def lake_build(targets, timeout=3000):
    """Build the given module targets. Returns (ok, log)."""
    cmd = ["lake", "build"] + list(targets)
    try:
        p = subprocess.run(cmd, cwd=LEAN, capture_output=True, text=True, timeout=timeout)
    except subprocess.TimeoutExpired:
        raise Infra("lake build timed out")
    return p.returncode == 0, p.stdout + p.stderr


def build_errors(log):
    """Extract (file, line, message) of every Lean error in a lake log."""
    errs = []
    for m in re.finditer(r"error: (\S+?\.lean):(\d+):(\d+): (.*)", log):
        errs.append({"file": m.group(1), "line": int(m.group(2)), "message": m.group(4)[:300]})
    return errs


def grep_forbidden(files):
    hits = []
    for path in files:
        in_block = 0
        for ln, line in enumerate(open(path), 1):
            # strip block comments (non-nested is enough for our files) and line comments
            s = line
            out = ""
            i = 0
            while i < len(s):
                if s.startswith("/-", i):
                    in_block += 1
                    i += 2
                elif s.startswith("-/", i) and in_block:
                    in_block -= 1
                    i += 2
                elif in_block:
                    i += 1
                elif s.startswith("--", i):
                    break
                else:
                    out += s[i]
                    i += 1
            if FORBIDDEN.search(out):
                hits.append((path, ln, line.strip()))
    return hits


def lean_files_of(modules):
    """transitive closure of D3.* imports of the given modules -> file paths"""
    seen, todo = {}, list(modules)
    while todo:
        m = todo.pop()
        if m in seen or not m.startswith("D3"):
            continue
        path = os.path.join(LEAN, *m.split(".")) + ".lean"
        if not os.path.exists(path):
            continue
        seen[m] = path
        for line in open(path):
            mm = re.match(r"\s*import\s+(\S+)", line)
            if mm:
                todo.append(mm.group(1))
    return seen


def audit(prop):
    """Run lean on D3/Audit/<prop>.lean (a file of `#print axioms` commands).
    Returns (theorems: dict name -> sorted axioms list, problems: list of str)."""
    path = os.path.join(LEAN, "D3", "Audit", prop + ".lean")
    if not os.path.exists(path):
        raise Infra("no audit file for " + prop)
    p = subprocess.run(["lean", path], cwd=LEAN, capture_output=True, text=True, timeout=1200, env=lean_env())
    out = p.stdout + p.stderr
    thms, problems = {}, []
    # "'name' depends on axioms: [a, b]"  |  "'name' does not depend on any axioms"
    for m in re.finditer(r"'([^']+)' depends on axioms: \[([^\]]*)\]", out):
        axs = sorted(a.strip() for a in m.group(2).replace("\n", " ").split(",") if a.strip())
        thms[m.group(1)] = axs
        bad = [a for a in axs if a not in ALLOWED_AXIOMS]
        if bad:
            problems.append("theorem %s depends on disallowed axioms %s" % (m.group(1), bad))
    for m in re.finditer(r"'([^']+)' does not depend on any axioms", out):
        thms[m.group(1)] = []
    if p.returncode != 0:
        errs = build_errors(out) or [{"message": out[-500:]}]
        problems.append("audit file does not elaborate: %s" % errs[:3])
    wanted = re.findall(r"^#print axioms\s+(\S+)", open(path).read(), re.M)
    for w in wanted:
        if w not in thms:
            problems.append("theorem %s missing from audit output" % w)
    files = lean_files_of(["D3.Audit." + prop])
    for (f, ln, line) in grep_forbidden(files.values()):
        problems.append("forbidden token at %s:%d: %s" % (os.path.relpath(f, LEAN), ln, line))
    return thms, problems


def leanchecker(modules):
    p = subprocess.run(["lake", "env", "leanchecker"] + list(modules), cwd=LEAN,
                       capture_output=True, text=True, timeout=3000)
    return p.returncode == 0, (p.stdout + p.stderr)[-2000:]


class Driver:
    """Batch interface to the Lean driver: collect case lines, run once, parse results."""

    def __init__(self, tag, prop=None):
        """prop: which property's driver module to run (drivers/Cxx.lean); default: derived from
        the tag's first three characters, e.g. tag "c05-x" -> C05."""
        self.tag = tag
        self.prop = (prop or tag[:3]).upper()
        self.lines = []
        self.n = 0

    def add(self, fn, arith, args):
        cid = "c%d" % self.n
        self.n += 1
        self.lines.append("%s %s %s %s" % (cid, fn, arith, " ".join(args)))
        return cid

    def run(self, timeout=3000):
        if not self.lines:
            return {}
        os.makedirs(SCRATCH, exist_ok=True)
        inp = os.path.join(SCRATCH, "drv-%s-%d.in" % (self.tag, os.getpid()))
        with open(inp, "w") as f:
            f.write("\n".join(self.lines) + "\n")
        try:
            with open(inp) as fin:
                p = subprocess.run(["lean", "--run", "drivers/%s.lean" % self.prop], cwd=LEAN, env=lean_env(),
                                   stdin=fin, capture_output=True, text=True, timeout=timeout)
        except subprocess.TimeoutExpired:
            raise Infra("lean driver timed out")
        finally:
            try:
                os.remove(inp)
            except OSError:
                pass
        if p.returncode != 0:
            raise Infra("lean driver failed: " + (p.stderr or p.stdout)[-800:])
        res = {}
        for line in p.stdout.splitlines():
            parts = line.split(" ", 1)
            if len(parts) == 2:
                res[parts[0]] = parts[1]
        self.lines = []
        return res


# ----------------------------------------------------------------------------- implementation
def setup_impl(jit=False):
    """Make `import distance3d` work in this process (interpreted engine by default)."""
    if not jit:
        os.environ["NUMBA_DISABLE_JIT"] = "1"
    else:
        os.environ.pop("NUMBA_DISABLE_JIT", None)
        os.environ["NUMBA_CACHE_DIR"] = numba_cache_dir()
    import types
    if "open3d" not in sys.modules:
        class _Any(types.ModuleType):
            def __getattr__(self, name):
                if name.startswith("__"):
                    raise AttributeError(name)
                sub = _Any(self.__name__ + "." + name)
                setattr(self, name, sub)
                return sub

            def __call__(self, *a, **k):
                return self
        try:
            import open3d  # noqa
        except Exception:
            o3 = _Any("open3d")
            sys.modules["open3d"] = o3
            for sub in ("geometry", "utility", "visualization", "io"):
                sys.modules["open3d." + sub] = getattr(o3, sub)
    if REPO not in sys.path:
        sys.path.insert(0, REPO)


def repo_fingerprint():
    h = hashlib.sha256()
    base = os.path.join(REPO, "distance3d")
    for root, dirs, files in os.walk(base):
        dirs[:] = sorted(d for d in dirs if d != "__pycache__")
        for f in sorted(files):
            if f.endswith(".py"):
                p = os.path.join(root, f)
                h.update(os.path.relpath(p, base).encode())
                h.update(open(p, "rb").read())
    return h.hexdigest()[:16]


def numba_cache_dir():
    d = os.path.join(SCRATCH, "numba", repo_fingerprint())
    os.makedirs(d, exist_ok=True)
    return d


def repo_head():
    try:
        return subprocess.run(["git", "-C", REPO, "rev-parse", "--short", "HEAD"],
                              capture_output=True, text=True).stdout.strip()
    except Exception:
        return "?"


# ----------------------------------------------------------------------------- known findings
def load_known():
    """known_findings.json plus every known_findings.d/*.json (one file per property, so that
    verticals never edit a shared file); committed, never written at run time."""
    out = []
    path = os.path.join(VERIF, "known_findings.json")
    if os.path.exists(path):
        out += json.load(open(path))
    d = os.path.join(VERIF, "known_findings.d")
    if os.path.isdir(d):
        for f in sorted(os.listdir(d)):
            if f.endswith(".json"):
                out += json.load(open(os.path.join(d, f)))
    return out


# ----------------------------------------------------------------------------- context
class Ctx:
    def __init__(self, prop, tier, seed):
        self.prop = prop
        self.tier = tier
        self.seed = seed
        self.rng = random.Random(seed * 1000003 + int(prop[1:]))
        self.t0 = time.time()
        self.evaluations = 0
        self.distinct = set()
        self.samples = []
        self.streams = {}
        self.branches = {}
        self.notes = []
        self.broken = []        # proof/link/correspondence breakages: dicts
        self.failing = []       # failing inputs on the real code: dicts
        self.known_hits = []    # known findings reproduced
        self.extra = {}
        self.replay_n = 0

    @property
    def thorough(self):
        return self.tier == "thorough"

    def budget(self, quick, thorough):
        return thorough if self.thorough else quick

    def count(self, stream, key=None, nontrivial=True, sample=None):
        self.evaluations += 1
        self.streams[stream] = self.streams.get(stream, 0) + 1
        if key is not None and nontrivial:
            self.distinct.add(hash(key))
        if sample is not None and len(self.samples) < 6:
            self.samples.append(sample)

    def branch(self, fn, b):
        d = self.branches.setdefault(fn, {})
        d[str(b)] = d.get(str(b), 0) + 1

    def broke(self, kind, name, message, seed_input=None):
        self.broken.append({"kind": kind, "name": name, "message": str(message)[:1500],
                            "seed_input": seed_input})

    def fail(self, function, args, observed, expected, oracle, finding=None, engine="interp"):
        self.failing.append({"function": function, "args": args, "observed": observed,
                             "expected": expected, "oracle": oracle, "finding": finding,
                             "engine": engine})

    def write_replay(self, payload):
        d = os.path.join(VERIF, "replays")
        os.makedirs(d, exist_ok=True)
        path = os.path.join(d, "%s-%d-%d.json" % (self.prop, self.seed, self.replay_n))
        self.replay_n += 1
        payload = dict(payload)
        payload.update({"property": self.prop, "seed": self.seed, "repo_head": repo_head(),
                        "tier": self.tier})
        with open(path, "w") as f:
            json.dump(payload, f, indent=1, default=str)
        return path


def jsonable(x):
    import numpy as np
    if isinstance(x, np.ndarray):
        return x.tolist()
    if isinstance(x, (np.floating,)):
        return float(x)
    if isinstance(x, (np.integer,)):
        return int(x)
    if isinstance(x, (np.bool_,)):
        return bool(x)
    if isinstance(x, dict):
        return {str(k): jsonable(v) for k, v in x.items()}
    if isinstance(x, (list, tuple)):
        return [jsonable(v) for v in x]
    return x


# ----------------------------------------------------------------------------- second engine
def run_engine(prop, cases, jit=True, timeout=3000):
    """Run `props.<prop>.impl_run(case)` for every case in a fresh interpreter with the JIT on
    (fresh numba cache keyed by the repo's content). Returns list of results or None."""
    import pickle
    os.makedirs(SCRATCH, exist_ok=True)
    inp = os.path.join(SCRATCH, "eng-%s-%d.in" % (prop, os.getpid()))
    outp = os.path.join(SCRATCH, "eng-%s-%d.out" % (prop, os.getpid()))
    with open(inp, "wb") as f:
        pickle.dump(cases, f)
    env = dict(os.environ)
    if jit:
        env.pop("NUMBA_DISABLE_JIT", None)
        env["NUMBA_CACHE_DIR"] = numba_cache_dir()
    else:
        env["NUMBA_DISABLE_JIT"] = "1"
    env["D3_ENGINE"] = "jit" if jit else "interp"
    try:
        p = subprocess.run([sys.executable, os.path.join(VERIF, "harness", "worker.py"), prop, inp, outp],
                           env=env, capture_output=True, text=True, timeout=timeout)
        if p.returncode != 0 or not os.path.exists(outp):
            return {"engine_error": (p.stderr or p.stdout)[-1500:]}
        with open(outp, "rb") as f:
            return pickle.load(f)
    except subprocess.TimeoutExpired:
        raise Infra("engine subprocess timed out")
    finally:
        for x in (inp, outp):
            try:
                os.remove(x)
            except OSError:
                pass


# ----------------------------------------------------------------------------- source fingerprints
def _ast_hash(path, qual):
    """hash of the normalised AST (no docstrings, no comments, no positions) of function/method `qual`"""
    import ast
    tree = ast.parse(open(path).read())
    node = tree
    for part in qual.split("."):
        found = None
        for ch in ast.iter_child_nodes(node):
            if isinstance(ch, (ast.FunctionDef, ast.ClassDef, ast.AsyncFunctionDef)) and ch.name == part:
                found = ch
                break
        if found is None:
            return None
        node = found
    for n in ast.walk(node):
        body = getattr(n, "body", None)
        if isinstance(body, list) and body and isinstance(body[0], ast.Expr) and \
                isinstance(getattr(body[0], "value", None), ast.Constant) and isinstance(body[0].value.value, str):
            n.body = body[1:] or [ast.Pass()]
    return hashlib.sha256(ast.dump(node, annotate_fields=False, include_attributes=False).encode()).hexdigest()[:16]


def current_fingerprints(modelled):
    out = {}
    for item in modelled:
        if not isinstance(item, str) or item.count(":") != 1:
            continue
        rel, qual = item.split(":")
        p = os.path.join(REPO, rel)
        out[item] = _ast_hash(p, qual) if os.path.exists(p) else None
    return out


def changed_sources(prop, modelled):
    """functions whose normalised AST differs from the snapshot the model was written against
    (harness/source_map.json). A changed hash proves nothing by itself; it multiplies the case budget."""
    path = os.path.join(VERIF, "harness", "source_map.json")
    snap = json.load(open(path)).get(prop, {}) if os.path.exists(path) else {}
    cur = current_fingerprints(modelled)
    return sorted(k for k in cur if k in snap and snap[k] != cur[k]), sorted(k for k in cur if k not in snap)


def anchor_functions(prop):
    """every function / method defined in the property's anchor files (properties.jsonl): the default list of
    fingerprinted functions for verticals that do not name their modelled functions themselves"""
    import ast
    files = []
    for line in open(os.path.join(VERIF, "properties.jsonl")):
        p = json.loads(line)
        if p["id"] == prop:
            files = [f for f in p["anchors"]["files"] if f.endswith(".py")]
    out = []
    for rel in files:
        path = os.path.join(REPO, rel)
        if not os.path.exists(path):
            continue
        try:
            tree = ast.parse(open(path).read())
        except SyntaxError:
            continue
        for node in tree.body:
            if isinstance(node, ast.FunctionDef):
                out.append("%s:%s" % (rel, node.name))
            elif isinstance(node, ast.ClassDef):
                for sub in node.body:
                    if isinstance(sub, ast.FunctionDef):
                        out.append("%s:%s.%s" % (rel, node.name, sub.name))
    return out
