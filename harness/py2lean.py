"""py2lean — translator for straight-line scalar kernels of distance3d into Lean 4.

Regenerates lean/D3/Gen/Kernels05.lean (+ the link theorems Gen.f = Model.f in
lean/D3/Gen/Link05.lean) from /repo's *current* source on every run, so that a semantic edit of
a kernel breaks a link theorem deterministically (no sampling luck), while renames of locals,
comments and docstrings do not.

Supported subset (enough for the AABB kernels): a single `return <expr>` body (after the
docstring), where <expr> is built from parameter names, `p[i, j]` with constant indices on a
(3,2) box parameter, float/int literals, + - *, comparisons, `and`, `min`/`max`, calls to other
translated kernels, and the literal `np.array([[a,b],[c,d],[e,f]])` (a box).
Anything outside the subset makes the generated file contain `#exit`-free invalid Lean on purpose?
No: it raises Unsupported, the kernel is emitted as a comment and its link theorem is emitted as a
failing `example : False` is NOT done either — instead the link file states the theorem against a
missing definition, which fails to elaborate: the check then reports "link no longer checks".

A second translator (class Tr2, table SPECS, further down) covers straight-line kernels with local
assignments, 3-vectors and poses and writes Kernels03/04/10.lean + Link03/04/10.lean (properties C03, C04, C10)
under the same policy.  KERNELS_05 / translate_05 are untouched.
"""
import ast
import os

REPO = os.environ.get("D3_REPO", "/repo")

BOX_FIELDS = {(0, 0): "lo0", (0, 1): "hi0", (1, 0): "lo1", (1, 1): "hi1", (2, 0): "lo2", (2, 1): "hi2"}

# python name -> (lean name in namespace D3.Gen.K05, parameter kinds, result kind, model name)
KERNELS_05 = [
    ("_aabb_x_size", ["box"], "scalar", None),
    ("_aabb_y_size", ["box"], "scalar", None),
    ("_aabb_z_size", ["box"], "scalar", None),
    ("_aabb_volume", ["box"], "scalar", "D3.Aabb.volume"),
    ("_merge_aabb", ["box", "box"], "box", "D3.Aabb.merge"),
    ("aabb_overlap", ["box", "box"], "bool", "D3.Aabb.overlap"),
]


class Unsupported(Exception):
    pass


class Tr:
    def __init__(self, params, kinds, known):
        self.kinds = dict(zip(params, kinds))
        self.known = known

    def expr(self, e, want_bool=False):
        if isinstance(e, ast.BoolOp) and isinstance(e.op, ast.And):
            return "(" + " && ".join(self.expr(v, True) for v in e.values) + ")"
        if isinstance(e, ast.Compare) and len(e.ops) == 1:
            op = {ast.LtE: "≤", ast.GtE: "≥", ast.Lt: "<", ast.Gt: ">"}.get(type(e.ops[0]))
            if op is None:
                raise Unsupported(ast.dump(e.ops[0]))
            return "decide (%s %s %s)" % (self.expr(e.left), op, self.expr(e.comparators[0]))
        if isinstance(e, ast.Subscript) and isinstance(e.value, ast.Name):
            idx = e.slice
            if (isinstance(idx, ast.Tuple) and len(idx.elts) == 2 and
                    all(isinstance(x, ast.Constant) and isinstance(x.value, int) for x in idx.elts) and
                    self.kinds.get(e.value.id) == "box"):
                key = (idx.elts[0].value, idx.elts[1].value)
                if key in BOX_FIELDS:
                    return "%s.%s" % (e.value.id, BOX_FIELDS[key])
            raise Unsupported("subscript " + ast.unparse(e))
        if isinstance(e, ast.Name):
            if e.id in self.kinds:
                return e.id
            raise Unsupported("free name " + e.id)
        if isinstance(e, ast.Constant) and isinstance(e.value, (int, float)) and not isinstance(e.value, bool):
            if e.value in (0, 1, 2):
                return "(%d : α)" % e.value
            return "(%r : α)" % float(e.value)
        if isinstance(e, ast.BinOp):
            op = {ast.Add: "+", ast.Sub: "-", ast.Mult: "*"}.get(type(e.op))
            if op is None:
                raise Unsupported(ast.dump(e.op))
            l, r = self.expr(e.left), self.expr(e.right)
            # Python is left-associative; keep explicit parentheses only on the right operand
            if isinstance(e.right, ast.BinOp):
                r = "(" + r + ")"
            if isinstance(e.left, ast.BinOp) and op == "*" and isinstance(e.left.op, (ast.Add, ast.Sub)):
                l = "(" + l + ")"
            return "%s %s %s" % (l, op, r)
        if isinstance(e, ast.Call):
            fn = ast.unparse(e.func)
            if fn in ("min", "max") and len(e.args) == 2:
                return "%s (%s) (%s)" % (fn, self.expr(e.args[0]), self.expr(e.args[1]))
            if fn in self.known:
                return "(%s %s)" % (lean_name(fn), " ".join("(" + self.expr(a) + ")" for a in e.args))
            if fn == "np.array" and len(e.args) == 1 and isinstance(e.args[0], ast.List):
                rows = e.args[0].elts
                if len(rows) == 3 and all(isinstance(r, ast.List) and len(r.elts) == 2 for r in rows):
                    vals = [self.expr(x) for r in rows for x in r.elts]
                    names = ["lo0", "hi0", "lo1", "hi1", "lo2", "hi2"]
                    return "{ " + ", ".join("%s := %s" % (n, v) for n, v in zip(names, vals)) + " }"
            raise Unsupported("call " + fn)
        raise Unsupported(ast.dump(e)[:80])


def lean_name(py):
    return py.lstrip("_")


HEADER = """/- GENERATED by harness/py2lean.py from /repo/distance3d/aabb_tree.py — do not edit. -/
import D3.Model.Aabb

set_option linter.unusedSectionVars false

namespace D3.Gen.K05
open D3 D3.Aabb

scalar_variables

"""


def translate_05():
    path = os.path.join(REPO, "distance3d", "aabb_tree.py")
    tree = ast.parse(open(path).read())
    fns = {n.name: n for n in tree.body if isinstance(n, ast.FunctionDef)}
    out = [HEADER]
    known = set()
    problems = []
    for py, kinds, res, _model in KERNELS_05:
        fn = fns.get(py)
        if fn is None:
            problems.append("%s: function not found" % py)
            continue
        body = [s for s in fn.body if not (isinstance(s, ast.Expr) and isinstance(s.value, ast.Constant))]
        params = [a.arg for a in fn.args.args]
        try:
            if len(body) != 1 or not isinstance(body[0], ast.Return) or len(params) != len(kinds):
                raise Unsupported("body is not a single return")
            ex = Tr(params, kinds, known).expr(body[0].value)
        except Unsupported as e:
            problems.append("%s: outside the translator's subset: %s" % (py, e))
            out.append("-- %s: outside the translator's subset (%s)\n" % (py, e))
            continue
        sig = " ".join("(%s : %s)" % (p, "Box α" if k == "box" else "α") for p, k in zip(params, kinds))
        rty = {"scalar": "α", "box": "Box α", "bool": "Bool"}[res]
        out.append("/-- `aabb_tree.%s` -/\ndef %s %s : %s :=\n  %s\n" % (py, lean_name(py), sig, rty, ex))
        known.add(py)
    out.append("end D3.Gen.K05\n")
    link = ["/- GENERATED by harness/py2lean.py — link theorems: today's source = the hand-written model. -/",
            "import D3.Gen.Kernels05", "", "set_option linter.unusedSectionVars false", "",
            "namespace D3.Gen.K05", "open D3 D3.Aabb", "", "scalar_variables", ""]
    for py, kinds, res, model in KERNELS_05:
        if model is None:
            continue
        args = " ".join("abcdef"[i] for i in range(len(kinds)))
        binders = " ".join("(%s : Box α)" % "abcdef"[i] for i in range(len(kinds)))
        link.append("/-- regenerated `%s` coincides with the model the theorems are about -/" % py)
        link.append("theorem %s_link %s : %s %s = %s %s := rfl\n" % (lean_name(py), binders, lean_name(py), args,
                                                                    model, args))
    link.append("end D3.Gen.K05\n")
    return "\n".join(out), "\n".join(link), problems


# ---------------------------------------------------------------------------------------------
# Second translator: straight-line kernels with local assignments and 3-vectors (C03/C04/C10).
#
# Supported subset: a body of `x = e`, `x op= e` (x a local, never a parameter: numpy would mutate the
# caller's array), `if c: <assignments> [else: <assignments>]`, `if c: ... return e` and a final
# `return e`, where e is built from scalars / 3-vectors / a (4,4) pose parameter:
#   + - * / and unary minus with numpy broadcasting written out per component (operand order kept),
#   np.dot, np.cross, np.linalg.norm on 3-vectors, math.sqrt / np.sqrt, abs / np.abs / math.fabs,
#   min / max (Python semantics: `pmin`/`pmax` of the model), v[i] with constant i,
#   np.array([a, b, c]), A[:3, j] (column j of R, or the translation for j = 3), tuples,
#   comparisons < > <= >= and `x == 0.0` (as `x ≤ 0 ∧ 0 ≤ x`, the model's reading of float equality),
#   `not b` on a bool parameter.
# No alias analysis is done: a local vector is treated as a value.
# ---------------------------------------------------------------------------------------------
import re

_ATOM = re.compile(r"^[A-Za-z_][A-Za-z_0-9.']*$")


def _comp(vecs, f):
    """componentwise vector built from the vector expressions `vecs` (bound to fresh names first)"""
    names, lets = [], []
    for i, v in enumerate(vecs):
        if _ATOM.match(v):
            names.append(v)
        else:
            n = "v%d_" % i
            lets.append("let %s : V3 α := %s; " % (n, v))
            names.append(n)
    body = "(⟨%s, %s, %s⟩ : V3 α)" % tuple(f(*[n + "." + c for n in names]) for c in "xyz")
    return "(%s%s)" % ("".join(lets), body) if lets else body


def _comp2(vecs, f):
    """componentwise 2-vector (`Hydro.V2`) built from the 2-vector expressions `vecs`"""
    names, lets = [], []
    for i, v in enumerate(vecs):
        if _ATOM.match(v):
            names.append(v)
        else:
            n = "w%d_" % i
            lets.append("let %s : V2 α := %s; " % (n, v))
            names.append(n)
    body = "(⟨%s, %s⟩ : V2 α)" % tuple(f(*[n + "." + c for n in names]) for c in "xy")
    return "(%s%s)" % ("".join(lets), body) if lets else body


class Tr2:
    def __init__(self, params, kinds, known, minmax=("min", "max"), consts=None):
        self.int_as_nat = False  # spec option: int literals in a returned tuple are `Nat` (feature bit sets)
        self.consts = consts or {}  # module-level python constant -> lean term (a scalar of the model)
        self.env = dict(zip(params, kinds))
        self.params = set(params)
        self.known = known  # python name -> (lean name, result kind)
        self.minmax = minmax

    # -- expressions: returns (kind, lean) ; kind in scalar, vec, pose, bool, prop, ("tuple", [...])
    def num(self, v):
        if v in (0, 1, 2):
            return "(%d : α)" % v
        return "(%r : α)" % float(v)

    def expr(self, e):
        if isinstance(e, ast.Name):
            if e.id in self.env:
                return self.env[e.id], e.id
            if e.id in self.consts:
                return "scalar", self.consts[e.id]
            raise Unsupported("free name " + e.id)
        if isinstance(e, ast.Constant):
            if isinstance(e.value, bool):
                return "bool", "true" if e.value else "false"
            if isinstance(e.value, (int, float)):
                return "scalar", self.num(e.value)
            raise Unsupported("constant %r" % (e.value,))
        if isinstance(e, ast.Tuple):
            parts = [("nat", "(%d : Nat)" % x.value) if self.int_as_nat and isinstance(x, ast.Constant)
                     and type(x.value) is int and x.value >= 0 else self.expr(x) for x in e.elts]
            return ("tuple", [k for k, _ in parts]), "(" + ", ".join(s for _, s in parts) + ")"
        if isinstance(e, ast.IfExp):
            # conditional expression `a if c else b` on scalars / vectors of one kind
            c = self.cond(e.test)
            (ka, a), (kb, b) = self.expr(e.body), self.expr(e.orelse)
            if ka == kb and ka in ("scalar", "vec"):
                return ka, "(if %s then %s else %s)" % (c, a, b)
            raise Unsupported("conditional expression of kinds %s/%s" % (ka, kb))
        if isinstance(e, ast.UnaryOp):
            k, s = self.expr(e.operand)
            if isinstance(e.op, ast.USub) and k in ("scalar", "vec"):
                return k, "(-%s)" % s
            if isinstance(e.op, ast.Not) and k == "bool":
                return "bool", "(!%s)" % s
            raise Unsupported("unary " + ast.unparse(e))
        if isinstance(e, ast.BinOp):
            op = {ast.Add: "+", ast.Sub: "-", ast.Mult: "*", ast.Div: "/"}.get(type(e.op))
            if op is None:
                raise Unsupported(ast.dump(e.op))
            return self.binop(op, self.expr(e.left), self.expr(e.right))
        if isinstance(e, ast.Compare) and len(e.ops) == 1:
            (kl, l), (kr, r) = self.expr(e.left), self.expr(e.comparators[0])
            if kl != "scalar" or kr != "scalar":
                raise Unsupported("comparison of non-scalars " + ast.unparse(e))
            o = e.ops[0]
            if isinstance(o, ast.Eq):
                c = e.comparators[0]
                if isinstance(c, ast.Constant) and c.value == 0 and not isinstance(c.value, bool):
                    return "prop", "(%s ≤ 0 ∧ 0 ≤ %s)" % (l, l)
                raise Unsupported("== against a non-zero " + ast.unparse(e))
            if isinstance(o, ast.NotEq):
                c = e.comparators[0]
                if isinstance(c, ast.Constant) and c.value == 0 and not isinstance(c.value, bool):
                    return "prop", "(%s < 0 ∨ 0 < %s)" % (l, l)
                raise Unsupported("!= against a non-zero " + ast.unparse(e))
            op = {ast.LtE: "≤", ast.GtE: "≥", ast.Lt: "<", ast.Gt: ">"}.get(type(o))
            if op is None:
                raise Unsupported(ast.dump(o))
            return "prop", "(%s %s %s)" % (l, op, r)
        if isinstance(e, ast.Subscript):
            return self.subscript(e)
        if isinstance(e, ast.Attribute) and e.attr == "T":
            k, s = self.expr(e.value)
            if k == "mat":
                return "matT", s
            raise Unsupported("transpose of " + str(k))
        if isinstance(e, ast.Call):
            return self.call(e)
        raise Unsupported(ast.dump(e)[:80])

    def binop(self, op, L, R):
        (kl, l), (kr, r) = L, R
        if kl == "scalar" and kr == "scalar":
            return "scalar", "(%s %s %s)" % (l, op, r)
        if kl == "vec" and kr == "vec":
            if op in "+-":
                return "vec", "(%s %s %s)" % (l, op, r)
            return "vec", _comp([l, r], lambda a, b: "%s %s %s" % (a, op, b))
        if kl == "vec2" and kr == "vec2":
            if op == "-":
                return "vec2", "(V2.sub %s %s)" % (l, r)
            return "vec2", _comp2([l, r], lambda a, b: "%s %s %s" % (a, op, b))
        if kl == "vec2" and kr == "scalar":
            return "vec2", _comp2([l], lambda a: "%s %s %s" % (a, op, r))
        if kl == "scalar" and kr == "vec2":
            return "vec2", _comp2([r], lambda b: "%s %s %s" % (l, op, b))
        if kl == "scalar" and kr == "vec":
            if op == "*":
                return "vec", "(%s * %s)" % (l, r)  # HMul α (V3 α) = V3.smul : s * v.i
            return "vec", _comp([r], lambda b: "%s %s %s" % (l, op, b))
        if kl == "vec" and kr == "scalar":
            if op == "/":
                return "vec", "(V3.sdiv %s %s)" % (l, r)
            return "vec", _comp([l], lambda a: "%s %s %s" % (a, op, r))
        raise Unsupported("operands of %s: %s, %s" % (op, kl, kr))

    def subscript(self, e):
        idx = e.slice
        k, s = self.expr(e.value)
        if isinstance(idx, ast.Constant) and isinstance(idx.value, int) and not isinstance(idx.value, bool):
            if k == "vec" and idx.value in (0, 1, 2):
                return "scalar", "%s.%s" % (s if _ATOM.match(s) else "(" + s + ")", "xyz"[idx.value])
            if isinstance(k, tuple) and 0 <= idx.value < len(k[1]):
                n, i = len(k[1]), idx.value
                proj = ".2" * i + (".1" if i < n - 1 else "")
                return k[1][i], "%s%s" % (s, proj)
        if isinstance(idx, ast.Constant) and k == "vec2" and idx.value in (0, 1) and not isinstance(idx.value, bool):
            return "scalar", "%s.%s" % (s if _ATOM.match(s) else "(" + s + ")", "xy"[idx.value])
        if k == "hp" and isinstance(idx, ast.Slice) and idx.step is None and _ATOM.match(s):
            # a half-plane row `[p0, p1, d0, d1]`: `h[:2]` is the point, `h[2:]` the direction
            if ast.unparse(idx) == ":2":
                return "vec2", "%s.p" % s
            if ast.unparse(idx) == "2:":
                return "vec2", "%s.d" % s
        if (isinstance(k, tuple) and isinstance(idx, ast.Slice) and idx.lower is None and idx.step is None
                and isinstance(idx.upper, ast.Constant) and isinstance(idx.upper.value, int)
                and not isinstance(idx.upper.value, bool) and 2 <= idx.upper.value <= len(k[1])):
            n, m = len(k[1]), idx.upper.value
            if not _ATOM.match(s):
                return ("tuple", k[1][:m]), "(let tup_ := %s; (%s))" % (s, ", ".join(
                    "tup_" + ".2" * i + (".1" if i < n - 1 else "") for i in range(m)))
            return ("tuple", k[1][:m]), "(%s)" % ", ".join(s + ".2" * i + (".1" if i < n - 1 else "") for i in range(m))
        if (k == "pose" and isinstance(idx, ast.Tuple) and len(idx.elts) == 2 and
                ast.unparse(idx.elts[0]) == ":3" and isinstance(idx.elts[1], ast.Constant) and
                idx.elts[1].value in (0, 1, 2, 3)):
            j = idx.elts[1].value
            return "vec", ("%s.t" % s) if j == 3 else ("%s.R.col%d" % (s, j))
        if (k == "pose" and isinstance(idx, ast.Tuple) and len(idx.elts) == 2 and
                [ast.unparse(x) for x in idx.elts] == [":3", ":3"]):
            return "mat", "%s.R" % s
        raise Unsupported("subscript " + ast.unparse(e))

    def call(self, e):
        fn = ast.unparse(e.func)
        if (fn == "np.empty" and len(e.args) == 1 and isinstance(e.args[0], ast.Constant) and e.args[0].value == 0
                and not isinstance(e.args[0].value, bool)):
            return "empty", "none"  # the empty array some kernels return for "no result"
        if e.keywords:
            raise Unsupported("keyword arguments in " + ast.unparse(e))
        if (fn == "np.zeros" and len(e.args) == 1 and isinstance(e.args[0], ast.Constant) and e.args[0].value == 3
                and not isinstance(e.args[0].value, bool)):
            return "vec", "(V3.zero : V3 α)"
        if isinstance(e.func, ast.Attribute) and e.func.attr == "dot" and len(e.args) == 1:
            # method form `a.dot(b)` of np.dot(a, b)
            (ka, a), (kb, b) = self.expr(e.func.value), self.expr(e.args[0])
            if ka == "vec" and kb == "vec":
                return "scalar", "(V3.dot %s %s)" % (a, b)
            if ka == "mat" and kb == "vec":
                return "vec", "(M3.mulVec %s %s)" % (a, b)
            if ka == "matT" and kb == "vec":   # `R.T.dot(v)`: the same routine as np.dot(R.T, v)
                return "vec", "(M3.tmulVec %s %s)" % (a, b)
            raise Unsupported("call " + ast.unparse(e)[:60])
        args = [self.expr(a) for a in e.args] if not (fn == "np.array") else None
        ks = [k for k, _ in args] if args is not None else None
        if fn == "np.dot" and ks == ["vec", "vec"]:
            return "scalar", "(V3.dot %s %s)" % (args[0][1], args[1][1])
        if fn == "np.dot" and ks == ["mat", "vec"]:
            return "vec", "(M3.mulVec %s %s)" % (args[0][1], args[1][1])
        if fn == "np.dot" and ks == ["matT", "vec"]:
            return "vec", "(M3.tmulVec %s %s)" % (args[0][1], args[1][1])
        if fn == "np.sign" and ks == ["scalar"]:
            return "scalar", "(signS %s)" % args[0][1]
        if fn == "np.sign" and ks == ["vec"]:
            return "vec", _comp([args[0][1]], lambda a: "signS %s" % a)
        if fn in ("np.minimum", "np.maximum") and args is not None and len(args) == 2:
            m = self.minmax[fn == "np.maximum"]
            (ka, a), (kb, b) = args
            if ka == "scalar" and kb == "scalar":
                return "scalar", "(%s %s %s)" % (m, a, b)
            if ka == "vec" and kb == "vec":
                return "vec", _comp([a, b], lambda x, y: "%s %s %s" % (m, x, y))  # x, y are projections of atoms
            if ka == "scalar" and kb == "vec":
                return "vec", _comp([b], lambda y: "%s %s (%s)" % (m, a, y))
            if ka == "vec" and kb == "scalar":
                return "vec", _comp([a], lambda x: "%s (%s) %s" % (m, x, b))
        if fn == "np.cross" and ks == ["vec", "vec"]:
            return "vec", "(V3.cross %s %s)" % (args[0][1], args[1][1])
        if fn == "np.linalg.norm" and ks == ["vec"]:
            return "scalar", "(V3.norm %s)" % args[0][1]
        if fn in ("math.sqrt", "np.sqrt") and ks == ["scalar"]:
            return "scalar", "(sqrt %s)" % args[0][1]
        if fn == "np.sqrt" and ks == ["vec"]:
            return "vec", _comp([args[0][1]], lambda a: "sqrt (%s)" % a)
        if fn in ("abs", "np.abs", "math.fabs") and ks == ["scalar"]:
            return "scalar", "(absS %s)" % args[0][1]
        if fn == "np.abs" and ks == ["vec"]:
            return "vec", _comp([args[0][1]], lambda a: "absS %s" % a)
        if fn in ("min", "max") and ks == ["scalar", "scalar"]:
            return "scalar", "(%s %s %s)" % (self.minmax[fn == "max"], args[0][1], args[1][1])
        if fn == "np.array" and len(e.args) == 1 and isinstance(e.args[0], ast.List) and len(e.args[0].elts) == 3:
            parts = [self.expr(x) for x in e.args[0].elts]
            if all(k == "scalar" for k, _ in parts):
                return "vec", "(⟨%s, %s, %s⟩ : V3 α)" % tuple(s for _, s in parts)
        if fn == "np.clip" and ks == ["scalar"] * 3:
            return "scalar", "(%s (%s %s %s) %s)" % (self.minmax[0], self.minmax[1], args[0][1], args[1][1], args[2][1])
        if fn == "np.clip" and ks == ["vec"] * 3:
            return "vec", _comp([a for _, a in args], lambda x, lo, hi: "%s (%s %s %s) %s" % (
                self.minmax[0], self.minmax[1], x, lo, hi))
        if fn == "np.copy" and ks == ["vec"]:
            return "vec", args[0][1]
        if fn == "np.column_stack" and ks == [("tuple", ["vec", "vec", "vec"])] and isinstance(e.args[0], ast.Tuple):
            a, b, c = [self.expr(x)[1] for x in e.args[0].elts]
            if all(_ATOM.match(x) for x in (a, b, c)):
                return "mat", "(⟨%s⟩ : M3 α)" % ", ".join("⟨%s.%s, %s.%s, %s.%s⟩" % (a, i, b, i, c, i) for i in "xyz")
        if fn in self.known and args is not None:
            lname, pk, rk = self.known[fn]
            if ks == pk:
                return rk, "(%s %s)" % (lname, " ".join(s for _, s in args))
        helper = getattr(self, "module_fns", {}).get(fn) if isinstance(e.func, ast.Name) else None
        if helper is not None and fn not in getattr(self, "_inlining", ()):
            # a helper of the same module whose body is one `return <expr>`: inline it (pure expression, the
            # parameters are replaced by the argument expressions), so extracting such a helper keeps the link
            hb = [st for st in helper.body if not (isinstance(st, ast.Expr) and isinstance(st.value, ast.Constant))]
            hp = [a.arg for a in helper.args.args]
            if (len(hb) == 1 and isinstance(hb[0], ast.Return) and hb[0].value is not None and len(hp) == len(e.args)
                    and not (helper.args.vararg or helper.args.kwarg or helper.args.kwonlyargs or helper.args.defaults)):
                import copy
                sub = dict(zip(hp, e.args))

                class _Subst(ast.NodeTransformer):
                    def visit_Name(self, node):
                        return copy.deepcopy(sub[node.id]) if node.id in sub else node
                inl = _Subst().visit(copy.deepcopy(hb[0].value))
                self._inlining = tuple(getattr(self, "_inlining", ())) + (fn,)
                try:
                    return self.expr(inl)
                finally:
                    self._inlining = self._inlining[:-1]
        raise Unsupported("call " + ast.unparse(e)[:60])

    def cond(self, e):
        k, s = self.expr(e)
        if k == "prop":
            return s
        if k == "bool":
            return "(%s = true)" % s
        raise Unsupported("condition " + ast.unparse(e))

    # -- statements: returns (result kind, lean term) for a block that must end in a return
    def assign(self, st):
        """one assignment statement -> (name, kind, lean)"""
        if isinstance(st, ast.Assign) and len(st.targets) == 1 and isinstance(st.targets[0], ast.Name):
            k, s = self.expr(st.value)
            return st.targets[0].id, k, s
        if isinstance(st, ast.AugAssign) and isinstance(st.target, ast.Name):
            n = st.target.id
            if n in self.params:
                raise Unsupported("in-place update of parameter " + n)
            op = {ast.Add: "+", ast.Sub: "-", ast.Mult: "*", ast.Div: "/"}.get(type(st.op))
            if op is None or n not in self.env:
                raise Unsupported(ast.unparse(st))
            k, s = self.binop(op, (self.env[n], n), self.expr(st.value))
            return n, k, s
        # component store `v[i] = e` / `v[i] op= e` on a local 3-vector: functional update of the local
        t = st.targets[0] if isinstance(st, ast.Assign) and len(st.targets) == 1 else getattr(st, "target", None)
        if (isinstance(t, ast.Subscript) and isinstance(t.value, ast.Name) and isinstance(t.slice, ast.Constant)
                and t.slice.value in (0, 1, 2) and not isinstance(t.slice.value, bool)):
            n, i = t.value.id, t.slice.value
            if n in self.params:
                raise Unsupported("in-place update of parameter " + n)
            if self.env.get(n) != "vec":
                raise Unsupported("component store into " + n)
            k, s = self.expr(st.value)
            if k != "scalar":
                raise Unsupported("component store of a non-scalar " + ast.unparse(st))
            if isinstance(st, ast.AugAssign):
                op = {ast.Add: "+", ast.Sub: "-", ast.Mult: "*", ast.Div: "/"}.get(type(st.op))
                if op is None:
                    raise Unsupported(ast.unparse(st))
                s = "%s.%s %s %s" % (n, "xyz"[i], op, s)
            comps = [s if j == i else "%s.%s" % (n, "xyz"[j]) for j in range(3)]
            return n, "vec", "(⟨%s, %s, %s⟩ : V3 α)" % tuple(comps)
        raise Unsupported("statement " + ast.unparse(st)[:60])

    def bind(self, n, k):
        self.env[n] = k
        self.params.discard(n)

    def if_outs(self, st):
        """names assigned on both paths of an `if` made of assignments (and nested such `if`s), in order"""
        def coll(b):
            r = []
            for x in b:
                if isinstance(x, ast.If):
                    r += [o for o in self.if_outs(x) if o not in r]
                    continue
                t = x.targets[0] if isinstance(x, ast.Assign) and len(x.targets) == 1 else getattr(x, "target", None)
                if isinstance(t, ast.Subscript):
                    t = t.value
                if not isinstance(t, ast.Name):
                    raise Unsupported("statement in branch " + ast.unparse(x)[:60])
                if t.id not in r:
                    r.append(t.id)
            return r
        a, b = coll(st.body), coll(st.orelse)
        return [o for o in a if o in b or o in self.env] + [o for o in b if o not in a and o in self.env]

    def branch(self, stmts, outs):
        """a branch consisting of assignments only, yielding the tuple of `outs`"""
        saved = (dict(self.env), set(self.params))
        lets = []
        for st in stmts:
            if isinstance(st, ast.If):
                # nested `if` of assignments inside a branch
                inner = self.if_outs(st)
                if not inner or any(isinstance(x, ast.Return) for x in ast.walk(st)):
                    raise Unsupported("nested if " + ast.unparse(st.test))
                c = self.cond(st.test)
                ka, a = self.branch(st.body, inner)
                kb, b = self.branch(st.orelse, inner)
                if ka != kb:
                    raise Unsupported("branches assign different shapes")
                if len(inner) == 1:
                    lets.append("let %s := if %s then %s else %s; " % (inner[0], c, a, b))
                else:
                    lets.append("let br_ := if %s then %s else %s; " % (c, a, b))
                    for i, o in enumerate(inner):
                        lets.append("let %s := br_%s; " % (o, ".2" * i + (".1" if i < len(inner) - 1 else "")))
                for o, k in zip(inner, ka):
                    self.bind(o, k)
                continue
            n, k, s = self.assign(st)
            lets.append("let %s := %s; " % (n, s))
            self.bind(n, k)
        for o in outs:
            if o not in self.env:
                raise Unsupported("%s is not assigned on every path" % o)
        kinds = [self.env[o] for o in outs]
        self.env, self.params = saved[0], saved[1]
        val = outs[0] if len(outs) == 1 else "(" + ", ".join(outs) + ")"
        return kinds, "(%s%s)" % ("".join(lets), val) if lets else val

    def block(self, stmts, ind="  "):
        if not stmts:
            raise Unsupported("path without return")
        st, rest = stmts[0], stmts[1:]
        if isinstance(st, ast.Return):
            if st.value is None:
                raise Unsupported("bare return")
            k, s = self.expr(st.value)
            if k == "prop":
                return "bool", ind + "decide %s" % s
            return k, ind + s
        if isinstance(st, ast.If):
            c = self.cond(st.test)
            if st.body and isinstance(st.body[-1], ast.Return):
                saved = (dict(self.env), set(self.params))
                k1, s1 = self.block(st.body, ind + "  ")
                self.env, self.params = dict(saved[0]), set(saved[1])
                k2, s2 = self.block(list(st.orelse) + rest, ind + "  ")
                if k1 == "empty" and k2 in ("vec2", "vec"):
                    return ("option", k2), "%sif %s then\n%s\n%selse\n%ssome (\n%s)" % (ind, c, s1, ind, ind + "  ", s2)
                if k1 != k2:
                    raise Unsupported("branches return different shapes")
                return k1, "%sif %s then\n%s\n%selse\n%s" % (ind, c, s1, ind, s2)
            outs = []
            for b in (st.body, st.orelse):
                for x in b:
                    if isinstance(x, ast.If):
                        for o in self.if_outs(x):
                            if o not in outs:
                                outs.append(o)
                        continue
                    t = x.targets[0] if isinstance(x, ast.Assign) and len(x.targets) == 1 else getattr(x, "target", None)
                    if isinstance(t, ast.Subscript):
                        t = t.value
                    if not isinstance(t, ast.Name):
                        raise Unsupported("statement in branch " + ast.unparse(x)[:60])
                    if t.id not in outs:
                        outs.append(t.id)
            def names(b):
                if any(isinstance(x, ast.If) for x in b):
                    return set(sum((self.if_outs(x) if isinstance(x, ast.If) else list(names([x])) for x in b), []))
                ts = [(x.targets[0] if isinstance(x, ast.Assign) else x.target) for x in b]
                return {(t.value if isinstance(t, ast.Subscript) else t).id for t in ts}
            # a name assigned on one path only and unknown before the `if` is local to that path
            outs = [o for o in outs if o in self.env or (o in names(st.body) and o in names(st.orelse))]
            if not outs:
                raise Unsupported("if without effect")
            ka, a = self.branch(st.body, outs)
            kb, b = self.branch(st.orelse, outs)
            if ka != kb:
                raise Unsupported("branches assign different shapes")
            if len(outs) == 1:
                head = "%slet %s := if %s then %s else %s\n" % (ind, outs[0], c, a, b)
            else:
                head = "%slet br_ := if %s then %s else %s\n" % (ind, c, a, b)
                n = len(outs)
                for i, o in enumerate(outs):
                    head += "%slet %s := br_%s\n" % (ind, o, ".2" * i + (".1" if i < n - 1 else ""))
            for o, k in zip(outs, ka):
                self.bind(o, k)
            k, s = self.block(rest, ind)
            return k, head + s
        if (isinstance(st, ast.Assign) and len(st.targets) == 1 and isinstance(st.targets[0], ast.Tuple)
                and all(isinstance(x, ast.Name) for x in st.targets[0].elts)):
            names = [x.id for x in st.targets[0].elts]
            k, s = self.expr(st.value)
            if not (isinstance(k, tuple) and len(k[1]) == len(names)):
                raise Unsupported("unpacking " + ast.unparse(st)[:60])
            tmp = "tup%d_" % len(self.env)
            head = "%slet %s := %s\n" % (ind, tmp, s)
            m = len(names)
            for i, (nm, kk) in enumerate(zip(names, k[1])):
                if nm == "_":
                    continue
                if nm in self.params:
                    raise Unsupported("rebinding of parameter " + nm)
                head += "%slet %s := %s%s\n" % (ind, nm, tmp, ".2" * i + (".1" if i < m - 1 else ""))
                self.bind(nm, kk)
            kk, ss = self.block(rest, ind)
            return kk, head + ss
        n, k, s = self.assign(st)
        self.bind(n, k)
        kk, ss = self.block(rest, ind)
        return kk, "%slet %s := %s\n%s" % (ind, n, s, ss)


def _lean_type(k):
    if isinstance(k, tuple) and k[0] == "tuple":
        return " × ".join(("(%s)" % _lean_type(x)) if isinstance(x, tuple) else _lean_type(x) for x in k[1])
    if isinstance(k, tuple) and k[0] == "option":
        return "Option (%s)" % _lean_type(k[1])
    return {"scalar": "α", "vec": "V3 α", "pose": "Pose α", "bool": "Bool", "nat": "Nat", "vec2": "V2 α", "hp": "HP α"}.get(k) or _bad(k)


def _bad(k):
    raise Unsupported("value of kind %s escapes" % (k,))


# One entry per generated file pair.  kernels: (python file, python name, parameter kinds, link or None)
# link = (theorem binders, lhs with {f} = generated name, rhs (model term), proof)
SPECS = {
    "04": dict(
        imports=["D3.Model.Containment"], opens="D3 D3.Containment", minmax=("min", "max"),
        kernels=[
            ("containment.py", "sphere_aabb", ["vec", "scalar"],
             ("(c : V3 α) (r : α)", "mkBox ({f} c r).1 ({f} c r).2", "D3.Containment.sphereAabb c r", "rfl")),
            ("containment.py", "capsule_aabb", ["pose", "scalar", "scalar"],
             ("(A : Pose α) (r h : α)", "mkBox ({f} A r h).1 ({f} A r h).2", "D3.Containment.capsuleAabb A r h",
              "rfl")),
            # the model makes numpy's NaN outcome of np.sqrt explicit (`Err.sqrtNeg`); the translation does not, so
            # these two links are equalities under the explicit "no radicand is negative" hypotheses
            ("containment.py", "disk_aabb", ["vec", "scalar", "vec"],
             ("(c : V3 α) (r : α) (n : V3 α)\n    (hx : ¬ (1 - n.x * n.x < 0)) (hy : ¬ (1 - n.y * n.y < 0)) "
              "(hz : ¬ (1 - n.z * n.z < 0))",
              "D3.Containment.diskAabb c r n", ".ok (mkBox ({f} c r n).1 ({f} c r n).2)",
              "by\n  unfold D3.Containment.diskAabb D3.Containment.diskExtent1 D3.Containment.sqrtChecked\n"
              "  rw [if_neg hx, if_neg hy, if_neg hz]; rfl")),
            ("containment.py", "cylinder_aabb", ["pose", "scalar", "scalar"],
             ("(A : Pose α) (r l : α)\n    (hx : ¬ (1 - A.R.col2.x * A.R.col2.x < 0)) "
              "(hy : ¬ (1 - A.R.col2.y * A.R.col2.y < 0))\n    (hz : ¬ (1 - A.R.col2.z * A.R.col2.z < 0))",
              "D3.Containment.cylinderAabb A r l", ".ok (mkBox ({f} A r l).1 ({f} A r l).2)",
              "by\n  unfold D3.Containment.cylinderAabb D3.Containment.cylinderExtent1 D3.Containment.sqrtChecked\n"
              "  dsimp only\n  rw [if_neg hx, if_neg hy, if_neg hz]; rfl")),
            ("containment.py", "cone_aabb", ["pose", "scalar", "scalar"],
             ("(A : Pose α) (r h : α)", "mkBox ({f} A r h).1 ({f} A r h).2", "D3.Containment.coneAabb A r h",
              "rfl")),
        ]),
    "10": dict(
        imports=["D3.Model.DistLine"], opens="D3 D3.DistLine", minmax=("pmin", "pmax"),
        kernels=[
            ("distance/_line.py", "_point_to_line", ["vec", "vec", "vec"],
             ("(p lp ld : V3 α)", "(⟨({f} p lp ld).1, ({f} p lp ld).2.1, ({f} p lp ld).2.2⟩ : PL α)",
              "D3.DistLine.pointToLineK p lp ld", "rfl")),
            # model: `divZero` for a degenerate segment; link under the explicit non-zero-denominator hypothesis
            ("distance/_line.py", "point_to_line_segment", ["vec", "vec", "vec"],
             ("(p a b : V3 α) (h : V3.dot (b - a) (b - a) < 0 ∨ 0 < V3.dot (b - a) (b - a))",
              "(D3.DistLine.pointToSegment p a b).map (fun r => (r.d, r.p))", ".ok ({f} p a b)",
              "by\n  unfold D3.DistLine.pointToSegment D3.DistLine.divC\n  dsimp only\n  rw [if_pos h]; rfl")),
            ("distance/_plane.py", "_point_to_plane", ["vec", "vec", "vec", "bool"],
             ("(p pp n : V3 α) (signed : Bool)", "{f} p pp n signed", "D3.DistLine.pointToPlaneK p pp n signed",
              "by cases signed <;> rfl")),
            ("geometry.py", "hesse_normal_form", ["vec", "vec"],
             ("(pp n : V3 α)", "({f} pp n).2", "D3.DistLine.hesseD pp n", "rfl")),
            ("geometry.py", "convert_segment_to_line", ["vec", "vec"],
             ("(s0 s1 : V3 α)", "{f} s0 s1", "D3.DistLine.segmentToLine s0 s1",
              "by unfold {f} D3.DistLine.segmentToLine; dsimp only [GT.gt]; split <;> rfl")),
            ("geometry.py", "line_from_pluecker", ["vec", "vec"],
             ("(ld lm : V3 α)", "({f} ld lm).1", "D3.DistLine.lineFromPlueckerPoint ld lm",
              "by unfold {f} D3.DistLine.lineFromPlueckerPoint; dsimp only [GT.gt]; split <;> rfl")),
        ]),
    "03": dict(
        imports=["D3.Model.Support"], opens="D3 D3.Support", minmax=("min", "max"),
        kernels=[
            ("utils.py", "norm_vector", ["vec"],
             ("(v : V3 α)", "{f} v", "D3.Support.normVector v", "rfl")),
            ("utils.py", "transform_point", ["pose", "vec"],
             ("(A : Pose α) (p : V3 α)", "{f} A p", "D3.Support.transformPoint A p", "rfl")),
            ("geometry.py", "support_function_ellipsoid", ["vec", "pose", "vec"],
             ("(d : V3 α) (A : Pose α) (radii : V3 α)", "{f} d A radii", "(D3.Support.supportEllipsoid d A radii).2",
              "rfl")),
            ("geometry.py", "support_function_box", ["vec", "pose", "vec"],
             ("(d : V3 α) (A : Pose α) (half : V3 α)", "{f} d A half", "(D3.Support.supportBoxFn d A half).2",
              "rfl")),
            ("geometry.py", "support_function_cylinder", ["vec", "pose", "scalar", "scalar"],
             ("(d : V3 α) (A : Pose α) (r l : α)", "{f} d A r l", "(D3.Support.supportCylinder d A r l).2",
              "by unfold {f} D3.Support.supportCylinder D3.Support.cylinderLocal D3.Support.cylinderLocalS; "
              "dsimp only [isZero]; split <;> split <;> rfl")),
            ("geometry.py", "support_function_sphere", ["vec", "vec", "scalar"],
             ("(d c : V3 α) (r : α)", "{f} d c r", "(D3.Support.supportSphere d c r).2",
              "by unfold {f} D3.Support.supportSphere D3.Support.supportSphereN; dsimp only [isZero]; split <;> rfl")),
        ]),
    # second batch for C03 (separate files so that Kernels03/Link03 stay as they are); reuses the kernels of "03"
    "03b": dict(
        imports=["D3.Gen.Kernels03"], opens="D3 D3.Support", minmax=("min", "max"), uses="03",
        kernels=[
            ("geometry.py", "support_function_capsule", ["vec", "pose", "scalar", "scalar"],
             ("(d : V3 α) (A : Pose α) (r h : α)", "{f} d A r h", "(D3.Support.supportCapsule d A r h).2",
              "by unfold {f} D3.Support.supportCapsule D3.Support.capsuleLocal D3.Support.capsuleLocalS; "
              "dsimp only [isZero, GT.gt]; split <;> split <;> rfl")),
            ("geometry.py", "support_function_cone", ["vec", "pose", "scalar", "scalar"],
             ("(d : V3 α) (A : Pose α) (r h : α)", "{f} d A r h", "(D3.Support.supportCone d A r h).2",
              "by unfold {f} D3.Support.supportCone D3.Support.coneLocal D3.Support.coneLocalN; "
              "dsimp only [isZero, GE.ge]; split <;> split <;> rfl")),
            # model: `divZero` when the in-plane length is 0; link under the explicit non-zero hypotheses
            ("utils.py", "plane_basis_from_normal", ["vec"],
             ("(n : V3 α) (ha : ¬ isZero (sqrt (n.x * n.x + n.z * n.z))) (hb : ¬ isZero (sqrt (n.y * n.y + n.z * n.z)))",
              "(D3.Support.planeBasisFromNormal n).map (fun r => (r.2.1, r.2.2))", ".ok ({f} n)",
              "by\n  unfold {f} D3.Support.planeBasisFromNormal D3.Support.planeBasisA D3.Support.planeBasisB\n"
              "  dsimp only [GE.ge]\n  by_cases hc : absS n.y ≤ absS n.x\n  · simp only [if_pos hc, if_neg ha]; rfl\n"
              "  · simp only [if_neg hc, if_neg hb]; rfl")),
            # the model's `supportDisk` threads the plane-basis error; the body after the basis is `diskWithBasis`
            ("geometry.py", "support_function_disk", ["vec", "vec", "scalar", "vec"],
             ("(d c : V3 α) (r : α) (n : V3 α)", "{f} d c r n",
              "(D3.Support.diskWithBasis d c r (plane_basis_from_normal n).1 (plane_basis_from_normal n).2 n).2",
              "by unfold {f} D3.Support.diskWithBasis D3.Support.diskN D3.Support.columnStack; "
              "dsimp only [isZero]; split <;> rfl")),
        ]),
    # second batch for C10 (Kernels10/Link10 stay as they are)
    "10b": dict(
        imports=["D3.Gen.Kernels10"], opens="D3 D3.DistLine", minmax=("pmin", "pmax"), uses="10",
        kernels=[
            ("distance/_line.py", "point_to_line", ["vec", "vec", "vec"],
             ("(p lp ld : V3 α)", "{f} p lp ld", "D3.DistLine.pointToLine p lp ld", "rfl")),
            # model: `divZero` when `det == 0` in the non-parallel branch; link under the explicit hypothesis
            ("distance/_line.py", "_line_to_line", ["vec", "vec", "vec", "vec", "scalar"],
             ("(lp1 ld1 lp2 ld2 : V3 α) (epsilon : α)\n    (h : 1 - -(V3.dot ld1 ld2) * -(V3.dot ld1 ld2) < 0 ∨ "
              "0 < 1 - -(V3.dot ld1 ld2) * -(V3.dot ld1 ld2))",
              "(D3.DistLine.lineToLineK lp1 ld1 lp2 ld2 epsilon).map (fun r => (r.d, r.p1, r.p2, r.t1, r.t2))",
              ".ok ({f} lp1 ld1 lp2 ld2 epsilon)",
              "by\n  unfold {f} D3.DistLine.lineToLineK D3.DistLine.divC\n  dsimp only [GE.ge]\n"
              "  by_cases hc : epsilon ≤ absS (1 - -(V3.dot ld1 ld2) * -(V3.dot ld1 ld2))\n"
              "  · simp only [if_pos hc, if_pos h]; rfl\n  · simp only [if_neg hc]; rfl")),
            # model: `divZero` when the line is not parallel by the epsilon test and yet `n·ld == 0`
            ("distance/_plane.py", "_line_to_plane", ["vec", "vec", "vec", "vec", "scalar"],
             ("(lp ld pp n : V3 α) (epsilon : α) (h : V3.dot n ld < 0 ∨ 0 < V3.dot n ld)",
              "D3.DistLine.lineToPlaneK lp ld pp n epsilon", ".ok ({f} lp ld pp n epsilon)",
              "by\n  unfold {f} D3.DistLine.lineToPlaneK D3.DistLine.divC\n  dsimp only\n"
              "  by_cases hc : V3.dot ld n * V3.dot ld n < epsilon\n"
              "  · simp only [if_pos hc]; rfl\n  · simp only [if_neg hc, if_pos h]; rfl")),
            ("distance/_plane.py", "point_to_plane", ["vec", "vec", "vec", "bool"],
             ("(p pp n : V3 α) (signed : Bool)", "{f} p pp n signed", "D3.DistLine.pointToPlaneK p pp n signed",
              "by cases signed <;> rfl")),
        ]),
    "11": dict(
        imports=["D3.Model.DistPoly"], opens="D3 D3.DistPoly", minmax=("min", "max"),
        kernels=[
            ("utils.py", "inverse_transform_point", ["pose", "vec"],
             ("(A : Pose α) (p : V3 α)", "{f} A p", "D3.DistPoly.inverseTransformPoint A p", "rfl")),
            ("distance/_box.py", "point_to_box", ["vec", "pose", "vec"],
             ("(p : V3 α) (A : Pose α) (size : V3 α)",
              "(D3.DistPoly.pointToBox p A size).map (fun r => (r.dist, r.cp))", ".ok ({f} p A size)", "rfl")),
            # python tests `length != 0.0`, the model `isZero len` with the branches the other way round
            ("distance/_disk.py", "point_to_disk", ["vec", "vec", "scalar", "vec"],
             ("(p c : V3 α) (r : α) (n : V3 α)",
              "(D3.DistPoly.pointToDisk p c r n).map (fun r => (r.dist, r.cp))", ".ok ({f} p c r n)",
              "by\n  unfold {f} D3.DistPoly.pointToDisk D3.DistPoly.isZero\n  dsimp only\n"
              "  by_cases h1 : sqrt (V3.dot (p - c - V3.dot (p - c) n * n) (p - c - V3.dot (p - c) n * n)) < 0 <;>\n"
              "  by_cases h2 : 0 < sqrt (V3.dot (p - c - V3.dot (p - c) n * n) (p - c - V3.dot (p - c) n * n)) <;>\n"
              "  simp only [h1, h2, not_true_eq_false, not_false_eq_true, and_self, and_false, false_and, or_self, "
              "or_true, true_or, if_true, if_false] <;> rfl")),
        ]),
    # hydroelastic half-plane helpers (C15); 2-vectors are the model's `Hydro.V2`, a row `[p0, p1, d0, d1]` its `HP`
    "15": dict(
        imports=["D3.Model.Hydro"], opens="D3 D3.Hydro", minmax=("min", "max"),
        consts={"EPSILON": "(D3.Hydro.eps : α)"},
        kernels=[
            ("hydroelastic_contact/_halfplanes.py", "cross2d", ["vec2", "vec2"],
             ("(a b : V2 α)", "{f} a b", "D3.Hydro.cross2d a b", "rfl")),
            ("hydroelastic_contact/_halfplanes.py", "intersect_two_halfplanes", ["hp", "hp"],
             ("(h1 h2 : HP α)", "{f} h1 h2", "D3.Hydro.intersectTwoHalfplanes h1 h2",
              "by unfold {f} D3.Hydro.intersectTwoHalfplanes; simp only [cross2d_link]; rfl")),
            ("hydroelastic_contact/_halfplanes.py", "point_outside_of_halfplane", ["hp", "vec2"],
             ("(h : HP α) (q : V2 α)", "{f} h q", "D3.Hydro.pointOutsideOfHalfplane h q", "rfl")),
        ]),
    # GJK (Jolt) simplex helpers (C18)
    "18": dict(
        imports=["D3.Model.Simplex"], opens="D3 D3.Simplex", minmax=("min", "max"),
        consts={"EPSILON_SQR": "(D3.Simplex.EPS2 : α)", "EPSILON": "(D3.Simplex.EPS : α)"}, int_as_nat=True,
        kernels=[
            # model: checked division (`divZero`) and a branch id; link under the explicit non-zero-denominator
            # hypothesis, on the `(u, v)` part
            ("gjk/_gjk_jolt.py", "get_barycentric_coordinates_line", ["vec", "vec"],
             ("(a b : V3 α) (h : V3.dot (b - a) (b - a) < 0 ∨ 0 < V3.dot (b - a) (b - a))",
              "(D3.Simplex.baryLine a b).map (fun r => (r.1, r.2.1))", ".ok ({f} a b)",
              "by\n  unfold {f} D3.Simplex.baryLine D3.Simplex.cdiv\n  dsimp only\n"
              "  by_cases h1 : V3.dot (b - a) (b - a) < (D3.Simplex.EPS2 : α)\n"
              "  · by_cases h2 : V3.dot a a < V3.dot b b\n"
              "    · simp only [if_pos h1, if_pos h2]; rfl\n    · simp only [if_pos h1, if_neg h2]; rfl\n"
              "  · simp only [if_neg h1, if_pos h]; rfl")),
            ("gjk/_gjk_jolt.py", "closest_point_line", ["vec", "vec"],
             ("(a b : V3 α) (h : V3.dot (b - a) (b - a) < 0 ∨ 0 < V3.dot (b - a) (b - a))",
              "(D3.Simplex.closestPointLine a b).map (fun r => (r.pt, r.set))", ".ok ({f} a b)",
              "by\n  unfold {f} get_barycentric_coordinates_line D3.Simplex.closestPointLine D3.Simplex.baryLine "
              "D3.Simplex.cdiv\n  dsimp only\n"
              "  by_cases h1 : V3.dot (b - a) (b - a) < (D3.Simplex.EPS2 : α)\n"
              "  · by_cases h2 : V3.dot a a < V3.dot b b\n"
              "    · simp only [if_pos h1, if_pos h2, bind, Except.bind]; split <;> (try split) <;> rfl\n"
              "    · simp only [if_neg h2, if_pos h1, bind, Except.bind]; split <;> (try split) <;> rfl\n"
              "  · simp only [if_neg h1, if_pos h, bind, Except.bind]; split <;> (try split) <;> rfl")),
        ]),
    # MPR helpers (C08); the (4, 3) portal array is a 4-tuple of rows.  `_portal_direction` and
    # `_find_penetration_segment` are NOT linked: they go through `norm_vector`, whose `norm == 0.0` the translator reads
    # as `n ≤ 0 ∧ 0 ≤ n` while `MprPen.isZero n` is `¬ n < 0 ∧ ¬ 0 < n`; the two are not equal for a generic scalar
    "08": dict(
        imports=["D3.Model.MprPen"], opens="D3 D3.MprPen", minmax=("min", "max"),
        consts={"EPSILON": "(D3.MprPen.EPS : α)"},
        kernels=[
            ("mpr.py", "_encapsulates_origin", ["vec", "vec"],
             ("(v dir : V3 α)", "{f} v dir", "D3.MprPen.encapsulatesOrigin v dir", "rfl")),
            ("mpr.py", "_find_penetration_touch", [("tuple", ["vec"] * 4), ("tuple", ["vec"] * 4)],
             ("(p1 : SP α) (a0 a2 a3 b0 b2 b3 : V3 α)", "{f} (a0, p1.a, a2, a3) (b0, p1.b, b2, b3)",
              "D3.MprPen.findPenetrationTouch p1", "rfl")),
        ]),
}

_KNOWN = {}


def translate_spec(tag):
    spec = SPECS[tag]
    ns = "D3.Gen.K" + tag
    files = sorted({k[0] for k in spec["kernels"]})
    out = ["/- GENERATED by harness/py2lean.py from /repo/distance3d/{%s} — do not edit. -/\n" % ", ".join(files)]
    out += ["import %s\n" % i for i in spec["imports"]]
    out.append("\nset_option linter.unusedSectionVars false\nset_option linter.unusedVariables false\n\n"
               "namespace %s\nopen %s\n\nscalar_variables\n\n" % (ns, spec["opens"]))
    link = ["/- GENERATED by harness/py2lean.py — link theorems: today's source = the hand-written model. -/",
            "import D3.Gen.Kernels" + tag, "", "set_option linter.unusedSectionVars false", "",
            "namespace " + ns, "open " + spec["opens"], "", "scalar_variables", ""]
    problems, known, trees = [], {}, {}
    if spec.get("uses"):
        if spec["uses"] not in _KNOWN:
            translate_spec(spec["uses"])
        for py_, (ln_, pk_, rk_) in _KNOWN[spec["uses"]].items():
            known[py_] = ("D3.Gen.K%s.%s" % (spec["uses"], ln_), pk_, rk_)
    _KNOWN[tag] = known
    for pyfile, py, kinds, lk in spec["kernels"]:
        path = os.path.join(REPO, "distance3d", pyfile)
        if path not in trees:
            try:
                trees[path] = {n.name: n for n in ast.parse(open(path).read()).body if isinstance(n, ast.FunctionDef)}
            except (OSError, SyntaxError) as e:
                trees[path] = {}
                problems.append("%s: cannot parse (%s)" % (pyfile, e))
        fn = trees[path].get(py)
        name = lean_name(py)
        if fn is None:
            problems.append("%s: function not found" % py)
            out.append("-- %s: function not found\n\n" % py)
        else:
            body = [s for s in fn.body if not (isinstance(s, ast.Expr) and isinstance(s.value, ast.Constant))]
            params = [a.arg for a in fn.args.args]
            try:
                if len(params) != len(kinds) or fn.args.vararg or fn.args.kwarg or fn.args.kwonlyargs:
                    raise Unsupported("parameter list changed")
                tr = Tr2(params, kinds, known, spec["minmax"], spec.get("consts"))
                tr.int_as_nat = bool(spec.get("int_as_nat"))
                tr.module_fns = trees[path]
                rk, term = tr.block(body)
                sig = " ".join("(%s : %s)" % (p, _lean_type(k)) for p, k in zip(params, kinds))
                out.append("/-- `%s:%s` -/\ndef %s %s : %s :=\n%s\n\n" % (pyfile, py, name, sig, _lean_type(rk), term))
                known[py] = (name, kinds, rk)
            except Unsupported as e:
                problems.append("%s: outside the translator's subset: %s" % (py, e))
                out.append("-- %s: outside the translator's subset (%s)\n\n" % (py, e))
        if lk is not None:
            binders, lhs, rhs, proof = lk
            link.append("/-- regenerated `%s` coincides with the model the theorems are about -/" % py)
            link.append("theorem %s_link %s :\n    %s = %s := %s\n" % (
                name, binders, lhs.replace("{f}", name), rhs.replace("{f}", name), proof.replace("{f}", name)))
    out.append("end %s\n" % ns)
    link.append("end %s\n" % ns)
    return "".join(out), "\n".join(link), problems


def _write(path, text):
    old = open(path).read() if os.path.exists(path) else None
    if old != text:
        os.makedirs(os.path.dirname(path), exist_ok=True)
        with open(path, "w") as f:
            f.write(text)
        return True
    return False


def write_all(gen_dir):
    k, l, problems = translate_05()
    c1 = _write(os.path.join(gen_dir, "Kernels05.lean"), k)
    c2 = _write(os.path.join(gen_dir, "Link05.lean"), l)
    res = {"Kernels05": (c1 or c2, {"problems": problems})}
    for tag in sorted(SPECS):
        k, l, problems = translate_spec(tag)
        c1 = _write(os.path.join(gen_dir, "Kernels%s.lean" % tag), k)
        c2 = _write(os.path.join(gen_dir, "Link%s.lean" % tag), l)
        res["Kernels" + tag] = (c1 or c2, {"problems": problems})
    return res


if __name__ == "__main__":
    here = os.path.dirname(os.path.abspath(__file__))
    print(write_all(os.path.normpath(os.path.join(here, "..", "lean", "D3", "Gen"))))
