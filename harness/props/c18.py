"""C18 — simplex solvers (Jolt-style GJK `get_closest_point_to_origin`, original GJK backup procedure).

correspondence: the real code against the executable Lean models `D3.Simplex` / `D3.SimplexOrig`
  (driver functions `C18.*`): exhaustive / sampled lattice {-1,0,1}^3 at exact rationals, a general
  stream over 12 decades of aspect ratio at Float with Rat arbitration, an edge stream.
search: exact rational QP oracle (enumeration of all sub-simplices, integer Cramer) on the real code only.
"""
import itertools
import math
import time
from fractions import Fraction as Fr

import numpy as np

import core
from core import f2h, q2s, s2q, h2f

F_JOLT = "F-C18-jolt-abs-eps"
F_ORIG = "F-C18-orig-abs-eps"
F_JOLT_SLIVER = "F-C18-jolt-sliver"
F_JOLT_ILL = "F-C18-jolt-illcond"
F_ORIG_ILL = "F-C18-orig-illcond"
ILL_C = Fr(64, 2 ** 52)          # 64 * eps(double): admitted error is ILL_C / rho * Lmax
FN_JOLT = "gjk._gjk_jolt.get_closest_point_to_origin"
FN_ORIG = "gjk._gjk_original.distance_subalgorithm_with_backup_procedure(backup=True)"

RULE = ("k = 1..4 points, four generator streams from one PRNG: lattice L = ordered k-tuples over {-1,0,1}^3 "
        "(k = 1, 2 exhaustive: 27 + 729; k = 3: 4000 sampled in the quick tier, all 19683 in the thorough tier; k = 4: "
        "2000 / 100000 sampled) compared at exact rationals; general G = random simplices in a box L*(1, 10^-U(0,6), "
        "10^-U(0,12)), L in [1e-2, 1e2], random rotation, translated so that the origin has chosen barycentric "
        "coordinates (each negative with probability 1/3, or all positive = strictly inside) plus a normal offset "
        "h in {0, +-L*10^-U(0,6)}, 10 % near/exact duplicates; edge M = n = 1, duplicates, exactly collinear / "
        "coplanar inputs, origin on a vertex / edge / face / centroid, zero vectors, prev_v_len_sqr below the result, "
        "scaled copies (1 .. 1e-9) of a regular tetrahedron and a triangle, sub-EPSILON segments, witnesses of the "
        "five known findings; near-duplicate N (3000 quick / 30000 thorough, added for the repair ea3a5ff of "
        "closest_point_triangle) = the rounding-duplicate triangle a = (-4.4,0,-5.8), b = (2,0,-1), c = b + last-bit "
        "noise (4 variants) plus lattice configurations (25 % scaled, half of those rotated) whose third (k = 3) resp. "
        "third or fourth (k = 4) point is an earlier point plus 0..8 ulp of noise per coordinate with independent "
        "signs (0 = exact duplicate; zero coordinates get ulp(scale) or a denormal). "
        "Every case is run on both solvers. Oracle tolerance: | |v| - min | <= 1e-9 * max(min, Lmax), Lmax = max_i |p_i| "
        "('norm within 1e-9 relative' read relative to the larger of the true distance and the size of the simplex); "
        "returned point within 1e-9*Lmax of the hull of the returned subset; weights >= -1e-12, |sum - 1| <= 1e-9. "
        "A failing input carries a known-finding id only if an exact rational recomputation puts it into the class: "
        "abs-eps = a segment that is solved has 0 < |b-a|^2 < EPSILON_SQR / origin strictly inside the tetrahedron "
        "with a plane value within EPSILON of 0 (Jolt; thresholds pinned), origin strictly inside with a cofactor "
        "d[i,14] in (0, EPSILON] (original); sliver = a triangle that is solved (k = 3 or a tested face) has "
        "0 < |n|^2 <= 2^-52 * (longest squared edge)^2 and the violation is <= 2*sqrt(2^-52)*Lmax; "
        "illcond = violation <= 64*eps/rho*Lmax, rho = smallest non-zero relative Gram determinant det G/Lmax^(2m) "
        "of a sub-simplex. A case is non-trivial if the solver returns; distinct = distinct (solver, points, prev)")
EXPLANATION = ("the Lean theorems are about the models D3.Simplex (Jolt) and D3.SimplexOrig (original backup procedure); "
               "this run compares set bits / ordered indices exactly and points / weights / squared distances within "
               "1e-12 (lattice, Rat) resp. 1e-9*Lmax (general, Float, arbitrated at Rat) with the real code, and checks "
               "the real code against an exact rational minimum-norm oracle (all sub-simplices, integer Cramer); the "
               "repair ea3a5ff (relative instead of absolute degeneracy test in closest_point_triangle) is covered by "
               "the N stream and by running the pre-repair model C18.triold next to C18.tri on the inputs that separate "
               "the two tests (old: regular branch 0..6 / set 3 on the tiny triangle; new: edge fallback 7..9 / set 7)")
PARTIAL = {
    "backup_optimal": "not proved (Johnson's theorem: the best sub-simplex with positive cofactors is the minimiser of "
                      "the hull; needs Caratheodory + the cofactor/projection identity). Proved instead: "
                      "backup_feasible_1..4 — for every dot table with the right diagonal the procedure never divides "
                      "by zero, the weights are >= 0, sum to 1, reproduce search_direction from the reordered subset in "
                      "order, distance_squared = |search_direction|^2 and is <= the squared norm of every vertex. "
                      "Optimality of the real code is checked on every run by the exact rational QP oracle.",
    "asIs_counterexamples_at_R": "jolt_triangle_band_asIs_counterexample and orig_tetra_band_asIs_counterexample are "
                                 "evaluated on the same polymorphic model term at Rat (decide +kernel), not restated "
                                 "at the reals; the tetrahedron band is proved at the reals (tetra_band_asIs, "
                                 "jolt_tetra_band_asIs_counterexample_real)",
    "band_error_bounds": "triangle band of the repaired test (|n|^2 <= EPSILON*L^4): triangle_sliver_bound proves the "
                         "fallback is the minimiser over the three edges and within sqrt(EPSILON)*L of the minimum "
                         "norm; for the segment band (0 < |b-a|^2 < EPSILON_SQR) only line_degenerate (nearer endpoint "
                         "is returned) and for the tetrahedron plane band only tetra_band_asIs (result is not the "
                         "minimiser) are proved, no error bound",
    "relative_interior": "the theorems state that the hull of the sub-simplex named by the set bits contains the "
                         "returned point, not that the point lies in its relative interior",
}
ASSUMPTIONS = [
    "'norm within 1e-9 relative' is read as | |v| - dist | <= 1e-9 * max(dist, Lmax) with Lmax = max_i |p_i|: relative "
    "to the larger of the true distance and the size of the simplex (a tolerance relative to dist alone is "
    "unattainable in floats when the origin is inside or on the simplex)",
    "membership of the returned point in the hull of the returned subset is required within 1e-9*Lmax (Euclidean)",
    "the Jolt solver is called with prev_v_len_sqr = inf (success must be True); the original with backup=True, "
    "dot_product_table = points @ points.T and identity index vectors",
    "float accuracy: on ill-conditioned simplices (smallest non-zero relative Gram determinant rho of a sub-simplex "
    "below ~1e-5) both solvers miss the 1e-9 tolerance by rounding; such failures are reported as known findings "
    "F-C18-*-illcond only when the violation is at most 64*eps/rho*Lmax (below 1e-9*Lmax for rho >= 1.5e-5), "
    "every other failure is a violation",
    "since the repair ea3a5ff closest_point_triangle sends triangles with |n|^2 <= EPSILON*(longest squared edge)^2 to "
    "the edge fallback: a non-degenerate sliver with the origin's projection inside is then answered with an edge "
    "point that is off by up to its altitude (<= 1.5e-8 * longest edge); reported as known finding F-C18-jolt-sliver "
    "only if the violation is <= 2*sqrt(2^-52)*Lmax",
    "the ulp-noise stream N draws ties by construction (two sub-simplices describing the same point up to rounding); "
    "a tie is accepted only if both answers pass the exact oracle; the 2 % tie limit applies to the G stream only",
    "v_len_sq is compared with |v|^2 within 1e-12 relative plus 2^-1022 absolute (underflow of squares of denormal "
    "coordinates)",
    "coordinates are finite doubles without overflow / underflow of squared lengths (|p| within 1e-100 .. 1e100)",
]
TRUSTED = [
    "exact oracle of harness/props/c18.py: enumeration of the <= 15 sub-simplices, affine projection by integer "
    "Cramer's rule on the exactly scaled coordinates, comparison of square roots by exact rational squaring",
    "classification of a failing input into the classes of the known findings is an exact rational recomputation of "
    "|n|^2, |b-a|^2, the plane values, the cofactors d[i,14] and the relative Gram determinants from the inputs",
]
LEAN_TARGETS = []

MANIFEST = dict(
    text=("Lean models of the Jolt simplex solver (barycentric coordinates, closest point on line / triangle / "
          "tetrahedron, plane test, simplex update, get_closest_point_to_origin) and of the original GJK backup "
          "procedure (cofactor table, all candidates, reorder) with theorems at exact reals; the models are compared "
          "with the real code exhaustively / by sampling on the lattice {-1,0,1}^3 for k = 1..4 at exact rationals "
          "(set bits and ordered indices equal, values within 1e-12) and on random simplices over 12 decades of "
          "aspect ratio; an exact rational QP oracle checks optimality, membership and the barycentric weights on "
          "the real code. " 
          "Link theorems (regenerated from today's source by py2lean on every run, D3/Gen/Link18.lean) tie get_barycentric_coordinates_line and closest_point_line to the model on its non-zero-denominator case. "),
    note=("trusted: Lean kernel + Mathlib, axioms propext/Classical.choice/Quot.sound; exact-real semantics of the "
          "model (float rounding not modelled; absolute thresholds EPSILON, EPSILON_SQR taken from the regenerated "
          "constants); the two absolute-threshold defects (tiny simplices) are recorded as known findings and "
          "excluded by name from the theorems; correspondence harness (sampling). After the repair ea3a5ff the "
          "known-finding classes are: F-C18-jolt-abs-eps (segments, tetrahedron plane band), F-C18-jolt-sliver (edge "
          "fallback of near-degenerate triangles, bounded by the altitude), F-C18-jolt-illcond (numerically flat "
          "tetrahedra), F-C18-orig-abs-eps, F-C18-orig-illcond."),
    technique="Lean 4 proof on hand-written model + correspondence (Rat-exact on the lattice) + exact rational QP oracle + py2lean-regenerated kernels linked to the model by theorem",
    design="§7 C18")

TOL2 = Fr(1, 10 ** 18)          # (1e-9)^2
PIN_JOLT_EPS = Fr(1, 2 ** 52)            # utils.EPSILON = 2.220446049250313e-16
PIN_JOLT_EPS2 = Fr(1, 2 ** 104)          # _gjk_jolt.EPSILON_SQR = 4.930380657631324e-32
PIN_ORIG_EPS = Fr(10, 2 ** 52)           # _gjk_original.EPSILON = 2.220446049250313e-15
PIN_JOLT_EPS_REL = Fr(1, 2 ** 52)        # relative sliver threshold of closest_point_triangle since ea3a5ff (utils.EPSILON)
ORIG_CANDS = ["seg01", "seg02", "face012", "seg03", "face013", "face023", "hull", "v1", "v2", "v3",
              "seg12", "seg13", "seg23", "face123"]


# ============================================================================ small exact linear algebra
def vdot(a, b):
    return a[0] * b[0] + a[1] * b[1] + a[2] * b[2]


def vsub(a, b):
    return [a[0] - b[0], a[1] - b[1], a[2] - b[2]]


def vcross(a, b):
    return [a[1] * b[2] - a[2] * b[1], a[2] * b[0] - a[0] * b[2], a[0] * b[1] - a[1] * b[0]]


def det3(a, b, c):
    return vdot(a, vcross(b, c))


def to_q(P):
    return [[Fr(x) for x in p] for p in P]


def to_int(Pq):
    """Fractions -> integer coordinates times a common denominator D"""
    D = 1
    for p in Pq:
        for x in p:
            D = D * x.denominator // math.gcd(D, x.denominator)
    return [[int(x * D) for x in p] for p in Pq], D


def _detm(G):
    m = len(G)
    if m == 1:
        return G[0][0]
    if m == 2:
        return G[0][0] * G[1][1] - G[0][1] * G[1][0]
    return (G[0][0] * (G[1][1] * G[2][2] - G[1][2] * G[2][1])
            - G[0][1] * (G[1][0] * G[2][2] - G[1][2] * G[2][0])
            + G[0][2] * (G[1][0] * G[2][1] - G[1][1] * G[2][0]))


def proj_int(S):
    """affine projection of the origin onto aff(S), S = 1..4 integer points: (nums, det) with barycentric
    weights nums[i]/det, det > 0; None if S is affinely dependent."""
    m = len(S) - 1
    if m == 0:
        return [1], 1
    p0 = S[0]
    E = [vsub(p, p0) for p in S[1:]]
    G = [[vdot(E[i], E[j]) for j in range(m)] for i in range(m)]
    r = [-vdot(E[i], p0) for i in range(m)]
    det = _detm(G)
    if det == 0:
        return None
    mu = []
    for i in range(m):
        Gi = [[(r[a] if b == i else G[a][b]) for b in range(m)] for a in range(m)]
        mu.append(_detm(Gi))
    return [det - sum(mu)] + mu, det


def exact_min(Pq):
    """exact minimum-norm point of the convex hull of 1..4 rational points by enumeration of all non-empty subsets.
    Returns (min squared norm (Fraction), argmin subset (tuple of indices), weights (Fractions))."""
    Pi, D = to_int(Pq)
    k = len(Pi)
    best = None
    for mask in range(1, 1 << k):
        idx = [i for i in range(k) if mask >> i & 1]
        S = [Pi[i] for i in idx]
        r = proj_int(S)
        if r is None:
            continue
        nums, det = r
        if min(nums) < 0:
            continue
        x = [sum(nums[j] * S[j][c] for j in range(len(S))) for c in range(3)]
        num, den = vdot(x, x), det * det
        if best is None or num * best[1] < best[0] * den:
            best = (num, den, tuple(idx), [Fr(n, det) for n in nums])
    return Fr(best[0], best[1] * D * D), best[2], best[3]


def affine_proj_sq(Pq):
    """exact squared distance of the origin from the affine hull of the points (dependent points are dropped)"""
    Pi, D = to_int(Pq)
    ind = [Pi[0]]
    for p in Pi[1:]:
        if len(ind) < 4 and proj_int(ind + [p]) is not None:
            ind.append(p)
    nums, det = proj_int(ind)
    x = [sum(nums[j] * ind[j][c] for j in range(len(ind))) for c in range(3)]
    return Fr(vdot(x, x), det * det * D * D)


def sqrt_close(g, m, T2):
    """| sqrt(g) - sqrt(m) | <= sqrt(T2), decided exactly on rationals g, m, T2 >= 0"""
    hi, lo = (g, m) if g >= m else (m, g)
    lhs = hi - lo - T2
    return lhs <= 0 or lhs * lhs <= 4 * T2 * lo


def fsqrt(q):
    try:
        return math.sqrt(float(q))
    except (OverflowError, ValueError):
        return float("nan")


# ============================================================================ the real code
def _mods():
    from distance3d.gjk import _gjk_jolt as gj, _gjk_original as go
    return gj, go


def jolt_run(P, prev=None):
    gj, _ = _mods()
    n = len(P)
    Y = np.zeros((4, 3), dtype=float)
    Y[:n] = np.array(P, dtype=float)
    pv = np.inf if prev is None else float(prev)
    try:
        with np.errstate(all="ignore"):
            ok, v, vl, s = gj.get_closest_point_to_origin(Y, n, pv)
    except Exception as e:  # noqa
        return {"raised": "%s: %s" % (type(e).__name__, str(e)[:120])}
    if not ok:
        return {"success": False}
    return {"success": True, "v": [float(x) for x in v], "vlen": float(vl), "set": int(s)}


def orig_run(P):
    _, go = _mods()
    n = len(P)
    S = go.SimplexInfo()
    S.n_simplex_points = n
    S.points[:] = 0
    S.points[:n] = np.array(P, dtype=float)
    S.dot_product_table = S.points.dot(S.points.T)
    S.indices_polytope1[:] = np.arange(4)
    S.indices_polytope2[:] = np.arange(4)
    T = S.dot_product_table
    tab = [float(T[i, j]) for i in range(n) for j in range(i + 1)]
    try:
        with np.errstate(all="ignore"):
            sol, _b = go.distance_subalgorithm_with_backup_procedure(S, go.Solution(), True)
        sd = np.array(sol.search_direction, dtype=float, copy=True)
        k = int(S.n_simplex_points)
        return {"pt": [float(x) for x in sd], "dist2": float(sol.distance_squared), "k": k,
                "w": [float(x) for x in sol.barycentric_coordinates[:k]],
                "idx": [int(x) for x in S.indices_polytope1[:k]],
                "sub": [[float(x) for x in row] for row in S.points[:k]], "table": tab}
    except Exception as e:  # noqa
        return {"raised": "%s: %s" % (type(e).__name__, str(e)[:120]), "table": tab}


# ============================================================================ the model (driver)
def enc(x, mode):
    return q2s(Fr(x)) if mode == "Q" else f2h(x)


def big(mode):
    return q2s(Fr(10) ** 300) if mode == "Q" else f2h(1e300)


def enc_pts(P, mode, pad=4):
    t = []
    for i in range(pad):
        p = P[i] if i < len(P) else (0.0, 0.0, 0.0)
        t += [enc(x, mode) for x in p]
    return t


def add_gcp(drv, mode, P, prev=None):
    return drv.add("C18.gcp", mode, [str(len(P))] + enc_pts(P, mode)
                   + [big(mode) if (prev is None or math.isinf(prev)) else enc(prev, mode)])


def add_orig(drv, mode, P, table):
    return drv.add("C18.orig", mode, [str(len(P))] + enc_pts(P, mode, pad=len(P)) + [enc(x, mode) for x in table])


def dec(tok, mode):
    """driver scalar -> Fraction (None for a non-finite Float)"""
    if mode == "Q":
        return s2q(tok)
    x = h2f(tok)
    return Fr(x) if math.isfinite(x) else None


def parse_gcp(s, mode):
    t = (s or "bad missing").split()
    if t[0] == "err":
        return {"err": t[1]}
    if t[0] != "ok" or len(t) != 8:
        return {"bad": s}
    r = {"br": int(t[1]), "success": t[2] == "1", "set": int(t[3]), "v": [dec(x, mode) for x in t[4:7]],
         "vlen": dec(t[7], mode)}
    if any(x is None for x in r["v"]) or r["vlen"] is None:
        r["nonfinite"] = True
    return r


def parse_orig(s, mode):
    t = (s or "bad missing").split()
    if t[0] == "err":
        return {"err": t[1]}
    if t[0] != "ok" or len(t) < 4:
        return {"bad": s}
    k = int(t[2])
    if len(t) != 3 + 2 * k + 4:
        return {"bad": s}
    r = {"br": int(t[1]), "k": k, "idx": [int(x) for x in t[3:3 + k]],
         "w": [dec(x, mode) for x in t[3 + k:3 + 2 * k]],
         "pt": [dec(x, mode) for x in t[3 + 2 * k:6 + 2 * k]], "dist2": dec(t[6 + 2 * k], mode)}
    if any(x is None for x in r["w"] + r["pt"]) or r["dist2"] is None:
        r["nonfinite"] = True
    return r


def record_branches(ctx, solver, n, mo):
    if "br" not in mo:
        ctx.branch(solver + ".error", mo.get("err", "bad"))
        return
    if solver == "jolt":
        b = mo["br"] - 1000 * n
        ctx.branch("get_closest_point_to_origin.n", n)
        if n == 2:
            ctx.branch("closest_point_line", b)
        elif n == 3:
            ctx.branch("closest_point_triangle", b)
        elif n == 4:
            ctx.branch("closest_point_tetrahedron.flags", b % 16)
            ctx.branch("closest_point_tetrahedron.orientation", (b // 16) % 4)
            ctx.branch("closest_point_tetrahedron.winner", b // 64)
    else:
        nn, mask = mo["br"] // 16384, mo["br"] % 16384
        ctx.branch("backup_procedure.n", nn)
        ctx.branch("backup_procedure.mask(n=%d)" % nn, mask)
        names = {2: ["seg01", "v1"], 3: ["seg01", "seg02", "face012", "v1", "v2", "seg12"], 4: ORIG_CANDS}.get(nn, [])
        last = "v0"
        for bit, nm in enumerate(names):
            if mask >> bit & 1:
                ctx.branch("backup_procedure.accepted(n=%d)" % nn, nm)
                last = nm
        ctx.branch("backup_procedure.final(n=%d)" % nn, last)


# ============================================================================ model <-> code agreement
def _close(a, b, tol):
    return abs(float(a) - float(b)) <= tol


def agree_jolt(py, mo, tol_pt, tol_sq):
    """None if the Python result and the model result agree, else a reason"""
    if "raised" in py:
        return "python raised " + py["raised"]
    if "bad" in mo:
        return "driver: %s" % mo["bad"]
    if "err" in mo or mo.get("nonfinite"):
        return None if not py["success"] else "model %s, python returned a finite result" % mo.get("err", "non-finite")
    if py["success"] != mo["success"]:
        return "success flag: python %s model %s" % (py["success"], mo["success"])
    if not py["success"]:
        return None
    if py["set"] != mo["set"]:
        return "set bits: python %d model %d" % (py["set"], mo["set"])
    if not all(_close(a, b, tol_pt) for a, b in zip(py["v"], mo["v"])):
        return "point: python %r model %r" % (py["v"], [float(x) for x in mo["v"]])
    if not _close(py["vlen"], mo["vlen"], tol_sq):
        return "v_len_sq: python %r model %r" % (py["vlen"], float(mo["vlen"]))
    return None


def agree_orig(py, mo, tol_pt, tol_sq, tol_w):
    if "bad" in mo:
        return "driver: %s" % mo["bad"]
    if "raised" in py:
        return "python raised " + py["raised"]
    finite = all(math.isfinite(x) for x in py["pt"] + py["w"] + [py["dist2"]])
    if "err" in mo or mo.get("nonfinite"):
        return None if not finite else "model %s, python returned a finite result" % mo.get("err", "non-finite")
    if py["idx"] != mo["idx"]:
        return "ordered indices: python %s model %s" % (py["idx"], mo["idx"])
    if not finite:
        return "python result not finite, model finite"
    if not all(_close(a, b, tol_w) for a, b in zip(py["w"], mo["w"])):
        return "weights: python %r model %r" % (py["w"], [float(x) for x in mo["w"]])
    if not all(_close(a, b, tol_pt) for a, b in zip(py["pt"], mo["pt"])):
        return "point: python %r model %r" % (py["pt"], [float(x) for x in mo["pt"]])
    if not _close(py["dist2"], mo["dist2"], tol_sq):
        return "distance_squared: python %r model %r" % (py["dist2"], float(mo["dist2"]))
    return None


def bits(s, k=4):
    return [i for i in range(k) if s >> i & 1]


def lmax2_of(Pq):
    return max(vdot(p, p) for p in Pq)


# ============================================================================ property oracle (exact)
def check_opt_member(Pq, vq, idx, m2, L2):
    """optimality + membership of an exact point vq with claimed subset idx.
    Returns list of (what, detail, quantities) with quantities = (a, b) such that the violated inequality is
    |sqrt(a) - sqrt(b)| <= 1e-9*scale (optimality: a = |v|^2, b = min^2; membership: a = dist^2 to the hull, b = 0)."""
    out = []
    got = vdot(vq, vq)
    if not sqrt_close(got, m2, TOL2 * max(m2, L2)):
        out.append(("optimality", "|v| = %.17g, exact minimum = %.17g, Lmax = %.6g" % (fsqrt(got), fsqrt(m2), fsqrt(L2)),
                    (got, m2)))
    if not idx or any(i < 0 or i >= len(Pq) for i in idx):
        out.append(("subset", "returned subset %s is not a non-empty subset of the %d input points" % (idx, len(Pq)), None))
    else:
        dm2 = exact_min([vsub(Pq[i], vq) for i in idx])[0]
        if dm2 > TOL2 * L2:
            out.append(("membership", "returned point is %.6g away from the hull of the returned subset %s (Lmax %.6g)"
                        % (fsqrt(dm2), idx, fsqrt(L2)), (dm2, Fr(0))))
    return out


def rel_gram(Pq):
    """conditioning of the simplex: the smallest non-zero relative Gram determinant det G(S) / Lmax^(2m) over all
    sub-simplices S with m + 1 >= 2 points (G = Gram matrix of the m edge vectors from the first point of S).
    Returns (rho, subset) or None if every sub-simplex is exactly degenerate."""
    Pi, _D = to_int(Pq)
    L2 = max(vdot(p, p) for p in Pi)
    k = len(Pi)
    best = None
    for mask in range(1, 1 << k):
        idx = [i for i in range(k) if mask >> i & 1]
        m = len(idx) - 1
        if m == 0:
            continue
        S = [Pi[i] for i in idx]
        E = [vsub(p, S[0]) for p in S[1:]]
        det = _detm([[vdot(E[i], E[j]) for j in range(m)] for i in range(m)])
        if det == 0:
            continue
        r = Fr(det, L2 ** m)
        if best is None or r < best[0]:
            best = (r, idx)
    return best


def illcond(Pq, quantities, L2):
    """exact test for the class of the ill-conditioning findings: the violation is at most 64*eps/rho * Lmax where rho
    is the smallest non-zero relative Gram determinant of a sub-simplex (float cancellation in quantities of degree
    2m computed from products of magnitude Lmax^(2m)).  For rho >= 1.5e-5 the admitted error is below the 1e-9
    tolerance, so only genuinely ill-conditioned inputs can be in the class.  Returns a description or None."""
    if quantities is None:
        return None
    rg = rel_gram(Pq)
    if rg is None:
        return None
    rho, sub = rg
    B = ILL_C / rho
    a, b = quantities
    if sqrt_close(a, b, B * B * L2):
        return ("ill-conditioned: sub-simplex %s has relative Gram determinant %.3g, violation <= 64*eps/rho*Lmax = %.3g"
                % (sub, float(rho), float(B) * fsqrt(L2)))
    return None


def _tri_n2_lsq(Pq, i, j, l):
    """exact |n|^2 and longest squared edge of triangle (i, j, l)"""
    ab, ac, bc = vsub(Pq[j], Pq[i]), vsub(Pq[l], Pq[i]), vsub(Pq[l], Pq[j])
    n = vcross(ab, ac)
    return vdot(n, n), max(vdot(ab, ab), vdot(ac, ac), vdot(bc, bc))


def _solved_triangles(P):
    """the triangles closest_point_triangle is actually called on: the input for k = 3, the faces of the
    tetrahedron flagged by the real origin_outside_of_tetrahedron_planes for k = 4"""
    gj, _ = _mods()
    if len(P) == 3:
        return [(0, 1, 2)]
    if len(P) == 4:
        with np.errstate(all="ignore"):
            flags = gj.origin_outside_of_tetrahedron_planes(*[np.array(p, dtype=float) for p in P])
        faces = [(0, 1, 2), (0, 2, 3), (0, 3, 1), (1, 3, 2)]
        return [f for f, used in zip(faces, flags) if used]
    return []


def jolt_band(P):
    """exact test whether the input lies in one of the absolute-threshold bands of F-C18-jolt-abs-eps
    (since the repair ea3a5ff: sub-EPSILON segments and the tetrahedron plane band only).
    Returns a description or None."""
    gj, _ = _mods()
    # thresholds PINNED to the values recorded with the finding (not read from the module: an edit that
    # enlarges a threshold must not be excused by the known finding)
    EPS, EPS2 = min(Fr(float(gj.EPSILON)), PIN_JOLT_EPS), min(Fr(float(gj.EPSILON_SQR)), PIN_JOLT_EPS2)
    EREL = min(Fr(float(gj.EPSILON)), PIN_JOLT_EPS_REL)
    Pq = to_q(P)
    k = len(Pq)

    def seg(i, j):
        d = vsub(Pq[j], Pq[i])
        l2 = vdot(d, d)
        return "segment %d%d has 0 < |b-a|^2 = %.3g < EPSILON_SQR" % (i, j, float(l2)) if 0 < l2 < EPS2 else None

    def tri(i, j, l):
        # a triangle sent to the edge fallback (exactly collinear or below the relative sliver threshold) is solved by
        # closest_point_line on its three edges; these segments may be in the absolute band
        n2, lsq = _tri_n2_lsq(Pq, i, j, l)
        if n2 <= EREL * lsq * lsq:
            return seg(i, j) or seg(i, l) or seg(j, l)
        return None

    if k == 2:
        return seg(0, 1)
    if k == 3:
        return tri(0, 1, 2)
    if k == 4:
        a, b, c, d = Pq
        ab, ac, ad, bd, bc = vsub(b, a), vsub(c, a), vsub(d, a), vsub(d, b), vsub(c, b)
        D = det3(ad, ab, ac)
        signp = [vdot(a, vcross(ab, ac)), vdot(a, vcross(ac, ad)), vdot(a, vcross(ad, ab)), vdot(b, vcross(bd, bc))]
        if D > 0 and all(s < 0 for s in signp) and any(s >= -EPS for s in signp):
            return ("origin strictly inside, D = %.3g > 0 and a plane value in [-EPSILON, 0): signp = %s"
                    % (float(D), [float(s) for s in signp]))
        if D < 0 and all(s > 0 for s in signp) and any(s <= EPS for s in signp):
            return ("origin strictly inside, D = %.3g < 0 and a plane value in (0, EPSILON]: signp = %s"
                    % (float(D), [float(s) for s in signp]))
        for f in _solved_triangles(P):
            r = tri(*f)
            if r:
                return r
    return None


def jolt_sliver(P, Pq, quantities, L2):
    """exact test for the class of F-C18-jolt-sliver (introduced by the repair ea3a5ff): a triangle that is actually
    solved has 0 < |n|^2 <= EPS_REL * Lsq^2 (Lsq = its longest squared edge, EPS_REL pinned to 2^-52), so it is sent to
    the best-of-three-edges fallback although it is not exactly degenerate, AND the violation is at most
    2*sqrt(EPS_REL)*Lmax (the fallback is off by at most the altitude <= sqrt(EPS_REL) * longest edge).
    Returns a description or None."""
    if quantities is None:
        return None
    gj, _ = _mods()
    EREL = min(Fr(float(gj.EPSILON)), PIN_JOLT_EPS_REL)
    a, b = quantities
    if not sqrt_close(a, b, 4 * EREL * L2):
        return None
    for f in _solved_triangles(P):
        n2, lsq = _tri_n2_lsq(Pq, *f)
        if 0 < n2 <= EREL * lsq * lsq:
            if len(P) == 3:
                # the recorded behaviour is exactly "the best point of the three edges": anything else (e.g. an edge
                # left out of the comparison) is not this finding
                def seg_min2(u, w):
                    e = vsub(w, u)
                    ee = vdot(e, e)
                    t = Fr(0) if ee == 0 else max(Fr(0), min(Fr(1), -vdot(u, e) / ee))
                    x = [u[c] + t * e[c] for c in range(3)]
                    return vdot(x, x)
                best = min(seg_min2(Pq[i], Pq[j]) for i, j in ((0, 1), (0, 2), (1, 2)))
                if not sqrt_close(a, best, Fr(1, 10 ** 18) * L2):
                    return None
            return ("sliver: triangle %d%d%d has 0 < |n|^2 = %.3g <= EPS_REL * Lsq^2 = %.3g (edge fallback), violation <= "
                    "2*sqrt(EPS_REL)*Lmax = %.3g" % (f + (float(n2), float(EREL * lsq * lsq), 2 * fsqrt(EREL * L2))))
    return None


def orig_cofactors(Pq):
    """the four cofactors d[i, 14] of BarycentricCoordinates.backup_tetrahedron, exactly"""
    t = [[vdot(Pq[i], Pq[j]) for j in range(4)] for i in range(4)]
    t00, t10, t11, t20, t21, t22, t30, t31, t32, t33 = (t[0][0], t[1][0], t[1][1], t[2][0], t[2][1], t[2][2],
                                                        t[3][0], t[3][1], t[3][2], t[3][3])
    d12, d02, d24 = t00 - t10, t11 - t10, t00 - t20
    e132 = t10 - t21
    d26 = d02 * d24 + d12 * e132
    e123 = t20 - t21
    d04 = t22 - t20
    d16 = d04 * d12 + d24 * e123
    e213 = -e123
    d15, d25 = t22 - t21, t11 - t21
    d06 = d15 * d02 + d25 * e213
    d38 = t00 - t30
    e142 = t10 - t31
    d311 = d02 * d38 + d12 * e142
    e143 = t20 - t32
    d312 = d04 * d38 + d24 * e143
    d314 = d06 * d38 + d16 * e142 + d26 * e143
    e124, e134 = t30 - t31, t30 - t32
    d08 = t33 - t30
    d111 = d08 * d12 + d38 * e124
    d212 = d08 * d24 + d38 * e134
    d19, d39 = t33 - t31, t11 - t31
    e214 = -e124
    d011 = d19 * d02 + d39 * e214
    d214 = d011 * d24 + d111 * e132 + d311 * e134
    d210, d310 = t33 - t32, t22 - t32
    e314 = -e134
    d012 = d210 * d04 + d310 * e314
    d114 = d012 * d12 + d212 * e123 + d312 * e124
    e243 = t21 - t32
    d313 = d15 * d39 + d25 * e243
    e234 = t31 - t32
    d213 = d19 * d25 + d39 * e234
    e324 = -e234
    d113 = d210 * d15 + d310 * e324
    d014 = d113 * d02 + d213 * e213 + d313 * e214
    return [d014, d114, d214, d314]


def orig_band(P):
    """exact test for the band of F-C18-orig-abs-eps: origin strictly inside the tetrahedron (all four cofactors
    d[i,14] > 0) but one of them <= EPSILON, so convex_hull_of_tetrahedron_optimal rejects the interior."""
    _, go = _mods()
    if len(P) != 4:
        return None
    EPS = min(Fr(float(go.EPSILON)), PIN_ORIG_EPS)   # pinned, see jolt_band
    c = orig_cofactors(to_q(P))
    if all(x > 0 for x in c) and any(x <= EPS for x in c):
        return "origin strictly inside and a cofactor d[i,14] in (0, EPSILON]: d[:,14] = %s" % [float(x) for x in c]
    return None


def classify(solver, P, Pq, what, qty, L2):
    """finding id (or None) + description for a violated optimality / membership check"""
    band = None
    if what == "optimality":
        band = jolt_band(P) if solver == "jolt" else orig_band(P)
    if band:
        return (F_JOLT if solver == "jolt" else F_ORIG), band
    if solver == "jolt":
        sl = jolt_sliver(P, Pq, qty, L2)
        if sl:
            return F_JOLT_SLIVER, sl
        if len(P) == 3:
            # a triangle inside the degeneracy band is answered by the edge fallback, whose result (the best point of
            # three segments) is well conditioned: ill-conditioning of the FACE solve is no explanation there
            gj, _ = _mods()
            n2, lsq = _tri_n2_lsq(Pq, 0, 1, 2)
            if n2 <= min(Fr(float(gj.EPSILON)), PIN_JOLT_EPS_REL) * lsq * lsq:
                return None, None
    ill = illcond(Pq, qty, L2)
    if ill:
        return (F_JOLT_ILL if solver == "jolt" else F_ORIG_ILL), ill
    return None, None


def oracle_jolt(P, res=None, ex=None):
    """property oracle for the Jolt solver on the float points P. Returns (failures, res); a failure is a dict
    what / observed / expected / finding."""
    res = res if res is not None else jolt_run(P)
    Pq = to_q(P)
    k = len(P)
    m2, arg, wts = ex if ex is not None else exact_min(Pq)
    L2 = lmax2_of(Pq)
    expected = {"min_norm": fsqrt(m2), "argmin_subset": list(arg), "Lmax": fsqrt(L2)}
    fails = []

    def add(what, detail, finding=None):
        fails.append({"what": what, "observed": {"result": res, "detail": detail}, "expected": expected,
                      "finding": finding})

    if "raised" in res:
        add("raised", res["raised"])
        return fails, res
    if not res["success"]:
        add("success", "success is False with prev_v_len_sqr = inf (result not finite)")
        return fails, res
    if not all(math.isfinite(x) for x in res["v"] + [res["vlen"]]):
        add("finite", "non-finite result")
        return fails, res
    vq = [Fr(x) for x in res["v"]]
    s = res["set"]
    idx = bits(s, 4) if 0 < s < (1 << k) else []
    for what, detail, qty in check_opt_member(Pq, vq, idx, m2, L2):
        fid, desc = classify("jolt", P, Pq, what, qty, L2)
        add(what, detail + ("; " + desc if desc else ""), fid)
    got = vdot(vq, vq)
    if abs(Fr(res["vlen"]) - got) > Fr(1, 10 ** 12) * got + Fr(1, 2 ** 1022):     # 2^-1022: underflow of the squares
        add("v_len_sq", "v_len_sq = %r but |v|^2 = %r" % (res["vlen"], float(got)))
    return fails, res


def oracle_orig(P, res=None, ex=None):
    res = res if res is not None else orig_run(P)
    Pq = to_q(P)
    n = len(P)
    m2, arg, wts = ex if ex is not None else exact_min(Pq)
    L2 = lmax2_of(Pq)
    expected = {"min_norm": fsqrt(m2), "argmin_subset": list(arg), "Lmax": fsqrt(L2)}
    fails = []

    def add(what, detail, finding=None):
        fails.append({"what": what, "observed": {"result": {x: res[x] for x in res if x != "table"}, "detail": detail},
                      "expected": expected, "finding": finding})

    if "raised" in res:
        add("raised", res["raised"])
        return fails, res
    if not all(math.isfinite(x) for x in res["pt"] + res["w"] + [res["dist2"]]):
        add("finite", "non-finite result")
        return fails, res
    k, idx = res["k"], res["idx"]
    if not (1 <= k <= n) or any(i < 0 or i >= n for i in idx):
        add("subset", "n_simplex_points = %d, indices %s out of range for %d points" % (k, idx, n))
        return fails, res
    if any(res["sub"][j] != [float(x) for x in P[idx[j]]] for j in range(k)):
        add("subset", "simplex.points[:k] = %s are not the input rows %s" % (res["sub"], idx))
    vq = [Fr(x) for x in res["pt"]]
    for what, detail, qty in check_opt_member(Pq, vq, idx, m2, L2):
        fid, desc = classify("original", P, Pq, what, qty, L2)
        add(what, detail + ("; " + desc if desc else ""), fid)
    wq = [Fr(x) for x in res["w"]]
    if min(wq) < -Fr(1, 10 ** 12):
        add("weights-sign", "barycentric weight %r < -1e-12" % min(res["w"]))
    if abs(sum(wq) - 1) > Fr(1, 10 ** 9):
        add("weights-sum", "weights sum to %r" % float(sum(wq)))
    sub = to_q(res["sub"])
    rec = [sum(wq[j] * sub[j][c] for j in range(k)) for c in range(3)]
    dr = vsub(rec, vq)
    if vdot(dr, dr) > TOL2 * L2:
        add("weights-reproduce", "sum_i w_i p_i differs from search_direction by %.6g (Lmax %.6g)"
            % (fsqrt(vdot(dr, dr)), fsqrt(L2)))
    got = vdot(vq, vq)
    if abs(Fr(res["dist2"]) - got) > Fr(1, 10 ** 9) * max(L2, got):
        add("distance_squared", "distance_squared = %r but |search_direction|^2 = %r" % (res["dist2"], float(got)))
    return fails, res


def run_oracles(ctx, P, stream, do_count=True):
    """both solvers on one point set; reports failures through ctx.fail. Returns number of failures."""
    P = [[float(x) for x in p] for p in P]
    ex = exact_min(to_q(P))
    nf = 0
    for solver, fn, orc in (("jolt", FN_JOLT, oracle_jolt), ("original", FN_ORIG, oracle_orig)):
        fails, res = orc(P, ex=ex)
        if do_count:
            ctx.count("search:" + stream + ":" + solver, key=(solver, tuple(map(tuple, P))),
                      nontrivial="raised" not in res,
                      sample={"stream": stream, "solver": solver, "points": P, "result": {x: res[x] for x in res if x != "table"}})
        for f in fails:
            nf += 1
            if f["finding"]:
                ctx.extra["known_finding_hits"][f["finding"]] = ctx.extra["known_finding_hits"].get(f["finding"], 0) + 1
            ctx.fail(fn + ":" + f["what"], {"solver": solver, "points": P, "n": len(P), "stream": stream},
                     f["observed"], f["expected"],
                     "exact rational minimum over all sub-simplices; tolerance 1e-9*max(dist, Lmax)", finding=f["finding"])
    return nf


# ============================================================================ generators
LAT = [list(p) for p in itertools.product((-1.0, 0.0, 1.0), repeat=3)]


def lattice_cfg(code, k):
    out = []
    for _ in range(k):
        out.append(LAT[code % 27])
        code //= 27
    return out


def lattice_cases(ctx, n3, n4):
    cases = [lattice_cfg(c, 1) for c in range(27)] + [lattice_cfg(c, 2) for c in range(729)]
    if n3 >= 19683:
        cases += [lattice_cfg(c, 3) for c in range(19683)]
    else:
        cases += [lattice_cfg(c, 3) for c in ctx.rng.sample(range(19683), n3)]
    if n4 >= 531441:
        cases += [lattice_cfg(c, 4) for c in range(531441)]
    else:
        cases += [lattice_cfg(ctx.rng.randrange(531441), 4) for _ in range(n4)]
    return cases


def rand_rotation(nprs):
    q, r = np.linalg.qr(nprs.standard_normal((3, 3)))
    q = q * np.sign(np.diag(r))
    if np.linalg.det(q) < 0:
        q[:, 0] = -q[:, 0]
    return q


def sliver_case(rng, nprs):
    """a sliver triangle (long edge b-c, apex a near that line) in a random vertex order, rotated, with the origin placed
    relative to it: beyond the long edge, beyond the apex, next to a vertex, above the plane"""
    L = 10 ** rng.uniform(-2, 2)
    t = rng.uniform(0.05, 0.95)
    alt = L * 1.5e-8 * rng.choice([0.0, 0.1, 0.5, 0.9, 1.1, 3.0, 10.0])
    tri = np.array([[t * L, alt, 0.0], [0.0, 0.0, 0.0], [L, 0.0, 0.0]])          # apex, b, c
    where = rng.choice(["beyond-long-edge", "beyond-apex", "off-end", "above", "generic"])
    x = rng.uniform(-0.3, 1.3) * L
    d = L * 10 ** rng.uniform(-6, 0)
    if where == "beyond-long-edge":
        o = np.array([x, -d, 0.0])
    elif where == "beyond-apex":
        o = np.array([x, alt + d, 0.0])
    elif where == "off-end":
        o = np.array([rng.choice([-d, L + d]), rng.uniform(-1, 1) * d, 0.0])
    elif where == "above":
        o = np.array([x, rng.uniform(-1, 1) * alt, d])
    else:
        o = np.array([rng.uniform(-1, 2) * L, rng.uniform(-1, 1) * L, rng.uniform(-1, 1) * L])
    tri = tri - o
    order = list(range(3))
    rng.shuffle(order)
    R = rand_rotation(nprs)
    return [[float(v) for v in R.dot(tri[i])] for i in order]


def general_case(rng, nprs, k=None, inside=None):
    """random simplex over 12 decades of aspect ratio with the origin placed in a chosen region"""
    k = k or rng.choice([1, 2, 2, 3, 3, 3, 4, 4, 4, 4])
    L = 10 ** rng.uniform(-2, 2)
    s = np.array([L, L * 10 ** -rng.uniform(0, 6), L * 10 ** -rng.uniform(0, 12)])
    R = rand_rotation(nprs)
    pts = np.array([[rng.uniform(-1, 1) for _ in range(3)] for _ in range(k)]) * s
    pts = pts.dot(R.T)
    dup = k >= 2 and rng.random() < 0.10
    if dup:
        i, j = rng.sample(range(k), 2)
        eps = rng.choice([0.0, 0.0, 10 ** -rng.uniform(8, 16)])
        pts[j] = pts[i] + eps * L * np.array([rng.gauss(0, 1) for _ in range(3)])
    if inside is None:
        inside = rng.random() < 0.25
    while True:
        lam = np.array([rng.expovariate(1.0) + 1e-3 for _ in range(k)])
        if not inside:
            lam = lam * np.array([(-1.0 if rng.random() < 1 / 3 else 1.0) for _ in range(k)])
        if abs(lam.sum()) > 0.05 * np.abs(lam).sum():
            break
    lam = lam / lam.sum()
    h = 0.0
    if not inside and k < 4 and rng.random() < 2 / 3:
        h = rng.choice([-1.0, 1.0]) * L * 10 ** -rng.uniform(0, 6)
    nrm = np.zeros(3)
    if h != 0.0:
        with np.errstate(all="ignore"):
            g = np.array([rng.gauss(0, 1) for _ in range(3)])
            if k == 2:
                e = pts[1] - pts[0]
                ee = e.dot(e)
                g = g - e * (g.dot(e) / ee) if ee > 0 else g
            elif k == 3:
                c = np.cross(pts[1] - pts[0], pts[2] - pts[0])
                g = c if c.dot(c) > 0 else g
            ng = np.linalg.norm(g)
            nrm = g / ng if ng > 0 and np.isfinite(ng) else np.array([0.0, 0.0, 1.0])
    target = lam.dot(pts) + h * nrm
    pts = pts - target
    return [[float(x) for x in p] for p in pts], {"k": k, "L": L, "inside": bool(inside), "h": h, "dup": bool(dup)}


TET = [(1, 1, 1), (1, -1, -1), (-1, 1, -1), (-1, -1, 1)]
TRI = [(1, 0, 1), (-1, 1, 1), (-1, -1, 1)]


def scaled(P, s):
    return [[s * float(x) for x in p] for p in P]


NDUP_A, NDUP_B = (-4.4, 0.0, -5.8), (2.0, 0.0, -1.0)
NDUP_VARIANTS = [("b+(4e-16,0,3e-16)", (4e-16, 0.0, 3e-16)), ("b+(2^-51,0,0)", (2.0 ** -51, 0.0, 0.0)),
                 ("b+(0,0,2^-52)", (0.0, 0.0, 2.0 ** -52)), ("b+(0,2^-51,0)", (0.0, 2.0 ** -51, 0.0))]


def near_dup_witnesses():
    """the rounding-duplicate triangle of the repair ea3a5ff (c = b up to the last bits) and three variants whose
    |n|^2 ~ 1e-30 is above the old absolute EPSILON_SQR: regular for the old test, degenerate for the new one"""
    return [("ndup " + nm, [list(NDUP_A), list(NDUP_B), [NDUP_B[i] + d[i] for i in range(3)]])
            for nm, d in NDUP_VARIANTS]


def near_dup_case(rng, nprs):
    """lattice-adjacent near-duplicate: a lattice configuration (sometimes scaled / rotated) whose third (k = 3) resp.
    third or fourth (k = 4) point is replaced by an earlier point plus 0..8 ulp of noise per coordinate"""
    k = rng.choice([3, 3, 4, 4, 4])
    pts = np.array(lattice_cfg(rng.randrange(27 ** k), k), dtype=float)
    scale, rot = 1.0, False
    if rng.random() < 0.25:
        scale = rng.choice([0.1, 3.7, 1e-3, 123.456, 2.0 ** -10])
        pts = pts * scale
        if rng.random() < 0.5:
            rot = True
            pts = pts.dot(rand_rotation(nprs).T)
    j = 2 if k == 3 else rng.choice([2, 3])
    i = rng.randrange(j)
    kk = rng.randint(0, 8)
    new = []
    for x in pts[i]:
        x = float(x)
        kc = kk if rng.random() < 0.5 else rng.randint(0, kk)
        sg = rng.choice([-1.0, 1.0])
        u = math.ulp(x) if x != 0.0 else (math.ulp(scale) if rng.random() < 0.8 else 5e-324)
        new.append(x + sg * kc * u)
    pts[j] = new
    return ([[float(x) for x in q] for q in pts],
            {"k": k, "dup_of": i, "replaced": j, "ulps": kk, "scale": scale, "rotated": rot})


def near_dup_cases(ctx, n):
    nprs = np.random.RandomState(ctx.rng.randrange(2 ** 32))
    cases = [(P, None, {"name": nm}) for nm, P in near_dup_witnesses()]
    for _ in range(n):
        P, meta = near_dup_case(ctx.rng, nprs)
        cases.append((P, None, meta))
    return cases


def edge_cases():
    """malformed / edge stream: list of (name, points, prev)"""
    E = []

    def add(name, P, prev=None):
        E.append((name, [[float(x) for x in p] for p in P], prev))

    for p in [(0, 0, 0), (1, 2, 3), (-0.5, 0, 0), (1e-9, 0, 0), (3e5, -4e5, 1.0)]:
        add("n1", [p])
    a, b, c, d = (1, 2, 3), (0.5, -1, 2), (-2, 0.25, 1), (0, 0, 0)
    for x in (a, b, d):
        add("dup2", [x, x])
        add("dup3", [x, x, x])
        add("dup4", [x, x, x, x])
    add("dup-aab", [a, a, b])
    add("dup-aba", [a, b, a])
    add("dup-baa", [b, a, a])
    add("dup-aabb", [a, a, b, b])
    add("dup-abab", [a, b, a, b])
    add("dup-abca", [a, b, c, a])
    add("dup-abcc", [a, b, c, c])
    add("dup-aabc", [a, a, b, c])
    add("dup-abbc", [a, b, b, c])
    # exactly collinear
    add("collinear3", [(1, 1, 1), (2, 2, 2), (3, 3, 3)])
    add("collinear3-through-origin", [(-1, -1, -1), (1, 1, 1), (2, 2, 2)])
    add("collinear3-offset", [(1, 0, 2), (3, 0, 2), (-2, 0, 2)])
    add("collinear3-mid", [(-2, 1, 0), (4, 1, 0), (1, 1, 0)])
    add("collinear4", [(1, 0, 2), (3, 0, 2), (-2, 0, 2), (0.5, 0, 2)])
    add("collinear4-through-origin", [(1, 1, 0), (-1, -1, 0), (2, 2, 0), (-3, -3, 0)])
    # exactly coplanar
    add("coplanar4-z1", [(1, 1, 1), (-1, 1, 1), (-1, -1, 1), (1, -1, 1)])
    add("coplanar4-z1-outside", [(2, 1, 1), (3, 1, 1), (3, 2, 1), (2, 3, 1)])
    add("coplanar4-z0-inside", [(1, 1, 0), (-1, 1, 0), (-1, -1, 0), (1, -1, 0)])
    add("coplanar4-z0-outside", [(2, 1, 0), (3, 1, 0), (3, 2, 0), (2, 3, 0)])
    add("coplanar4-three-collinear", [(1, 0, 1), (2, 0, 1), (3, 0, 1), (0, 2, 1)])
    # origin on vertex / edge / face / centroid
    add("origin-vertex2", [(0, 0, 0), (1, 2, 3)])
    add("origin-vertex2b", [(1, 2, 3), (0, 0, 0)])
    add("origin-edge2", [(-1, -2, -3), (2, 4, 6)])
    add("origin-vertex3", [(1, 0, 0), (0, 0, 0), (0, 1, 0)])
    add("origin-edge3", [(-1, 0, 0), (1, 0, 0), (0, 1, 0)])
    add("origin-edge3b", [(0, 1, 1), (-1, 0, 0), (1, 0, 0)])
    add("origin-centroid3", [(1, 0, 0), (-0.5, 1, 0), (-0.5, -1, 0)])
    add("origin-vertex4", [(1, 0, 0), (0, 1, 0), (0, 0, 0), (0, 0, 1)])
    add("origin-edge4", [(-1, 0, 0), (1, 0, 0), (0, 1, 0), (0, 0, 1)])
    add("origin-edge4b", [(0, 1, 0), (0, 0, 1), (-1, 0, 0), (1, 0, 0)])
    add("origin-face4", [(1, 0, 0), (-0.5, 1, 0), (-0.5, -1, 0), (0, 0, 1)])
    add("origin-face4b", [(0, 0, 1), (1, 0, 0), (-0.5, 1, 0), (-0.5, -1, 0)])
    add("origin-face4c", [(1, 0, 0), (0, 0, -2), (-0.5, 1, 0), (-0.5, -1, 0)])
    add("origin-centroid4", TET)
    add("origin-centroid4-flipped", [TET[0], TET[2], TET[1], TET[3]])
    # zero vectors
    for k in (2, 3, 4):
        add("zeros%d" % k, [(0, 0, 0)] * k)
    add("zero-and-point", [(0, 0, 0), (0, 0, 0), (1, 1, 1)])
    # prev_v_len_sqr not larger than the result: success must be False
    add("prev-small-1", [(1, 2, 2)], prev=8.0)
    add("prev-equal-1", [(1, 2, 2)], prev=9.0)
    add("prev-above-1", [(1, 2, 2)], prev=9.5)
    add("prev-small-2", [(1, 1, 0), (1, -1, 0)], prev=0.5)
    add("prev-equal-2", [(1, 1, 0), (1, -1, 0)], prev=1.0)
    add("prev-small-3", [(1, 0, 1), (-1, 1, 1), (-1, -1, 1)], prev=1.0)
    add("prev-small-4", [(2, 1, 1), (3, 1, 1), (3, 2, 2), (2, 3, 4)], prev=1e-3)
    add("prev-zero-4", TET, prev=0.0)
    # scale dependence: copies of a regular tetrahedron around the origin and of a triangle above it
    for s in (1.0, 1e-1, 1e-2, 5e-3, 1e-3, 1e-4, 1e-5, 1e-6, 1e-8):
        add("tet-scale-%g" % s, scaled(TET, s))
    for s in (1.0, 1e-3, 1e-6, 1e-7, 1e-8, 1e-9):
        add("tri-scale-%g" % s, scaled(TRI, s))
    for s in (1e-3, 1e-6, 1e-9):
        add("tet-outside-scale-%g" % s, scaled([(2, 1, 1), (3, 1, 1), (3, 2, 2), (2, 3, 4)], s))
        add("seg-scale-%g" % s, scaled([(1, 1, 0), (1, -1, 0)], s))
    # segments shorter than sqrt(EPSILON_SQR): degenerate branch of get_barycentric_coordinates_line
    add("tiny-seg-a-nearer", [(1e-17, 0, 0), (2e-17, 0, 0)])
    add("tiny-seg-b-nearer", [(0, 2e-17, 0), (0, 1e-17, 0)])
    add("tiny-seg-around-origin", [(-1e-17, 0, 0), (1e-17, 0, 0)])
    add("near-dup-seg", [(1, 2, 3), (1, 2, 3 + 4e-16)])
    add("near-dup-tri", [(1, 0, 1), (-1, 1, 1), (-1, 1 + 2e-16, 1)])
    # witness of F-C18-jolt-sliver: origin inside a triangle whose altitude 1e-8 is below sqrt(2^-52) * longest edge
    add("sliver-jolt-tri", [(-0.5, -3e-9, 0), (0.5, -3e-9, 0), (0, 7e-9, 0)])
    add("sliver-jolt-tet-face", [(-0.5, -3e-9, 0), (0.5, -3e-9, 0), (0, 7e-9, 0), (0.1, 0.2, 1)])
    for nm, P in near_dup_witnesses():
        add(nm, P)
    # witnesses of the ill-conditioning findings (float cancellation; found by the general stream)
    add("illcond-jolt-neardup-tet-origin-returned",
        [[88.54269573173961, -70.99887195791985, 48.58739702082715],
         [-76.9688071325108, 10.99222853821495, 156.3257544755886],
         [-76.96880713251092, 10.99222853821496, 156.32575447558884],
         [11.573888599228809, -60.0066434197049, 204.91315149641576]])
    add("illcond-jolt-neardup-tet-2",
        [[-16.043471185970667, 64.73749521306286, -203.16450367582325],
         [161.76413315370465, 102.66164180208139, 94.95843477823149],
         [-16.043471185970677, 64.73749521306289, -203.16450367582325],
         [-88.90380216983766, -18.962073294509267, -149.06146922702737]])
    add("illcond-jolt-flat-tet", [[-5.943095231142248, 5.609801791053678, -7.467064134445225],
                                  [-2.8187403131087616, 2.660665329748174, -3.5415377044311294],
                                  [-1.1322477862197182, 1.0687529448482236, -1.4225828293044365],
                                  [-6.069081840404449, 5.728731142609446, -7.625345215676338]])
    add("illcond-jolt-needle-face", [[11.255625400149558, -14.60910482971587, -27.778650965392373],
                                     [4.3411412594534635, -5.634902122936529, -10.71369991134556],
                                     [6.882923401963157, -8.92467501517671, -16.990466996790666],
                                     [-18.37225363045456, 23.840163977378456, 45.34468328337667]])
    add("illcond-orig-thin-tri", [[0.009252689023571212, -0.0028011569274636813, -0.01694990373114291],
                                  [0.0036118033483704803, -0.0010934179351968598, -0.0066159541897151085],
                                  [-0.026176425792627113, 0.00792463213043081, 0.04795199146695145]])
    add("illcond-orig-thin-tet", [[0.2544618451363193, -0.2800209579466374, 0.12012521681896046],
                                  [0.5453132210255345, -0.5973148779769827, 0.25468323997206044],
                                  [-0.29298586732737686, 0.32007493628449013, -0.1357051889950287],
                                  [-0.21622468024467148, 0.23776191439853178, -0.10196451453848751]])
    return E


# ============================================================================ correspondence
MAX_BROKEN = 40


def add_broke(ctx, name, message, seed):
    """ctx.broke with a cap: after MAX_BROKEN entries further disagreements are only counted"""
    if len(ctx.broken) < MAX_BROKEN:
        ctx.broke("correspondence", name, message, seed)
    else:
        ctx.extra["broken_suppressed"] = ctx.extra.get("broken_suppressed", 0) + 1


def tie_or_broke(ctx, solver, P, py, mo, why, stream):
    """lattice rule: a mismatch is a tie iff the candidate Python picked has exactly the model's squared
    distance (both represent the same optimum) and both results pass the oracle."""
    if len(ctx.broken) >= MAX_BROKEN:       # already broken beyond doubt: skip the exact analysis
        ctx.extra["broken_suppressed"] = ctx.extra.get("broken_suppressed", 0) + 1
        return False
    Pq = to_q(P)
    seed = {"solver": solver, "points": P, "n": len(P)}
    name = FN_JOLT if solver == "jolt" else FN_ORIG
    try:
        if solver == "jolt":
            ok_shape = py.get("success") and "br" in mo and mo.get("success") and 0 < py["set"] < (1 << len(P))
            pidx = bits(py["set"]) if ok_shape else None
            midx = bits(mo["set"]) if ok_shape else None
            mv, md = (mo["v"], mo["vlen"]) if ok_shape else (None, None)
            fails = oracle_jolt(P, res=py)[0] if ok_shape else None
        else:
            ok_shape = "idx" in py and "br" in mo and not mo.get("nonfinite")
            pidx = py["idx"] if ok_shape else None
            midx = mo["idx"] if ok_shape else None
            mv, md = (mo["pt"], mo["dist2"]) if ok_shape else (None, None)
            fails = oracle_orig(P, res=py)[0] if ok_shape else None
        if ok_shape:
            cand = affine_proj_sq([Pq[i] for i in pidx])
            m2 = exact_min(Pq)[0]
            if cand == md and not fails and not check_opt_member(Pq, mv, midx, m2, lmax2_of(Pq)):
                ctx.extra["ties"][stream + ":" + solver] = ctx.extra["ties"].get(stream + ":" + solver, 0) + 1
                return True
            why += " [python candidate exact distSq %s, model distSq %s, exact min %s, python oracle failures %s]" % (
                cand, md, m2, [f["what"] for f in fails])
    except Exception as e:  # noqa
        why += " [tie analysis raised %r]" % (e,)
    add_broke(ctx, name, "%s stream: %s | python=%s model=%s" % (
        stream, why, {x: py[x] for x in py if x != "table"}, _mo_str(mo)), seed)
    return False


def _mo_str(mo):
    out = {}
    for k, v in mo.items():
        if isinstance(v, list):
            out[k] = [(float(x) if isinstance(x, Fr) else x) for x in v]
        elif isinstance(v, Fr):
            out[k] = float(v)
        else:
            out[k] = v
    return out


def corr_lattice(ctx):
    n3 = ctx.budget(4000, 19683)
    n4 = ctx.budget(2000, 100000)
    cases = lattice_cases(ctx, n3, n4)
    drv = core.Driver("c18-lat")
    plan = []
    for P in cases:
        pj = jolt_run(P)
        po = orig_run(P)
        cj = add_gcp(drv, "Q", P)
        co = add_orig(drv, "Q", P, po["table"])
        plan.append((P, pj, po, cj, co))
    out = drv.run()
    for P, pj, po, cj, co in plan:
        n = len(P)
        key = tuple(map(tuple, P))
        mj = parse_gcp(out.get(cj), "Q")
        mo = parse_orig(out.get(co), "Q")
        record_branches(ctx, "jolt", n, mj)
        record_branches(ctx, "orig", n, mo)
        ctx.count("L:jolt", key=("jolt", key, None), nontrivial="raised" not in pj,
                  sample={"stream": "L", "solver": "jolt", "points": P, "python": pj, "model": out.get(cj)})
        ctx.count("L:original", key=("original", key, None), nontrivial="raised" not in po)
        why = agree_jolt(pj, mj, 1e-12, 1e-12)
        if why:
            tie_or_broke(ctx, "jolt", P, pj, mj, why, "L")
        why = agree_orig(po, mo, 1e-12, 1e-12, 1e-12)
        if why:
            tie_or_broke(ctx, "original", P, po, mo, why, "L")
    ctx.extra["lattice"] = {"k1": 27, "k2": 729, "k3": min(n3, 19683), "k4": n4,
                            "k3_exhaustive": n3 >= 19683, "k4_exhaustive": n4 >= 531441}


def corr_small(ctx):
    """barycentric coordinates, plane test, simplex update on lattice inputs (exact rationals)"""
    gj, _ = _mods()
    rng = ctx.rng
    n = ctx.budget(300, 3000)
    drv = core.Driver("c18-small")
    plan = []

    def pts(k):
        return [LAT[rng.randrange(27)] for _ in range(k)]

    def call(f, P):
        try:
            with np.errstate(all="ignore"):
                return [float(x) for x in f(*[np.array(p, dtype=float) for p in P])]
        except ZeroDivisionError:
            return [float("nan")]

    for _ in range(n):
        P = pts(2)
        plan.append(("baryline", P, call(gj.get_barycentric_coordinates_line, P),
                     drv.add("C18.baryline", "Q", enc_pts(P, "Q", 2))))
        P = pts(3)
        plan.append(("baryplane", P, call(gj.get_barycentric_coordinates_plane, P),
                     drv.add("C18.baryplane", "Q", enc_pts(P, "Q", 3))))
        P = pts(4)
        plan.append(("barytet", P, call(gj.get_barycentric_coordinates_tetrahedron, P),
                     drv.add("C18.barytet", "Q", enc_pts(P, "Q", 4))))
        P = pts(4)
        with np.errstate(all="ignore"):
            fl = gj.origin_outside_of_tetrahedron_planes(*[np.array(p, dtype=float) for p in P])
        plan.append(("planes", P, ([int(bool(x)) for x in fl], fl is gj.ALL_TRUE),
                     drv.add("C18.planes", "Q", enc_pts(P, "Q", 4))))
    # non-lattice inputs for the degenerate branches (exact binary inputs, Rat model)
    for P in ([(1e-17, 0, 0), (2e-17, 0, 0)], [(0, 2e-17, 0), (0, 1e-17, 0)], [(-1e-17, 0, 0), (1e-17, 0, 0)],
              [(1, 2, 3), (1, 2, 3 + 4e-16)], [(3, 1, 2), (3 - 4e-16, 1, 2)], [(0.5, 0.25, 1), (1.5, 0.25, -1)]):
        P = [[float(x) for x in p] for p in P]
        plan.append(("baryline", P, call(gj.get_barycentric_coordinates_line, P),
                     drv.add("C18.baryline", "Q", enc_pts(P, "Q", 2))))
    for P in ([(1, 0, 1), (1, 0, 1 + 2e-16), (3, 0, 1)], [(1, 0, 1), (3, 0, 1), (3, 2e-16, 1)],
              [(3, 0, 1), (1, 0, 1), (1, 2e-16, 1)], [(1e-5, 0, 1), (0, 1e-5, 1), (0, 0, 1)],
              [(0, 0, 1), (4, 0, 1), (2, 1e-9, 1)], [(0, 0, 1), (2, 1e-9, 1), (4, 0, 1)]):
        P = [[float(x) for x in p] for p in P]
        plan.append(("baryplane", P, call(gj.get_barycentric_coordinates_plane, P),
                     drv.add("C18.baryplane", "Q", enc_pts(P, "Q", 3))))
    for _ in range(max(2, n // 60)):
        P = pts(4)
        for nn in (1, 2, 3, 4):
            for s in range(1, 16):
                Y = np.array(P, dtype=float)
                k = int(gj.update_simplex_y(Y, nn, s))
                plan.append(("upd", (P, nn, s), (k, Y[:k].tolist()),
                             drv.add("C18.upd", "Q", [str(nn), str(s)] + enc_pts(P, "Q", 4))))
    out = drv.run()
    names = {"baryline": "get_barycentric_coordinates_line", "baryplane": "get_barycentric_coordinates_plane",
             "barytet": "get_barycentric_coordinates_tetrahedron", "planes": "origin_outside_of_tetrahedron_planes",
             "upd": "update_simplex_y"}
    for kind, P, py, cid in plan:
        t = (out.get(cid) or "bad missing").split()
        ctx.count("L:" + kind, key=(kind, str(P)))
        bad = None
        if kind in ("baryline", "baryplane", "barytet"):
            if t[0] == "err":
                ctx.branch(names[kind], "err " + t[1])
                if all(math.isfinite(x) for x in py):
                    bad = "model %s, python finite %r" % (t[1], py)
            elif t[0] == "ok":
                ctx.branch(names[kind], t[1])
                vals = [s2q(x) for x in t[2:]]
                if not all(math.isfinite(x) for x in py):
                    bad = "python not finite %r, model %s" % (py, t)
                elif len(vals) != len(py) or not all(_close(a, b, 1e-12 * max(1.0, abs(a))) for a, b in zip(py, vals)):
                    bad = "python %r model %r" % (py, [float(v) for v in vals])
            else:
                bad = "driver: " + " ".join(t)
        elif kind == "planes":
            flags, alltrue = py
            if t[0] != "ok":
                bad = "driver: " + " ".join(t)
            else:
                ctx.branch(names[kind], t[1])
                if [int(x) for x in t[2:6]] != flags or (alltrue != (t[1] == "2")):
                    bad = "python flags %s ALL_TRUE=%s, model %s" % (flags, alltrue, t)
        else:
            k, rows = py
            if t[0] != "ok":
                bad = "driver: " + " ".join(t)
            else:
                ctx.branch(names[kind], "n_new=" + t[1])
                vals = [float(s2q(x)) for x in t[2:]]
                mrows = [vals[3 * i:3 * i + 3] for i in range(4)]
                if int(t[1]) != k or mrows[:k] != rows:
                    bad = "python n_new=%d rows=%s, model %s" % (k, rows, t)
        if bad:
            ctx.broke("correspondence", "gjk._gjk_jolt." + names[kind], bad, {"kind": kind, "input": P})


def corr_float_stream(ctx, stream, cases, tie_limit=0.02):
    """cases: list of (P, prev, meta). Compare at Float, arbitrate mismatches at Rat.
    tie_limit: admitted fraction of ties (None: no limit; near-duplicate inputs tie by construction)."""
    drv = core.Driver("c18-" + stream.lower() + "f")
    plan = []
    for P, prev, meta in cases:
        pj = jolt_run(P, prev)
        po = orig_run(P)
        plan.append({"P": P, "prev": prev, "meta": meta, "pj": pj, "po": po,
                     "cj": add_gcp(drv, "F", P, prev), "co": add_orig(drv, "F", P, po["table"])})
    out = drv.run()
    arb = core.Driver("c18-" + stream.lower() + "q")
    pending = []
    for c in plan:
        P = c["P"]
        n = len(P)
        key = tuple(map(tuple, P))
        Lm = math.sqrt(max(vdot(p, p) for p in P))
        c["Lm"] = Lm
        mj = parse_gcp(out.get(c["cj"]), "F")
        mo = parse_orig(out.get(c["co"]), "F")
        record_branches(ctx, "jolt", n, mj)
        record_branches(ctx, "orig", n, mo)
        ctx.count(stream + ":jolt", key=("jolt", key, c["prev"]), nontrivial="raised" not in c["pj"],
                  sample={"stream": stream, "solver": "jolt", "points": P, "python": c["pj"], "meta": c["meta"]})
        ctx.count(stream + ":original", key=("original", key, None), nontrivial="raised" not in c["po"])
        tp, ts = 1e-9 * Lm, 2e-9 * Lm * Lm
        why = agree_jolt(c["pj"], mj, tp, ts)
        if why:
            pending.append(("jolt", c, mj, why, add_gcp(arb, "Q", P, c["prev"])))
        why = agree_orig(c["po"], mo, tp, ts, 1e-9)
        if why:
            pending.append(("original", c, mo, why, add_orig(arb, "Q", P, c["po"]["table"])))
    qout = arb.run()
    ex = ctx.extra
    for solver, c, mF, why, cid in pending:
        if len(ctx.broken) >= MAX_BROKEN:
            ctx.extra["broken_suppressed"] = ctx.extra.get("broken_suppressed", 0) + 1
            continue
        P, Lm = c["P"], c["Lm"]
        tag = stream + ":" + solver
        tp, ts = 1e-9 * Lm, 2e-9 * Lm * Lm
        if solver == "jolt":
            py = c["pj"]
            mQ = parse_gcp(qout.get(cid), "Q")
            whyq = agree_jolt(py, mQ, tp, ts)
        else:
            py = c["po"]
            mQ = parse_orig(qout.get(cid), "Q")
            whyq = agree_orig(py, mQ, tp, ts, 1e-9)
        if whyq is None:
            ex["float_model_rounding"][tag] = ex["float_model_rounding"].get(tag, 0) + 1
            continue
        # neither the Float nor the Rat model reproduces Python: accept only if both are valid answers
        Pq = to_q(P)
        m2 = exact_min(Pq)[0]
        L2 = lmax2_of(Pq)
        if solver == "jolt":
            pf = oracle_jolt(P, res=py)[0] if c["prev"] is None else [{"what": "prev", "finding": None}]
            shape = "br" in mF and not mF.get("nonfinite") and 0 < mF["set"] < 16
            mv, midx = (mF["v"], bits(mF["set"])) if shape else (None, None)
        else:
            pf = oracle_orig(P, res=py)[0]
            shape = "br" in mF and not mF.get("nonfinite")
            mv, midx = (mF["pt"], mF["idx"]) if shape else (None, None)
        # the Float model's own result, judged by the same exact oracle and the same finding classes
        mf = ([(w, classify(solver, P, Pq, w, q, L2)[0]) for w, _d, q in check_opt_member(Pq, mv, midx, m2, L2)]
              if shape else [("shape", None)])
        mok = not mf
        if not pf and mok:
            ex["ties"][tag] = ex["ties"].get(tag, 0) + 1
            continue
        if all(f["finding"] for f in pf) and all(fid for _w, fid in mf):
            # python and / or the Float model fail the property inside a known class (absolute-threshold band or
            # ill-conditioned simplex): there the rounding noise of np.dot (last bit) decides the branch; the search
            # reports such inputs as known findings
            ex["known_finding_divergence"][tag] = ex["known_finding_divergence"].get(tag, 0) + 1
            continue
        add_broke(ctx, FN_JOLT if solver == "jolt" else FN_ORIG,
                  "%s stream: float model: %s | rat model: %s | python=%s floatmodel=%s ratmodel=%s python-oracle=%s "
                  "model-result-valid=%s" % (stream, why, whyq, {x: py[x] for x in py if x != "table"}, _mo_str(mF),
                                             _mo_str(mQ), [(f["what"], f["finding"]) for f in pf], mok),
                  {"solver": solver, "points": P, "n": len(P), "prev": c["prev"]})
    nt = sum(v for k, v in ex["ties"].items() if k.startswith(stream + ":"))
    if plan and tie_limit is not None and nt > tie_limit * 2 * len(plan):
        ctx.broke("correspondence", "tie rate", "%d ties in %d %s-stream evaluations (> %g %%)"
                  % (nt, 2 * len(plan), stream, 100 * tie_limit))


def corr_triold(ctx):
    """the repair ea3a5ff of closest_point_triangle (absolute -> relative degeneracy test): the pre-repair model
    `C18.triold` and the current model `C18.tri` at Float on the inputs that separate them, and `C18.tri` against
    the real closest_point_triangle."""
    gj, _ = _mods()
    cases = [("M", "old abs-eps witness 1e-9*TRI", scaled(TRI, 1e-9), "tiny")]
    for t, (nm, P) in enumerate(near_dup_witnesses()):
        cases.append(("N", nm, P, "first" if t == 0 else "variant"))
    drv = core.Driver("c18-triold")
    plan = []
    for stream, nm, P, kind in cases:
        with np.errstate(all="ignore"):
            v, st = gj.closest_point_triangle(*[np.array(p, dtype=float) for p in P])
        plan.append((stream, nm, P, kind, [float(x) for x in v], int(st),
                     drv.add("C18.tri", "F", enc_pts(P, "F", 3)), drv.add("C18.triold", "F", enc_pts(P, "F", 3))))
    out = drv.run()
    for stream, nm, P, kind, v, st, cn, co in plan:
        ctx.count(stream + ":triold", key=("triold", tuple(map(tuple, P))),
                  sample={"stream": stream, "name": nm, "points": P, "python": [v, st], "tri": out.get(cn),
                          "triold": out.get(co)})
        tn, to = (out.get(cn) or "bad missing").split(), (out.get(co) or "bad missing").split()
        seed = {"solver": "jolt", "points": P, "n": 3}
        if tn[0] != "ok" or to[0] != "ok" or len(tn) != 6 or len(to) != 6:
            ctx.broke("correspondence", "C18.tri / C18.triold", "driver: %s | %s" % (out.get(cn), out.get(co)), seed)
            continue
        brn, setn, bro, seto = int(tn[1]), int(tn[2]), int(to[1]), int(to[2])
        ctx.branch("closest_point_triangle (C18.tri, repair inputs)", brn)
        ctx.branch("closest_point_triangle before ea3a5ff (C18.triold)", bro)
        Lm = math.sqrt(max(vdot(p, p) for p in P))
        pn = [h2f(x) for x in tn[3:6]]
        if setn != st or not all(abs(a - b) <= 1e-9 * Lm for a, b in zip(v, pn)):
            ctx.broke("correspondence", "gjk._gjk_jolt.closest_point_triangle",
                      "%s: python %s set %d, model C18.tri %s set %d (branch %d)" % (nm, v, st, pn, setn, brn), seed)
        bad = None
        if kind == "tiny":
            # pre-repair: 0 < |n|^2 < EPSILON_SQR -> edge fallback (set 3); repaired: regular face region (set 7)
            if not (7 <= bro <= 9 and seto == 3):
                bad = "pre-repair model expected in the edge fallback with set 3, got branch %d set %d" % (bro, seto)
            elif not (brn == 6 and setn == 7 and st == 7):
                bad = "repaired model / code expected in the face region (set 7): model branch %d set %d, python set %d" % (
                    brn, setn, st)
        elif kind == "variant":
            # |n|^2 ~ 1e-30 > EPSILON_SQR: regular for the old absolute test, degenerate for the relative one
            if not (0 <= bro <= 6):
                bad = "pre-repair model expected regular (branch 0..6), got branch %d" % bro
            elif not (7 <= brn <= 9):
                bad = "repaired model expected in the edge fallback (branch 7..9), got branch %d" % brn
        else:
            if not (7 <= brn <= 9):
                bad = "repaired model expected in the edge fallback (branch 7..9), got branch %d" % brn
        if bad:
            ctx.broke("correspondence", "closest_point_triangle degeneracy test (repair ea3a5ff)", nm + ": " + bad, seed)


def correspondence(ctx):
    for k in ("ties", "float_model_rounding", "known_finding_divergence", "known_finding_hits"):
        ctx.extra.setdefault(k, {})
    corr_lattice(ctx)
    corr_small(ctx)
    nprs = np.random.RandomState(ctx.rng.randrange(2 ** 32))
    ng = ctx.budget(5000, 40000)
    cases = []
    for i in range(ng):
        P, meta = general_case(ctx.rng, nprs, inside=(True if i % 8 == 0 else None), k=(4 if i % 8 == 0 else None))
        cases.append((P, None, meta))
    corr_float_stream(ctx, "G", cases)
    corr_float_stream(ctx, "M", [(P, prev, {"name": name}) for name, P, prev in edge_cases()])
    corr_float_stream(ctx, "N", near_dup_cases(ctx, ctx.budget(3000, 30000)), tie_limit=None)
    corr_triold(ctx)


# ============================================================================ search
def search(ctx):
    for k in ("ties", "float_model_rounding", "known_finding_divergence", "known_finding_hits"):
        ctx.extra.setdefault(k, {})
    boost = 2 if ctx.extra.get("search_boost") else 1
    t0 = time.time()
    cap = ctx.budget(30, 600) * boost
    nl = ctx.budget(5000, 60000) * boost
    for _ in range(nl):
        k = ctx.rng.choice([2, 3, 3, 4, 4, 4])
        run_oracles(ctx, lattice_cfg(ctx.rng.randrange(27 ** k), k), "L")
        if time.time() - t0 > cap / 3:
            ctx.notes.append("search: lattice stream stopped by the time cap")
            break
    # edge stream: contains the witnesses of the known findings
    for name, P, prev in edge_cases():
        if prev is None:
            run_oracles(ctx, P, "M")
    # near-duplicate stream
    for P, _prev, _meta in near_dup_cases(ctx, ctx.budget(3000, 30000) * boost):
        run_oracles(ctx, P, "N")
        if time.time() - t0 > cap / 2:
            ctx.notes.append("search: near-duplicate stream stopped by the time cap")
            break
    nprs = np.random.RandomState(ctx.rng.randrange(2 ** 32))
    # sliver stream: triangles around the relative degeneracy threshold of closest_point_triangle (altitude 0.1 … 10
    # times sqrt(EPSILON) * longest edge, and exactly collinear ones), every vertex order, the origin in every region
    # of the long edge and the apex — the edge fallback must still consider all three edges
    for i in range(ctx.budget(1500, 20000) * boost):
        P = sliver_case(ctx.rng, nprs)
        run_oracles(ctx, P, "S")
    ng = ctx.budget(16000, 200000) * boost
    for i in range(ng):
        P, meta = general_case(ctx.rng, nprs, inside=(True if i % 8 == 0 else None), k=(4 if i % 8 == 0 else None))
        run_oracles(ctx, P, "G")
        if time.time() - t0 > cap:
            ctx.notes.append("search: general stream stopped by the time cap after %d cases" % (i + 1))
            break
    ctx.extra["search_wall_s"] = round(time.time() - t0, 1)


# ============================================================================ replay
def replay(ctx, payload):
    args = payload.get("args")
    if not args or "points" not in args:
        args = None
        for b in payload.get("broken", []):
            si = b.get("seed_input")
            if isinstance(si, dict) and "points" in si:
                args = si
                break
    if not args:
        print("replay file names no input:", str(payload.get("broken"))[:500])
        return False
    P = [[float(x) for x in p] for p in args["points"]]
    solvers = [args["solver"]] if args.get("solver") in ("jolt", "original") else ["jolt", "original"]
    ex = exact_min(to_q(P))
    print("points:", P)
    print("exact minimum norm: %.17g, argmin subset %s, weights %s" % (fsqrt(ex[0]), list(ex[1]), [float(w) for w in ex[2]]))
    ok = True
    for s in solvers:
        fails, res = (oracle_jolt if s == "jolt" else oracle_orig)(P, ex=ex)
        print(s, "returned", {x: res[x] for x in res if x != "table"})
        for f in fails:
            ok = False
            print("FAIL", s, f["what"], f["observed"]["detail"], "finding=%s" % f["finding"])
    return ok
