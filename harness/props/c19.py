"""C19 — termination / finiteness of the narrow phase: Lean theorems about the loops' exit logic and
caps (D3/Properties/C19.lean) + counting proxy and watchdog on the real code."""
import math
import os
import signal

import numpy as np

import core
import scenes
from core import f2h

MANIFEST = dict(
    text=("Lean theorems: every capped loop runs at most `cap` bodies and the support-evaluation counts implied by the "
          "caps currently in the source (regenerated constants) are <= 1000 (libccd, capped MPR stages, EPA, both "
          "Nesterov variants); the exit logic of the two unbounded Jolt loops (_distance_loop/_intersection_loop) "
          "contracts |v|^2 by (1-eps) per continuing iteration, hence n*eps*tol^2 < |v0|^2 (no infinite run); mesh hill "
          "climbing (after repair e900ae9 of F-mesh-hill-climb-cycle) makes <= #vertices-1 moves in exact reals AND in "
          "any arithmetic whose `<` is a strict order with `thr < a-b -> b < a` (hill_climbing_bound_anyArith: floating "
          "point and NaN included); the code before the repair could cycle forever "
          "(hill_climbing_asIs_before_fix_counterexample). The exit-logic model is tied to the code by replaying recorded per-"
          "iteration observations of real runs through the Lean driver (exit kind and iteration count must match). "
          "MPR: refine_portal_continue_gap (what a continuing _refine_portal pass establishes), "
          "mpr_portal_crossing_progress (the monotone ray-crossing parameter), refine_portal_terminates_conditional "
          "(iteration bound conditional on a barycentric-weight hypothesis, see PARTIAL), "
          "find_penetration_info_capped_bound (<= max_iterations+2 bodies for every observation record). "
          "The '<= 1000 support evaluations' clause for the unbounded loops, unconditional termination of MPR _refine_portal and of "
          "the original GJK, and finiteness of outputs are explored by a counting proxy + watchdog over a corpus "
          "steered at degeneracy (identical, nested, touching, flat, needle, far, lattice)."),
    note=("exact-real exit logic; the 1000-evaluation bound for unbounded loops is explored, not proved (the proved "
          "measure gives ~1e17); float rounding not modelled"),
    technique="Lean 4 proof of loop measures/caps + trace-replay correspondence + counting proxy/watchdog exploration",
    design="§7 C19")
RULE = ("collider pairs from a degeneracy-steered corpus (identical objects, nested, exactly touching lattice "
        "placements, flat/zero-volume, needle-like up to aspect 1e4, far apart, at 1e3 from the origin, Margin "
        "wrappers) x all narrow-phase entry points; non-trivial = the call returned; distinct = distinct (entry point, "
        "scene)")
EXPLANATION = ("support evaluations counted by patching every collider class's support_function and the Nesterov "
               "support helpers; each call runs under a SIGALRM watchdog; outputs checked for finiteness; recorded "
               "|v|^2 traces of the Jolt loops replayed through the Lean model of their exit logic")
PARTIAL = {
    "le_1000_support_evaluations_unbounded_loops": "for gjk_distance_jolt, gjk_intersection_jolt, gjk_distance_original "
                                                   "and mpr _refine_portal the bound 1000 is explored by the counting "
                                                   "proxy, not proved (jolt_*_terminates gives finiteness only)",
    "refine_portal_terminates": "mpr._refine_portal's while True loop: proved (a) refine_portal_continue_gap: a "
                                "continuing pass has v1.dir <= -10*EPSILON, v4.dir > -10*EPSILON and v4 beyond all "
                                "three portal vertices by >= mpr_tolerance+EPSILON along dir; (b) "
                                "mpr_portal_crossing_progress: the parameter s at which the origin ray t*v0 crosses the "
                                "portal plane is the monotone quantity, (s'-s)*(v0.n) >= l3*gap with l3 the barycentric "
                                "weight of the new support point in the new crossing point; (c) "
                                "refine_portal_terminates_conditional: k*lam*(tol+EPSILON) <= s0*D for every "
                                "continuing pass k, CONDITIONAL on the hypothesis (not derived from the code) that "
                                "l3 >= lam > 0 in every pass, that v0.dir_k < 0 and |v0.dir_k| <= D, and that the ray "
                                "crosses the expanded portal triangle (what _expand_portal is meant to keep). REMAINS: "
                                "an unconditional bound - the weight l3 can be arbitrarily small (then s only "
                                "decreases weakly), the link from _expand_portal's vertex choice to the crossing "
                                "hypothesis, and float rounding; explored by the counting proxy",
    "gjk_original_terminates": "original GJK main loop: explored only",
}
ASSUMPTIONS = ["the solver reports success iff the candidate squared length is below prev_v_len_sq (as "
               "get_closest_point_to_origin does); the model computes that test itself"]
TRUSTED = ["loop-cap formulas (support evaluations per iteration) are read off the code by hand and confirmed by the "
           "counting proxy on every run (observed count <= formula)"]
MODELLED = ["distance3d/gjk/_gjk_jolt.py:_distance_loop", "distance3d/gjk/_gjk_jolt.py:_intersection_loop",
            "distance3d/gjk/_gjk_jolt.py:get_closest_point_to_origin",
            "distance3d/gjk/_gjk_libccd.py:_gjk", "distance3d/mpr.py:_discover_portal",
            "distance3d/mpr.py:_find_penetration_info", "distance3d/mpr.py:_refine_portal",
            "distance3d/epa.py:epa"]

MAX_EVALS = 1000
WATCHDOG_S = 20


# ------------------------------------------------------------------ counting
class Counter:
    def __init__(self):
        self.n = 0
        self.depth = 0
        self.installed = False

    def install(self):
        if self.installed:
            return
        from distance3d import colliders
        from distance3d.gjk import _gjk_nesterov_accelerated as N, _gjk_nesterov_accelerated_primitives as NP
        me = self
        for name in dir(colliders):
            cls = getattr(colliders, name)
            if isinstance(cls, type) and "support_function" in cls.__dict__:
                orig = cls.__dict__["support_function"]

                def wrapped(self_, d, _orig=orig):
                    # count outermost calls only: Margin.support_function calls the wrapped collider's one,
                    # which is part of the same support evaluation
                    if me.depth == 0:
                        me.n += 1
                    me.depth += 1
                    try:
                        return _orig(self_, d)
                    finally:
                        me.depth -= 1
                setattr(cls, "support_function", wrapped)
        for mod in (N, NP):
            orig = mod.support_function

            def wrapped_sf(*a, _orig=orig, **k):
                before = me.n
                r = _orig(*a, **k)
                # specialised supports do not go through collider.support_function: count 2 per pair
                me.n = max(me.n, before + 2)
                return r
            mod.support_function = wrapped_sf
        self.installed = True


COUNTER = Counter()


class Hang(Exception):
    pass


def _alarm(signum, frame):
    raise Hang()


def guarded(fn, *args, **kw):
    COUNTER.n = 0
    COUNTER.depth = 0
    signal.signal(signal.SIGALRM, _alarm)
    signal.alarm(WATCHDOG_S)
    try:
        r = fn(*args, **kw)
        return ("ok", r, COUNTER.n)
    except Hang:
        return ("hang", None, COUNTER.n)
    except AssertionError as e:
        return ("assert", str(e)[:120], COUNTER.n)
    except Exception as e:  # noqa
        return ("exc:" + type(e).__name__, str(e)[:120], COUNTER.n)
    finally:
        signal.alarm(0)


def finite(x):
    if x is None or isinstance(x, (bool, np.bool_, str)):
        return True
    if isinstance(x, (int, float, np.floating, np.integer)):
        return math.isfinite(float(x))
    if isinstance(x, np.ndarray):
        return bool(np.all(np.isfinite(x))) if x.dtype.kind == "f" else True
    if isinstance(x, (list, tuple)):
        return all(finite(v) for v in x)
    if isinstance(x, dict):
        return all(finite(v) for v in x.values())
    return True


# ------------------------------------------------------------------ scenes
SMOOTH = {"Sphere", "Ellipsoid", "Capsule", "Cylinder", "Cone", "Disk", "Ellipse"}


def base_type(spec):
    return base_type(spec[1]) if spec[0] == "Margin" else spec[0]


def degenerate_scenes(rng, n):
    """list of (label, spec1, spec2, same_object)"""
    out = []
    I = np.eye(4)

    def at(t):
        A = np.eye(4)
        A[:3, 3] = t
        return A
    flat = [("ConvexHullVertices", np.array([[0, 0, 0.0]])),
            ("ConvexHullVertices", np.array([[0, 0, 0.0], [1, 0, 0]])),
            ("ConvexHullVertices", np.array([[0, 0, 0.0], [1, 0, 0], [0, 1, 0], [1, 1, 0]])),
            ("Disk", np.zeros(3), 1.0, np.array([0, 0, 1.0])),
            ("Ellipse", np.zeros(3), np.array([[1.0, 0, 0], [0, 1, 0]]), np.array([2.0, 0.5]))]
    needles = [("Box", I.copy(), np.array([1e-2, 1e-2, 1e2])), ("Capsule", I.copy(), 1e-2, 1e2),
               ("Cylinder", I.copy(), 1e-2, 1e2), ("Ellipsoid", I.copy(), np.array([1e-2, 1e-2, 1e2])),
               ("Cylinder", I.copy(), 1e2, 1e-2), ("Box", I.copy(), np.array([1e2, 1e2, 1e-2])),
               ("Cone", I.copy(), 1e-2, 1e2)]
    unit_box = ("Box", I.copy(), np.ones(3))
    # exactly touching lattice placements
    out.append(("touch-box-face", unit_box, ("Box", at([1.0, 0, 0]), np.ones(3)), False))
    out.append(("touch-box-edge", unit_box, ("Box", at([1.0, 1.0, 0]), np.ones(3)), False))
    out.append(("touch-box-corner", unit_box, ("Box", at([1.0, 1.0, 1.0]), np.ones(3)), False))
    out.append(("touch-spheres", ("Sphere", np.zeros(3), 0.5), ("Sphere", np.array([1.0, 0, 0]), 0.5), False))
    out.append(("touch-sphere-box", ("Sphere", np.array([1.0, 0, 0]), 0.5), unit_box, False))
    out.append(("nested-spheres", ("Sphere", np.zeros(3), 2.0), ("Sphere", np.zeros(3), 0.5), False))
    out.append(("nested-box-sphere", ("Box", I.copy(), np.array([4.0, 4, 4])), ("Sphere", np.array([0.5, 0, 0]), 0.25), False))
    out.append(("concentric-boxes", unit_box, ("Box", I.copy(), np.array([2.0, 2, 2])), False))
    out.append(("far-clip", unit_box, ("Box", at([400.0, 0, 0]), np.ones(3)), False))
    out.append(("far-1e3", ("Sphere", np.array([1e3, 1e3, 1e3]), 1.0), ("Sphere", np.array([1e3 + 1.5, 1e3, 1e3]), 1.0), False))
    # exactly concentric placements (MPR perturbs its interior point by ~1e-15 there): flat and solid shapes
    # centred inside solids, off-axis extents so that the first support point is not on the x-axis
    rect = ("ConvexHullVertices", np.array([[-0.3, -0.2, 0.0], [0.3, -0.2, 0.0], [0.3, 0.2, 0.0], [-0.3, 0.2, 0.0]]))
    rect_yz = ("ConvexHullVertices", np.array([[0.0, -0.3, -0.2], [0.0, 0.3, -0.2], [0.0, 0.3, 0.2], [0.0, -0.3, 0.2]]))
    solids = [("Sphere", np.zeros(3), 1.0), unit_box, ("Ellipsoid", I.copy(), np.array([1.0, 0.7, 0.5])),
              ("Cylinder", I.copy(), 0.8, 1.5), ("Capsule", I.copy(), 0.6, 1.0)]
    for sol in solids:
        for inner in (rect, rect_yz, ("Disk", np.zeros(3), 0.3, np.array([0, 1.0, 0])),
                      ("Box", I.copy(), np.array([0.2, 0.3, 0.1])), ("Ellipse", np.zeros(3), np.array([[0, 1.0, 0], [0, 0, 1.0]]), np.array([0.3, 0.2]))):
            out.append(("concentric", sol, inner, False))
            out.append(("concentric", inner, sol, False))
    # large polytopes that almost touch: gaps of 1e-9 … 1e-5 times their size
    for size in (10.0, 100.0):
        for rel in (1e-9, 3e-9, 1e-8, 3e-8, 1e-7, 1e-6, 1e-5):
            big = ("Box", I.copy(), np.array([size, size, size]))
            out.append(("almost-touching-large", big, ("Box", at([size * (1.0 + rel), 0.3 * size * rng.random(), 0.0]),
                                                       np.array([size, size, size])), False))
            verts = np.array([[x, y, z] for x in (-0.5, 0.5) for y in (-0.5, 0.5) for z in (-0.5, 0.5)]) * size
            out.append(("almost-touching-large", ("ConvexHullVertices", verts),
                        ("ConvexHullVertices", verts + np.array([size * (1.0 + rel), 0.0, 0.1 * size])), False))
    for f in flat:
        out.append(("flat-vs-box", f, unit_box, False))
        out.append(("flat-vs-flat", f, scenes.translate(flat[rng.randrange(len(flat))], [0.25, 0, 0]), False))
        out.append(("flat-identical", f, f, True))
    for nd in needles:
        out.append(("needle-vs-box", nd, unit_box, False))
        out.append(("needle-vs-needle", nd, scenes.translate(needles[rng.randrange(len(needles))], [0.5, 0.5, 0]), False))
        out.append(("needle-identical", nd, nd, True))
    # face-on / coaxial placements under a GENERAL rotation: the other shape sits on the axis of a flat or axial shape, so
    # the search direction reaches its support function parallel to the axis up to rounding (difference-of-squares and
    # "radial part" reformulations produce sqrt of a negative number or a normalised noise vector there)
    for _k in range(14):
        R = scenes.rotation(rng, False)
        A = np.eye(4)
        A[:3, :3] = R
        A[:3, 3] = scenes.vec(rng, False, 1.0)
        ax, c = R[:, 2].copy(), A[:3, 3].copy()
        typ = ("Disk", "Ellipse", "Cylinder", "Capsule", "Cone", "Box", "Ellipsoid")[_k % 7]
        r, h = rng.choice([0.5, 1.0, 2.0]), rng.choice([0.5, 1.0, 3.0])
        if typ == "Disk":
            s1, half = ("Disk", c, r, np.ascontiguousarray(ax)), 0.0
        elif typ == "Ellipse":
            s1, half = ("Ellipse", c, np.ascontiguousarray(R[:, :2].T), np.array([r, 0.5 * r])), 0.0
        elif typ == "Cylinder":
            s1, half = ("Cylinder", A.copy(), r, h), 0.5 * h
        elif typ == "Capsule":
            s1, half = ("Capsule", A.copy(), r, h), 0.5 * h + r
        elif typ == "Cone":
            s1, half = ("Cone", A.copy(), r, h), h
        elif typ == "Box":
            s1, half = ("Box", A.copy(), np.array([r, 0.7 * r, h])), 0.5 * h
        else:
            s1, half = ("Ellipsoid", A.copy(), np.array([r, 0.6 * r, h])), h
        rs = rng.choice([0.3, 1.0])
        for gap in ((0.5, 0.0) if _k % 2 else (1e-3, -0.2)):
            centre_other = c + ax * (half + rs + gap)
            out.append(("face-on-tilted", s1, ("Sphere", centre_other, rs), False))
            out.append(("face-on-tilted", ("Sphere", centre_other, rs), s1, False))
    # meshes whose vertex array carries a point no triangle references (index 0, inside the cube near a corner and outside
    # the hull of the six axis-extreme vertices), approached from that corner: the very first support query must cope
    from scipy.spatial import ConvexHull
    cube = np.array([[x, y, z] for x in (-1, 1) for y in (-1, 1) for z in (-1, 1)], dtype=float)
    ctri = np.asarray(ConvexHull(cube).simplices, dtype=int) + 1
    for kk in range(8):
        verts = np.ascontiguousarray(np.vstack((0.9 * cube[kk], cube)) * 0.5)
        mesh = ("MeshGraph", I.copy(), verts, ctri.copy())
        other = ("Sphere", cube[kk] * rng.choice([0.8, 1.2, 2.0]), 0.4)
        out.append(("mesh-unreferenced-vertex", mesh, other, False))
        out.append(("mesh-unreferenced-vertex", other, mesh, False))
    # parallel axial shapes on a lattice (exact ties of the sub-simplex selection)
    for _k in range(24):
        def lat_pose():
            P = np.eye(4)
            P[:3, 3] = [rng.choice([-1.0, -0.5, 0.0, 0.5, 1.0]) for _ in range(3)]
            return P
        mk = lambda: (rng.choice(["Capsule", "Cylinder"]), lat_pose(), rng.choice([0.5, 1.0]), rng.choice([0.5, 1.0, 2.0]))  # noqa
        out.append(("parallel-axial-lattice", mk(), mk(), False))
    # the same special scenes away from the origin (a common translation keeps every relative placement exact when
    # the offset is dyadic, and adds rounding in the support points when it is not)
    moved = []
    for (label, s1, s2, same) in out:
        if same:
            continue
        off = np.array([0.3, -1.7, 2.2]) if rng.random() < 0.5 else np.array([rng.choice([-64.0, 8.0, 0.5, 512.0]) for _ in range(3)])
        moved.append((label + "+offset", scenes.translate(s1, off), scenes.translate(s2, off), False))
    out += moved
    while len(out) < n:
        lattice = rng.random() < 0.5
        s1 = scenes.collider_spec(rng, lattice, margin_prob=0.15)
        r = rng.random()
        if r < 0.2:
            out.append(("identical-object", s1, s1, True))
        elif r < 0.35:
            out.append(("equal-copy", s1, s1, False))
        else:
            s2 = scenes.collider_spec(rng, lattice, margin_prob=0.15, scale=rng.choice([0.05, 1.0, 1.0, 20.0]))
            s2 = scenes.translate(s2, scenes.vec(rng, lattice, rng.choice([0.0, 1.0, 3.0])))
            out.append(("random", s1, s2, False))
    return out[:n]


# ------------------------------------------------------------------ entry points
def entry_points():
    from distance3d import gjk, mpr, epa
    eps = [
        ("gjk_distance_jolt", lambda a, b: gjk.gjk_distance_jolt(a, b)),
        ("gjk_intersection_jolt", lambda a, b: gjk.gjk_intersection_jolt(a, b)),
        ("gjk_intersection_libccd", lambda a, b: gjk.gjk_intersection_libccd(a, b)),
        ("gjk_distance_original", lambda a, b: gjk.gjk_distance_original(a, b)),
        ("gjk_nesterov_accelerated_distance", lambda a, b: gjk.gjk_nesterov_accelerated_distance(a, b)),
        ("gjk_nesterov_accelerated_intersection", lambda a, b: gjk.gjk_nesterov_accelerated_intersection(a, b)),
        ("gjk_nesterov_accelerated(accel)", lambda a, b: gjk.gjk_nesterov_accelerated(a, b, use_nesterov_acceleration=True)[:2]),
        ("mpr_intersection", lambda a, b: mpr.mpr_intersection(a, b)),
        ("mpr_penetration", lambda a, b: mpr.mpr_penetration(a, b)),
    ]
    prim = [
        ("gjk_nesterov_accelerated_primitives_distance", lambda a, b: gjk.gjk_nesterov_accelerated_primitives_distance(a, b)),
        ("gjk_nesterov_accelerated_primitives_intersection", lambda a, b: gjk.gjk_nesterov_accelerated_primitives_intersection(a, b)),
        ("gjk_nesterov_accelerated_primitives(accel)",
         lambda a, b: gjk.gjk_nesterov_accelerated_primitives(a, b, use_nesterov_acceleration=True)[:2]),
    ]

    def epa_ep(a, b):
        dist, _, _, simplex = gjk.gjk_distance_jolt(a, b)
        if simplex is None or dist > 0.0:
            return None
        mtv, faces, success = epa.epa(simplex, a, b)
        return (mtv, success)
    return eps, prim, ("epa", epa_ep)


PRIM_TYPES = {"Sphere", "Capsule", "Box", "Ellipsoid", "Cylinder"}


def classify_finding(ep, label, s1, s2, status, c1=None, c2=None):
    """attach a known-finding id only when the failure is exactly that defect"""
    if ep == "epa" and status in ("nonfinite", "assert") and c1 is not None:
        # F-epa-incomplete-simplex: GJK left the loop with fewer than 4 simplex points (e.g. identical or deeply
        # nested shapes: |v| = 0 after the first support point); rows n_points..3 of the returned simplex are
        # np.empty garbage and EPA builds its initial tetrahedron from them
        try:
            recs = record_jolt(c1, c2, "distance")
            if recs and recs[-1]["state"] == "Intersection" and (recs[-1]["n_after"] or 0) < 4:
                return "F-epa-incomplete-simplex"
            if status == "assert":
                # F-epa-capacity (same defect as C07's): with a complete simplex the capacity assertion fires on
                # deeply overlapping polytopes; confirmed by a rerun with a large capacity that returns normally
                from distance3d import gjk, epa
                dist, _, _, simplex = gjk.gjk_distance_jolt(c1, c2)
                mtv, faces, success = epa.epa(simplex, c1, c2, max_iter=1024, max_loose_edges=512, max_faces=4096)
                if finite(mtv):
                    return "F-epa-capacity"
        except Exception:  # noqa
            pass
    return None


def run_scene(ctx, label, s1, s2, same):
    eps, prim, epa_ep = entry_points()
    c1 = scenes.build(s1)
    c2 = c1 if same else scenes.build(s2)
    t1, t2 = base_type(s1), base_type(s2)
    todo = list(eps) + [epa_ep]
    if s1[0] in PRIM_TYPES and s2[0] in PRIM_TYPES:
        todo += prim
    args = {"label": label, "c1": scenes.spec_json(s1), "c2": scenes.spec_json(s2), "same_object": same}
    for name, fn in todo:
        if ctx.extra.get("hangs", 0) >= 3:
            ctx.notes.append("3 hangs seen: remaining calls of this run skipped")
            return
        # every entry point gets freshly constructed colliders (a cached hill-climbing start vertex left behind by an
        # earlier query would hide what the FIRST query of a new object does)
        c1 = scenes.build(s1)
        c2 = c1 if same else scenes.build(s2)
        status, res, n = guarded(fn, c1, c2)
        if status == "hang":
            ctx.extra["hangs"] = ctx.extra.get("hangs", 0) + 1
        key = (name, label, repr(args["c1"])[:200], repr(args["c2"])[:200])
        ctx.count("proxy:" + name, key=key, nontrivial=(status == "ok"),
                  sample={"entry": name, "label": label, "types": [t1, t2], "evals": n})
        ctx.branch("outcome", name + ":" + status)
        mx = ctx.extra.setdefault("max_support_evaluations", {})
        mx[name] = max(mx.get(name, 0), n)
        a = dict(args, entry=name)
        if status == "hang":
            ctx.fail(name, a, "no return within %d s (%d support evaluations so far)" % (WATCHDOG_S, n),
                     "returns within a bounded number of iterations", "watchdog",
                     finding=classify_finding(name, label, s1, s2, status))
            continue
        if status == "assert":
            # a Margin wrapper rounds every edge and vertex: the wrapped shape is smooth
            smooth = (t1 in SMOOTH or t2 in SMOOTH or s1[0] == "Margin" or s2[0] == "Margin")
            if name == "epa" and smooth:
                ctx.branch("outcome", "epa:capacity-assert(smooth)")
                continue
            ctx.fail(name, a, "AssertionError: %s" % res, "no exception except EPA's capacity assertion for smooth shapes",
                     "exception check", finding=classify_finding(name, label, s1, s2, status, c1, c2))
            continue
        if status.startswith("exc:"):
            ctx.fail(name, a, "%s: %s" % (status[4:], res), "no exception", "exception check",
                     finding=classify_finding(name, label, s1, s2, status))
            continue
        if n > MAX_EVALS:
            ctx.fail(name, a, "%d support evaluations" % n, "<= %d support evaluations" % MAX_EVALS, "counting proxy",
                     finding=classify_finding(name, label, s1, s2, "evals"))
        out = res
        if name in ("gjk_distance_jolt", "gjk_distance_original") and res is not None:
            out = res[:3]         # distance and the two points; the simplex array has unused (np.empty) rows
            if res[0] >= 1e300:   # documented MAX_FLOAT clip
                out = None
        if not finite(out):
            ctx.fail(name, a, "non-finite output %s" % (str(out)[:200],), "finite outputs", "finiteness check",
                     finding=classify_finding(name, label, s1, s2, "nonfinite", c1, c2))


def self_collision_scene(ctx):
    from pytransform3d.urdf import UrdfTransformManager
    import distance3d.broad_phase
    from distance3d import self_collision
    data_dir = os.path.join(core.REPO, "test", "data")
    fn = os.path.join(data_dir, "robot.urdf")
    if not os.path.exists(fn):
        ctx.notes.append("robot.urdf fixture missing: self-collision entry points skipped")
        return
    tm = UrdfTransformManager()
    tm.load_urdf(open(fn).read(), mesh_path=data_dir)
    bvh = distance3d.broad_phase.BoundingVolumeHierarchy(tm, "robot_arm")
    bvh.fill_tree_with_colliders(tm, make_artists=False, fill_self_collision_whitelists=True)
    for q in ([0, 0, 0], [1.57, 1.57, 2.05], [1.57, 1.57, 1.93], [ctx.rng.uniform(-2, 2) for _ in range(3)]):
        for j, v in zip(("joint2", "joint3", "joint5"), q):
            tm.set_joint(j, v)
        bvh.update_collider_poses()
        for name, fn_ in (("self_collision.detect", self_collision.detect), ("self_collision.detect_any", self_collision.detect_any)):
            status, res, n = guarded(fn_, bvh)
            ctx.count("proxy:" + name, key=(name, tuple(q)), sample={"entry": name, "q": q, "evals": n})
            ctx.branch("outcome", name + ":" + status)
            nframes = max(1, len(bvh.colliders_))
            if status != "ok":
                ctx.fail(name, {"q": q}, "%s %s" % (status, res), "returns", "watchdog/exception check")
            elif n > MAX_EVALS * nframes * nframes:
                ctx.fail(name, {"q": q}, "%d support evaluations" % n, "<= 1000 per narrow-phase pair", "counting proxy")


# ------------------------------------------------------------------ correspondence: recorded Jolt traces
def record_jolt(c1, c2, which):
    """run the Jolt loop on (c1, c2) with recording wrappers; returns the per-iteration observations and the
    observed exit state / iteration count"""
    from distance3d.gjk import _gjk_jolt as J
    recs = []
    orig_solver = J.get_closest_point_to_origin
    last = {}

    def solver(Y, n, prev):
        r = orig_solver(Y, n, prev)
        last["r"] = r
        last["Y"] = np.array(Y[:n])
        return r

    if which == "distance":
        orig = J._distance_loop

        def loop(p, q, Y, P, Q, n_points, tolerance_sq, prev, v, sd, maxd):
            dot = float(np.dot(sd, p - q))
            last.clear()
            out = orig(p, q, Y, P, Q, n_points, tolerance_sq, prev, v, sd, maxd)
            recs.append({"dot": dot, "prev": float(prev), "v": float(v), "solver": last.get("r"),
                         "state": out[0].name, "n_after": out[1], "Y": np.array(Y), "tolerance_sq": tolerance_sq,
                         "maxd": maxd})
            return out
        J._distance_loop, J.get_closest_point_to_origin = loop, solver
        try:
            J.gjk_distance_jolt(c1, c2)
        finally:
            J._distance_loop, J.get_closest_point_to_origin = orig, orig_solver
    else:
        orig = J._intersection_loop

        def loop(p, q, Y, n_points, tolerance_sq, prev, sd):
            dot = float(np.dot(sd, p - q))
            last.clear()
            out = orig(p, q, Y, n_points, tolerance_sq, prev, sd)
            recs.append({"dot": dot, "prev": float(prev), "solver": last.get("r"), "state": out[0].name,
                         "n_after": out[1], "Y": np.array(Y), "tolerance_sq": tolerance_sq})
            return out
        J._intersection_loop, J.get_closest_point_to_origin = loop, solver
        try:
            J.gjk_intersection_jolt(c1, c2)
        finally:
            J._intersection_loop, J.get_closest_point_to_origin = orig, orig_solver
    return recs


def max_y(rec, which):
    Y = rec["Y"]
    r = rec["solver"]
    if r is None or not r[0]:
        return 0.0
    bits = r[3]
    rows = [Y[i] for i in range(4) if bits & (1 << i)]
    # after update_simplex the kept rows are compacted to the front: n_after rows of the array as it is now
    n = rec["n_after"] if rec["n_after"] is not None else len(rows)
    if rec["state"] in ("Intersection",) and r[3] == 0xf:
        return 0.0
    return max(float(np.dot(Y[i], Y[i])) for i in range(max(1, n))) if which == "distance" else \
        max(float(np.dot(x, x)) for x in rows) if rows else 0.0


def correspondence(ctx):
    from distance3d.utils import EPSILON
    drv = core.Driver("c19-trace")
    plan = []
    n = ctx.budget(330, 2500)
    for label, s1, s2, same in degenerate_scenes(ctx.rng, n):
        c1 = scenes.build(s1)
        c2 = c1 if same else scenes.build(s2)
        for which in ("distance", "intersection"):
            if ctx.extra.get("hangs", 0) >= 3:
                continue
            status, recs, _ = guarded(record_jolt, c1, c2, which)
            if status == "hang":
                ctx.extra["hangs"] = ctx.extra.get("hangs", 0) + 1
                ctx.fail("gjk_%s_jolt" % which, {"label": label, "c1": scenes.spec_json(s1), "c2": scenes.spec_json(s2),
                                                 "same_object": same, "entry": "gjk_%s_jolt" % which},
                         "no return within %d s" % WATCHDOG_S, "returns within a bounded number of iterations", "watchdog")
                continue
            if status != "ok":   # exceptions are the oracle's business
                continue
            if not recs:
                continue
            toks = []
            ambiguous = False
            for r in recs:
                s = r["solver"]
                succ = bool(s is not None and s[0])
                vnew = float(s[2]) if succ else 0.0
                full = bool(succ and s[3] == 0xf)
                my = max_y(r, which)
                toks += [f2h(r["dot"]), "1" if succ else "0", f2h(vnew), "1" if full else "0", f2h(my)]
            tol = recs[0]["tolerance_sq"]
            if which == "distance":
                args = [f2h(EPSILON), f2h(tol), f2h(recs[0]["maxd"]), f2h(recs[0]["prev"]), f2h(recs[0]["v"]),
                        str(len(recs))] + toks
                cid = drv.add("C19.distrun", "F", args)
            else:
                args = [f2h(EPSILON), f2h(tol), f2h(recs[0]["prev"]), str(len(recs))] + toks
                cid = drv.add("C19.interrun", "F", args)
            plan.append((cid, which, label, recs, s1, s2, ambiguous))
    out = drv.run()
    for cid, which, label, recs, s1, s2, amb in plan:
        want = "ok %s %d" % (recs[-1]["state"], len(recs))
        got = out.get(cid, "missing")
        ctx.count("trace:" + which, key=(which, label, repr(scenes.spec_json(s1))[:200], repr(scenes.spec_json(s2))[:200]),
                  nontrivial=len(recs) >= 2, sample={"loop": which, "label": label, "iterations": len(recs),
                                                     "exit": recs[-1]["state"]})
        ctx.branch(which + "-exit", recs[-1]["state"])
        ctx.branch(which + "-iterations", min(len(recs), 12))
        if got != want:
            ctx.broke("correspondence", "_%s_loop exit logic" % which,
                      "implementation: %s; model replay of the same observations: %s" % (want, got),
                      {"c1": scenes.spec_json(s1), "c2": scenes.spec_json(s2), "label": label})
    # caps: the formulas proved in Lean vs the counting proxy are compared in search()


def cap_formulas():
    import gen_constants
    consts = {n: v for n, v, _ in gen_constants.collect()}
    lib = consts.get("gjk__gjk_libccd__gjk_intersection_libccd__max_iterations", 100)
    mpi = consts.get("mpr__mpr_intersection__max_iterations", 100)
    mpp = consts.get("mpr__mpr_penetration__max_iterations", 100)
    ne = consts.get("gjk__gjk_nesterov_accelerated__gjk_nesterov_accelerated__max_interations", 128)
    nep = consts.get("gjk__gjk_nesterov_accelerated_primitives__gjk_nesterov_accelerated_primitives__max_interations", 128)
    ep = consts.get("epa__epa__max_iter", 64)
    return {"gjk_intersection_libccd": 2 * lib,
            # one extra pass: the pass that switches the acceleration off does not increment i
            "gjk_nesterov_accelerated_distance": 2 * (ne + 1), "gjk_nesterov_accelerated_intersection": 2 * (ne + 1),
            "gjk_nesterov_accelerated(accel)": 2 * (ne + 1),
            "gjk_nesterov_accelerated_primitives_distance": 2 * (nep + 1),
            "gjk_nesterov_accelerated_primitives_intersection": 2 * (nep + 1),
            "gjk_nesterov_accelerated_primitives(accel)": 2 * (nep + 1)}


# the scene on which gjk.gjk never returned before repair e900ae9 (found by the C09 search): the mesh support call
# for the direction GJK converges to (orthogonal to the closest face) went round that face forever
REGRESSION_SCENES = [
    ("regression:F-mesh-hill-climb-cycle",
     ("Ellipse", np.array([41.7135882613145, -15.480147820908677, -33.563979143418734]),
      np.array([[-0.41146057898001565, -0.5335595824812993, 0.7389278475519865],
                [-0.7990701653127203, 0.6011392653306755, -0.01088368433930581]]),
      np.array([5.175783394342907, 0.6909119916861448])),
     ("MeshGraph", np.array([[-0.10966894913031311, 0.6324592283517531, -0.7667907446424727, 19.28351920246887], [-0.6628226925221764, 0.5283434976440056, 0.5305838546120218, 4.759683153429734], [0.7407015592492736, 0.5664348797258196, 0.36126545248015485, -28.008247653780774], [0.0, 0.0, 0.0, 1.0]]),
      np.array([[-3.78512628971234, -16.601875570384927, 16.88597561025981], [-9.607604402191436, -17.408859556673708, 12.501779876495267], [-0.7345686878099724, -13.801944192192568, -21.587406053314755], [-24.40967886124935, 11.66998012168632, 1.4264037689047169], [10.395744034613372, -14.241016995489666, 18.402034053525597], [-23.97498950318238, 11.830048091421386, -3.8468143259886034], [21.494978728017855, 0.7137184386945459, -19.939179490073027], [26.673365097695786, 8.183461355926632, -5.239724659398261]]),
      np.array([[4, 7, 3], [4, 2, 1], [6, 4, 7], [6, 4, 2], [0, 1, 3], [0, 4, 3], [0, 4, 1], [5, 6, 2], [5, 1, 3], [5, 2, 1], [5, 7, 3], [5, 6, 7]], dtype=int)), False),    # mpr_penetration returned position = [nan, nan, nan] before repair 045c18e (found by the thorough C08 search): exactly
    # touching box / 4-vertex mesh; _discover_portal runs into its iteration cap (100 passes) and leaves a portal with a
    # repeated vertex, both barycentric weight sums of _contact_position vanish -> 0/0 (F-mpr-degenerate-portal-nan)
    ("regression:F-mpr-degenerate-portal-nan",
     ("Box", np.array([[0.9639938490441047, -0.2548393455649372, 0.07597872700411926, 0.0], [-0.25563271992775277, -0.9667736868329475, 0.0007422599072390498, 0.0], [0.07326507699764648, -0.02013818262568169, -0.9971091625760262, 0.0], [0.0, 0.0, 0.0, 1.0]]), np.array([0.07597102087503584, 0.033133629372878046, 0.04656290193520898])),
     ("MeshGraph", np.array([[0.6983645544100368, 0.6382316045719925, 0.3239558119082457, 0.214889105801495], [-0.46904793457305294, 0.06621869929583912, 0.8806867314410503, -0.03161156852092972], [0.5406301732389933, -0.7669912012461599, 0.34560600833108945, -0.16198327630606535], [0.0, 0.0, 0.0, 1.0]]),
      np.array([[-0.13976063647222456, 0.0012673518799645475, 0.15453231058425626], [-0.1866220073105435, -0.10435528999031593, 0.21304289873168133], [-0.038754085013119804, -0.25413833134607755, 0.041503401495859196], [0.2558050476495335, 0.020557058567527004, -0.10488471710539338]]),
      np.array([[2, 3, 1], [0, 1, 3], [0, 2, 1], [0, 3, 2]], dtype=int)), False),
]


def search(ctx):
    COUNTER.install()
    for label, s1, s2, same in REGRESSION_SCENES:     # fixed findings first
        run_scene(ctx, label, s1, s2, same)
    n = ctx.budget(330, 2500) * (3 if ctx.extra.get("search_boost") else 1)
    for label, s1, s2, same in degenerate_scenes(ctx.rng, n):
        if ctx.extra.get("hangs", 0) >= 3:
            break
        run_scene(ctx, label, s1, s2, same)
    if ctx.extra.get("hangs", 0) < 3:
        self_collision_scene(ctx)
    # observed counts never exceed the bounds proved from the caps
    formulas = cap_formulas()
    ctx.extra["cap_bounds"] = formulas
    for name, bound in formulas.items():
        seen = ctx.extra.get("max_support_evaluations", {}).get(name, 0)
        if seen > bound:
            ctx.broke("correspondence", "support evaluations of " + name,
                      "counting proxy saw %d evaluations, the formula proved in Lean allows %d" % (seen, bound), None)


def replay(ctx, payload):
    a = payload.get("args") or {}
    if "c1" not in a:
        print("replay file names no scene:", payload.get("broken"))
        return False
    COUNTER.install()
    s1, s2 = scenes.spec_from_json(a["c1"]), scenes.spec_from_json(a["c2"])
    before = len(ctx.failing)
    run_scene(ctx, a.get("label", "replay"), s1, s2, bool(a.get("same_object")))
    for f in ctx.failing[before:]:
        print("FAIL", f["function"], f["observed"])
    return len(ctx.failing) == before
