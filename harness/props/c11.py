"""C11 — global optimality of the 34 functions of distance3d.distance.

search(): independent reference minimum distance for every pair type (feature enumeration for
polytope-like pairs, clipped windows for lines/planes, dense 1-D search with local polish for
circle / disk pairs, bisection for the ellipsoid).  A violation is flagged only with a
certificate: (a) a pair of points, each verified to lie on its primitive within 1e-9*L, that is
closer than d - tol*L, or (b) for convex pairs a separating plane (weak duality) proving that d
is smaller than the true distance by more than tol*L.  Both can be re-checked by hand from the
replay file.

correspondence(): the Lean model of the polygon / solid family (point_to_triangle, _rectangle,
_box, _disk, _cylinder, _circle, line_to_triangle, line_segment_to_triangle) against the
implementation; lattice stream in exact rational arithmetic (Q), general stream at Float.
"""
import math
from fractions import Fraction

import numpy as np

import core
from core import f2h, q2s

RULE = ("per function of distance3d.distance.__all__ (34): pairs of primitives of the declared domain P "
        "(feature sizes in [0.2, 1e2], default epsilons) from one PRNG; lattice stream = dyadic coordinates, "
        "signed axis permutations and 3-4-5 rotations, offsets chosen to be exactly parallel / perpendicular / "
        "coplanar / touching / contained / coincident; general stream = random poses, log-uniform sizes, second "
        "primitive placed at a random gap (overlapping .. far) from the first; inputs with a direction cosine "
        "between characteristic directions of the two primitives strictly inside (0, 1e-2) of parallel or "
        "perpendicular are rejected (the property's excluded epsilon bands; no exclusion for point_to_circle, whose "
        "band is closed by a theorem); a case is non-trivial when the two primitives "
        "are not the identity-pose fixture; distinct = distinct (function, rounded arguments)")
EXPLANATION = ("f_opt / f_mem / f_dist are Lean theorems for point_to_triangle (all seven Voronoi regions), "
               "point_to_rectangle, point_to_box, point_to_disk, point_to_cylinder and point_to_circle on the faithful "
               "model; this run compared that model with the implementation (lattice: exact rationals, general: Float) "
               "and searched all 34 functions for a strictly closer verified pair of points or a separating-plane "
               "certificate contradicting the returned distance")
PARTIAL = {
    "line_to_triangle_opt (closed outside the parallel band)":
        "D3/Properties/C11LineTriangle.lean: line_to_triangle_opt and the unconditional line_segment_to_triangle_opt "
        "hold outside the nearly-parallel tolerance band, for edges with |edge|^2 >= epsilon; line_to_triangle_feasible "
        "and line_to_triangle_opt_within_epsilon hold for every input; line_to_triangle_band_asIs_counterexample shows "
        "the band hypothesis is necessary",
    "line_segment_to_triangle_opt (closed, same band)":
        "now unconditional given line_to_triangle_opt (C11LineTriangle.line_segment_to_triangle_opt): same band "
        "hypothesis, nothing else assumed",
    "point_to_circle_opt": "exact optimality / membership: hypotheses exclude the band 0 < |dip|^2 < epsilon^2 (code as of /repo "
                           "0e4a1a6) and pytransform3d's band 0 < |n.z| < 1e-7 (there the returned point leaves the circle "
                           "plane). The band is closed for the property's tolerance by point_to_circle_opt_within_epsilon "
                           "(every input: no circle point closer than d - epsilon, epsilon = 1e-6 <= 1e-6*L). The pre-fix "
                           "code is kept as pointToCircle_asIs_before_fix with pointToCircle_asIs_before_fix_counterexample",
    "other 26 functions": "no theorem in this vertical: the line/plane family is proved by the C10 vertical "
                          "(D3/Model/DistLine.lean); polygon-pair enumerations (triangle_to_triangle, triangle_to_rectangle, "
                          "rectangle_to_rectangle, rectangle_to_box, line/segment_to_rectangle, line/segment_to_box), the "
                          "iterative ones (line_to_circle, line_segment_to_circle, disk_to_disk, point_to_ellipsoid) and "
                          "plane_to_{ellipsoid,cylinder} are covered by the certificate search only",
}
ASSUMPTIONS = ["exact-real semantics of the model (float rounding not modelled)",
               "pytransform3d.rotations.perpendicular_to_vector is modelled from its source (threshold 1e-7), not regenerated"]
TRUSTED = ["modelled functions: point_to_triangle, point_to_rectangle, point_to_box (+inverse_transform_point), "
           "point_to_disk, point_to_cylinder, point_to_circle (+norm_vector, perpendicular_to_vector), _line_to_triangle, "
           "line_to_triangle, line_segment_to_triangle (+plane_basis_from_normal, convert_segment_to_line, "
           "_line_to_line_segment)",
           "oracle of the search: python reference solvers below; they can only produce certificates that are "
           "re-verified (membership within 1e-9*L, recomputed distance), so an oracle bug cannot cause a false alarm"]

MANIFEST = dict(
    text=("Lean theorems f_opt/f_mem/f_dist (result .ok, closest point in the set, d>=0, d^2=|p-cp|^2, no point of the set "
          "closer than d) for point_to_triangle (7 regions), point_to_rectangle, point_to_box, point_to_disk, "
          "point_to_cylinder, point_to_circle (outside its epsilon band; counterexample theorem inside it) on the faithful "
          "model; model compared with the implementation on lattice (exact) and general (Float) inputs; all 34 functions "
          "searched for a verified closer pair / separating-plane certificate. " 
          "Link theorems (regenerated from today's source by py2lean on every run, D3/Gen/Link11.lean) tie point_to_box, point_to_disk and utils.inverse_transform_point to the model for every input. "),
    note=("trusted: Lean kernel + Mathlib, axioms propext/Classical.choice/Quot.sound; exact-real semantics; correspondence "
          "harness (sampling); 26 functions are covered by the certificate search only; known findings listed in "
          "known_findings.d/C11.json."),
    technique="Lean 4 proof (variational inequality) on hand-written model + correspondence + certificate search + py2lean-regenerated kernels linked to the model by theorem",
    design="§7 C11")

TOL_REL = 1e-6
TOL_LINE_CIRCLE = 5e-3
MEMBER_TOL = 1e-9
# float noise of the oracle's own arithmetic (recomputed |x1 - x2|, support values): a certificate must beat the
# property's tolerance by more than this, so that an exact tie (error == tol up to the last bit) is not flagged
NOISE = 1e-12
BAND = 1e-2


# =====================================================================================
# small vector helpers
# =====================================================================================
def A(x):
    return np.asarray(x, dtype=float)


def nrm(v):
    return float(np.sqrt(np.dot(v, v)))


def unit(v):
    n = nrm(v)
    return v / n if n > 0 else v


def any_perp(n):
    n = A(n)
    k = int(np.argmin(np.abs(n)))
    e = np.zeros(3)
    e[k] = 1.0
    u = np.cross(n, e)
    u = unit(u)
    v = np.cross(n, u)
    return u, unit(v)


# =====================================================================================
# primitives
# =====================================================================================
class Prim:
    """kind + parameters (all numpy float arrays / floats)"""

    def __init__(self, kind, **kw):
        self.kind = kind
        self.p = kw
        self.frame = None       # (R, half sizes) when built by make_prim: used to place lattice points

    # ---- arguments for the library call
    def args(self):
        k, p = self.kind, self.p
        if k == "point":
            return [p["x"].copy()]
        if k == "line":
            return [p["x"].copy(), p["d"].copy()]
        if k == "segment":
            return [p["s"].copy(), p["e"].copy()]
        if k == "plane":
            return [p["x"].copy(), p["n"].copy()]
        if k == "triangle":
            return [np.ascontiguousarray(p["v"].copy())]
        if k == "rectangle":
            return [p["c"].copy(), np.ascontiguousarray(p["axes"].copy()), p["l"].copy()]
        if k in ("circle", "disk"):
            return [p["c"].copy(), float(p["r"]), p["n"].copy()]
        if k == "box":
            return [np.ascontiguousarray(p["T"].copy()), p["size"].copy()]
        if k == "ellipsoid":
            return [np.ascontiguousarray(p["T"].copy()), p["radii"].copy()]
        if k == "cylinder":
            return [np.ascontiguousarray(p["T"].copy()), float(p["r"]), float(p["l"])]
        raise ValueError(k)

    def to_json(self):
        return {"kind": self.kind, **{k: (v.tolist() if isinstance(v, np.ndarray) else float(v))
                                      for k, v in self.p.items()}}

    @staticmethod
    def from_json(d):
        d = dict(d)
        kind = d.pop("kind")
        return Prim(kind, **{k: (A(v) if isinstance(v, list) else float(v)) for k, v in d.items()})

    # ---- geometry
    def center(self):
        k, p = self.kind, self.p
        if k in ("point", "line", "plane"):
            return p["x"]
        if k == "segment":
            return 0.5 * (p["s"] + p["e"])
        if k == "triangle":
            return p["v"].mean(axis=0)
        if k in ("rectangle", "circle", "disk"):
            return p["c"]
        return p["T"][:3, 3]

    def radius(self):
        """radius of a ball around center() containing the bounded primitive (0 for unbounded kinds)"""
        k, p = self.kind, self.p
        if k in ("point", "line", "plane"):
            return 0.0
        if k == "segment":
            return 0.5 * nrm(p["e"] - p["s"])
        if k == "triangle":
            c = self.center()
            return max(nrm(v - c) for v in p["v"])
        if k == "rectangle":
            return 0.5 * nrm(p["l"])
        if k in ("circle", "disk"):
            return float(p["r"])
        if k == "box":
            return 0.5 * nrm(p["size"])
        if k == "ellipsoid":
            return float(max(p["radii"]))
        if k == "cylinder":
            return math.hypot(p["r"], 0.5 * p["l"])
        raise ValueError(k)

    def feature(self):
        """largest feature size"""
        k, p = self.kind, self.p
        if k in ("point", "line", "plane"):
            return 0.0
        if k == "segment":
            return nrm(p["e"] - p["s"])
        if k == "triangle":
            v = p["v"]
            return max(nrm(v[0] - v[1]), nrm(v[1] - v[2]), nrm(v[2] - v[0]))
        if k == "rectangle":
            return float(max(p["l"]))
        if k in ("circle", "disk"):
            return float(p["r"])
        if k == "box":
            return float(max(p["size"]))
        if k == "ellipsoid":
            return float(max(p["radii"]))
        if k == "cylinder":
            return float(max(p["r"], p["l"]))
        raise ValueError(k)

    def dirs(self):
        """characteristic unit directions (normals, axes, edge directions)"""
        k, p = self.kind, self.p
        if k == "point":
            return []
        if k == "line":
            return [p["d"]]
        if k == "segment":
            return [unit(p["e"] - p["s"])]
        if k == "plane":
            return [p["n"]]
        if k == "triangle":
            v = p["v"]
            e = [unit(v[1] - v[0]), unit(v[2] - v[1]), unit(v[0] - v[2])]
            return e + [unit(np.cross(v[1] - v[0], v[2] - v[0]))]
        if k == "rectangle":
            return [p["axes"][0], p["axes"][1], np.cross(p["axes"][0], p["axes"][1])]
        if k in ("circle", "disk"):
            return [p["n"]]
        if k in ("box", "ellipsoid"):
            return [p["T"][:3, 0], p["T"][:3, 1], p["T"][:3, 2]]
        if k == "cylinder":
            return [p["T"][:3, 2]]
        raise ValueError(k)

    def convex(self):
        return self.kind != "circle"

    # ---- membership (independent, definition level); returns the violation amount (<= tol is inside)
    def excess(self, x):
        k, p = self.kind, self.p
        x = A(x)
        if k == "point":
            return nrm(x - p["x"])
        if k == "line":
            d = x - p["x"]
            return nrm(d - np.dot(d, p["d"]) * p["d"])
        if k == "segment":
            d = p["e"] - p["s"]
            L = nrm(d)
            u = d / L
            t = np.dot(x - p["s"], u)
            perp = nrm((x - p["s"]) - t * u)
            return max(perp, -t, t - L)
        if k == "plane":
            return abs(np.dot(x - p["x"], p["n"]))
        if k == "triangle":
            v = p["v"]
            n = unit(np.cross(v[1] - v[0], v[2] - v[0]))
            off = abs(np.dot(x - v[0], n))
            q = x - np.dot(x - v[0], n) * n
            worst = off
            for i in range(3):
                a, b = v[i], v[(i + 1) % 3]
                inward = unit(np.cross(n, b - a))
                worst = max(worst, -np.dot(q - a, inward))
            return worst
        if k == "rectangle":
            d = x - p["c"]
            a0, a1 = p["axes"]
            n = np.cross(a0, a1)
            return max(abs(np.dot(d, n)), abs(np.dot(d, a0)) - 0.5 * p["l"][0], abs(np.dot(d, a1)) - 0.5 * p["l"][1])
        if k in ("circle", "disk"):
            d = x - p["c"]
            h = np.dot(d, p["n"])
            rho = nrm(d - h * p["n"])
            if k == "circle":
                return max(abs(h), abs(rho - p["r"]))
            return max(abs(h), rho - p["r"])
        if k == "box":
            q = p["T"][:3, :3].T.dot(x - p["T"][:3, 3])
            return float(np.max(np.abs(q) - 0.5 * p["size"]))
        if k == "ellipsoid":
            q = p["T"][:3, :3].T.dot(x - p["T"][:3, 3])
            s = nrm(q / p["radii"])
            # (s - 1) * smallest radius bounds the distance to the solid from below; use the largest
            # radius to stay on the safe (strict) side
            return (s - 1.0) * float(max(p["radii"]))
        if k == "cylinder":
            d = x - p["T"][:3, 3]
            a = p["T"][:3, 2]
            h = np.dot(d, a)
            rho = nrm(d - h * a)
            return max(abs(h) - 0.5 * p["l"], rho - p["r"])
        raise ValueError(k)

    # ---- support value max_{x in K} <n, x>  (convex kinds; +inf where unbounded)
    def support(self, n):
        k, p = self.kind, self.p
        n = A(n)
        if k == "point":
            return float(np.dot(n, p["x"]))
        if k == "line":
            return float(np.dot(n, p["x"])) if abs(np.dot(n, p["d"])) < 1e-13 else math.inf
        if k == "segment":
            return float(max(np.dot(n, p["s"]), np.dot(n, p["e"])))
        if k == "plane":
            c = np.cross(n, p["n"])
            return float(np.dot(n, p["x"])) if nrm(c) < 1e-13 else math.inf
        if k == "triangle":
            return float(max(np.dot(n, v) for v in p["v"]))
        if k == "rectangle":
            return float(np.dot(n, p["c"]) + 0.5 * p["l"][0] * abs(np.dot(n, p["axes"][0]))
                         + 0.5 * p["l"][1] * abs(np.dot(n, p["axes"][1])))
        if k == "disk":
            h = np.dot(n, p["n"])
            return float(np.dot(n, p["c"]) + p["r"] * nrm(n - h * p["n"]))
        if k == "box":
            q = p["T"][:3, :3].T.dot(n)
            return float(np.dot(n, p["T"][:3, 3]) + 0.5 * np.dot(np.abs(q), p["size"]))
        if k == "ellipsoid":
            q = p["T"][:3, :3].T.dot(n)
            return float(np.dot(n, p["T"][:3, 3]) + nrm(q * p["radii"]))
        if k == "cylinder":
            a = p["T"][:3, 2]
            h = np.dot(n, a)
            return float(np.dot(n, p["T"][:3, 3]) + 0.5 * p["l"] * abs(h) + p["r"] * nrm(n - h * a))
        raise ValueError(k)


# =====================================================================================
# reference closest-point sub-solvers (independent of the library and of the Lean model)
# =====================================================================================
def cp_segment(x, s, e):
    d = e - s
    dd = np.dot(d, d)
    if dd == 0.0:
        return s.copy()
    t = min(1.0, max(0.0, np.dot(x - s, d) / dd))
    return s + t * d


def cp_polygon(x, verts):
    """closest point of a planar convex polygon (vertices in order): project to the plane, inside test by
    edge half-planes, otherwise best of the edges"""
    n = np.cross(verts[1] - verts[0], verts[2] - verts[0])
    nn = np.dot(n, n)
    if nn > 0:
        q = x - (np.dot(x - verts[0], n) / nn) * n
        inside = True
        m = len(verts)
        for i in range(m):
            a, b = verts[i], verts[(i + 1) % m]
            if np.dot(np.cross(n, b - a), q - a) < 0:
                inside = False
                break
        if inside:
            return q
    best, bd = None, math.inf
    m = len(verts)
    for i in range(m):
        c = cp_segment(x, verts[i], verts[(i + 1) % m])
        d = nrm(x - c)
        if d < bd:
            best, bd = c, d
    return best


def cp_box(x, T, size):
    R, t = T[:3, :3], T[:3, 3]
    q = R.T.dot(x - t)
    h = 0.5 * size
    q = np.minimum(np.maximum(q, -h), h)
    return t + R.dot(q)


def cp_disk(x, c, r, n):
    d = x - c
    h = np.dot(d, n)
    q = d - h * n
    rho = nrm(q)
    if rho > r:
        q = q * (r / rho)
    return c + q


def cp_circle(x, c, r, n):
    d = x - c
    h = np.dot(d, n)
    q = d - h * n
    rho = nrm(q)
    if rho < 1e-300:
        u, _ = any_perp(n)
        return c + r * u
    return c + q * (r / rho)


def cp_cylinder(x, T, r, l):
    t, a = T[:3, 3], T[:3, 2]
    d = x - t
    h = np.dot(d, a)
    q = d - h * a
    rho = nrm(q)
    if rho > r:
        q = q * (r / rho)
    h = min(0.5 * l, max(-0.5 * l, h))
    return t + q + h * a


def cp_ellipsoid(x, T, radii):
    """closest point of the solid ellipsoid: bisection on the Lagrange multiplier (robust, not Newton)"""
    R, t = T[:3, :3], T[:3, 3]
    q = R.T.dot(x - t)
    if nrm(q / radii) <= 1.0:
        return x.copy()
    r2 = radii * radii

    def g(lam):
        y = r2 * q / (lam + r2)
        return float(np.sum((y / radii) ** 2)) - 1.0
    lo, hi = 0.0, float(max(radii) * nrm(q)) + 1.0
    while g(hi) > 0:
        hi *= 2.0
    for _ in range(200):
        mid = 0.5 * (lo + hi)
        if g(mid) > 0:
            lo = mid
        else:
            hi = mid
    lam = 0.5 * (lo + hi)
    y = r2 * q / (lam + r2)
    # pull exactly onto the surface along the ray from the centre (keeps it inside within rounding)
    y = y / max(1.0, nrm(y / radii))
    return t + R.dot(y)


def seg_seg(p1, q1, p2, q2):
    """closest points of two segments (standard clamped solution, all degenerate cases)"""
    d1, d2, r = q1 - p1, q2 - p2, p1 - p2
    a, e, f = np.dot(d1, d1), np.dot(d2, d2), np.dot(d2, r)
    if a == 0.0 and e == 0.0:
        return p1.copy(), p2.copy()
    if a == 0.0:
        return p1.copy(), cp_segment(p1, p2, q2)
    if e == 0.0:
        return cp_segment(p2, p1, q1), p2.copy()
    c, b = np.dot(d1, r), np.dot(d1, d2)
    denom = a * e - b * b
    cands = []
    if denom > 1e-14 * a * e:
        s = min(1.0, max(0.0, (b * f - c * e) / denom))
        cands.append(s)
    cands += [0.0, 1.0]
    best = None
    for s in cands:
        x1 = p1 + s * d1
        x2 = cp_segment(x1, p2, q2)
        x1b = cp_segment(x2, p1, q1)
        for (u, v) in ((x1, x2), (x1b, x2)):
            d = nrm(u - v)
            if best is None or d < best[0]:
                best = (d, u, v)
    for tt in (0.0, 1.0):
        x2 = p2 + tt * d2
        x1 = cp_segment(x2, p1, q1)
        d = nrm(x1 - x2)
        if d < best[0]:
            best = (d, x1, x2)
    return best[1], best[2]


def seg_polygon_hit(s, e, verts):
    """point where the segment crosses the planar convex polygon, or None"""
    n = np.cross(verts[1] - verts[0], verts[2] - verts[0])
    ds, de = np.dot(s - verts[0], n), np.dot(e - verts[0], n)
    if ds * de > 0 or ds == de:
        return None
    t = ds / (ds - de)
    x = s + t * (e - s)
    m = len(verts)
    for i in range(m):
        a, b = verts[i], verts[(i + 1) % m]
        if np.dot(np.cross(n, b - a), x - a) < 0:
            return None
    return x


# ---- polytope view -------------------------------------------------------------------
RECT_SIGNS = [(-1, -1), (1, -1), (1, 1), (-1, 1)]


def rect_verts(c, axes, l):
    return [c + 0.5 * sx * l[0] * axes[0] + 0.5 * sy * l[1] * axes[1] for sx, sy in RECT_SIGNS]


class Poly:
    """bounded convex polytope: vertices, edges (index pairs), faces (ordered vertex index lists), solid box"""

    def __init__(self, verts, edges, faces, box=None):
        self.v, self.e, self.f, self.box = verts, edges, faces, box

    def closest(self, x):
        if self.box is not None:
            return cp_box(x, *self.box)
        if self.f:
            return cp_polygon(x, [self.v[i] for i in self.f[0]])
        if self.e:
            return cp_segment(x, self.v[self.e[0][0]], self.v[self.e[0][1]])
        return self.v[0].copy()


def window_T(prim, other):
    """half-size of the window to which a line / plane is clipped against a bounded partner: the closest
    point of the unbounded primitive is the projection of a point of the partner, so the projection of the
    partner's bounding ball (plus margin) is enough"""
    return 1.5 * other.radius() + 1.0


def to_poly(prim, other):
    k, p = prim.kind, prim.p
    if k == "point":
        return Poly([p["x"]], [], [])
    if k == "segment":
        return Poly([p["s"], p["e"]], [(0, 1)], [])
    if k == "line":
        oc = other.center()
        t0 = np.dot(oc - p["x"], p["d"])
        T = window_T(prim, other)
        return Poly([p["x"] + (t0 - T) * p["d"], p["x"] + (t0 + T) * p["d"]], [(0, 1)], [])
    if k == "plane":
        oc = other.center()
        c = oc - np.dot(oc - p["x"], p["n"]) * p["n"]
        u, v = any_perp(p["n"])
        T = window_T(prim, other)
        vs = rect_verts(c, [u, v], A([2 * T, 2 * T]))
        return Poly(vs, [(0, 1), (1, 2), (2, 3), (3, 0)], [[0, 1, 2, 3]])
    if k == "triangle":
        return Poly([p["v"][0], p["v"][1], p["v"][2]], [(0, 1), (1, 2), (2, 0)], [[0, 1, 2]])
    if k == "rectangle":
        return Poly(rect_verts(p["c"], p["axes"], p["l"]), [(0, 1), (1, 2), (2, 3), (3, 0)], [[0, 1, 2, 3]])
    if k == "box":
        R, t, h = p["T"][:3, :3], p["T"][:3, 3], 0.5 * p["size"]
        vs = []
        for i in range(8):
            s = A([1 if i & 1 else -1, 1 if i & 2 else -1, 1 if i & 4 else -1])
            vs.append(t + R.dot(s * h))
        edges = [(i, j) for i in range(8) for j in range(i + 1, 8) if bin(i ^ j).count("1") == 1]
        faces = []
        for ax in range(3):
            for sgn in (0, 1):
                idx = [i for i in range(8) if ((i >> ax) & 1) == sgn]
                a, b = [k2 for k2 in range(3) if k2 != ax]
                # order around the face
                idx.sort(key=lambda i: [(0, 0), (1, 0), (1, 1), (0, 1)].index(((i >> a) & 1, (i >> b) & 1)))
                faces.append(idx)
        return Poly(vs, edges, faces, box=(p["T"], p["size"]))
    raise ValueError(k)


def poly_pair(P, Q):
    """closest pair of two bounded convex polytopes by feature enumeration"""
    best = [math.inf, None, None]

    def upd(x, y):
        d = nrm(x - y)
        if d < best[0]:
            best[0], best[1], best[2] = d, x, y
    for v in P.v:
        upd(v, Q.closest(v))
    for w in Q.v:
        upd(P.closest(w), w)
    for (i, j) in P.e:
        for (k, m) in Q.e:
            x, y = seg_seg(P.v[i], P.v[j], Q.v[k], Q.v[m])
            upd(x, y)
    for (i, j) in P.e:
        for f in Q.f:
            x = seg_polygon_hit(P.v[i], P.v[j], [Q.v[t] for t in f])
            if x is not None:
                upd(x, x)
    for (i, j) in Q.e:
        for f in P.f:
            x = seg_polygon_hit(Q.v[i], Q.v[j], [P.v[t] for t in f])
            if x is not None:
                upd(x, x)
    return best[0], best[1], best[2]


POLY_KINDS = {"point", "segment", "line", "plane", "triangle", "rectangle", "box"}
UNBOUNDED = {"line", "plane"}


def golden(f, a, b, it=60):
    g = (math.sqrt(5) - 1) / 2
    c, d = b - g * (b - a), a + g * (b - a)
    fc, fd = f(c), f(d)
    for _ in range(it):
        if fc < fd:
            b, d, fd = d, c, fc
            c = b - g * (b - a)
            fc = f(c)
        else:
            a, c, fc = c, d, fd
            d = a + g * (b - a)
            fd = f(d)
    return 0.5 * (a + b)


def circle_search(cprim, closest_on_other, n_samples=720, keep=8):
    """dense 1-D global search over the circle parameter with local golden-section polish;
    closest_on_other(x) -> closest point of the other primitive to x.  Returns (d, x_circle, y_other)."""
    c, r, n = cprim.p["c"], cprim.p["r"], cprim.p["n"]
    u, v = any_perp(n)

    def pt(th):
        return c + r * (math.cos(th) * u + math.sin(th) * v)

    def f(th):
        x = pt(th)
        return nrm(x - closest_on_other(x))
    ths = np.linspace(0.0, 2 * math.pi, n_samples, endpoint=False)
    vals = np.array([f(t) for t in ths])
    step = 2 * math.pi / n_samples
    order = [i for i in range(n_samples)
             if vals[i] <= vals[(i - 1) % n_samples] and vals[i] <= vals[(i + 1) % n_samples]]
    order.sort(key=lambda i: vals[i])
    best = (math.inf, None, None)
    for i in order[:keep]:
        th = golden(f, ths[i] - step, ths[i] + step)
        for cand in (th, ths[i]):
            x = pt(cand)
            y = closest_on_other(x)
            d = nrm(x - y)
            if d < best[0]:
                best = (d, x, y)
    return best


def closest_on(prim, other_hint=None):
    """closest-point map x -> argmin_{y in prim} |x - y| for kinds with a closed form"""
    k, p = prim.kind, prim.p
    if k == "point":
        return lambda x: p["x"].copy()
    if k == "line":
        return lambda x: p["x"] + np.dot(x - p["x"], p["d"]) * p["d"]
    if k == "segment":
        return lambda x: cp_segment(x, p["s"], p["e"])
    if k == "plane":
        return lambda x: x - np.dot(x - p["x"], p["n"]) * p["n"]
    if k == "triangle":
        vs = [p["v"][0], p["v"][1], p["v"][2]]
        return lambda x: cp_polygon(x, vs)
    if k == "rectangle":
        vs = rect_verts(p["c"], p["axes"], p["l"])
        return lambda x: cp_polygon(x, vs)
    if k == "box":
        return lambda x: cp_box(x, p["T"], p["size"])
    if k == "disk":
        return lambda x: cp_disk(x, p["c"], p["r"], p["n"])
    if k == "circle":
        return lambda x: cp_circle(x, p["c"], p["r"], p["n"])
    if k == "cylinder":
        return lambda x: cp_cylinder(x, p["T"], p["r"], p["l"])
    if k == "ellipsoid":
        return lambda x: cp_ellipsoid(x, p["T"], p["radii"])
    raise ValueError(k)


def support_point(prim, n):
    """a point of the convex bounded primitive maximising <n, x>"""
    k, p = prim.kind, prim.p
    if k == "ellipsoid":
        R, t = p["T"][:3, :3], p["T"][:3, 3]
        q = R.T.dot(n) * p["radii"]
        s = nrm(q)
        if s == 0:
            return t.copy()
        return t + R.dot(p["radii"] * q / s)
    if k == "cylinder":
        t, a = p["T"][:3, 3], p["T"][:3, 2]
        h = np.dot(n, a)
        q = n - h * a
        x = t + (0.5 * p["l"] if h >= 0 else -0.5 * p["l"]) * a
        if nrm(q) > 0:
            x = x + p["r"] * unit(q)
        return x
    raise ValueError(k)


def reference_pair(P1, P2):
    """independent upper bound on the minimum distance with witness points: (d, x1, x2)"""
    k1, k2 = P1.kind, P2.kind
    # unbounded-unbounded: closed forms
    if k1 == "line" and k2 == "line":
        a, b = P1.p, P2.p
        n = np.cross(a["d"], b["d"])
        if nrm(n) < 1e-12:
            x1 = a["x"]
            return_x2 = closest_on(P2)(x1)
            return nrm(x1 - return_x2), x1.copy(), return_x2
        # solve a.x + s a.d + w n = b.x + t b.d
        M = np.column_stack([a["d"], -b["d"], n])
        s, t, _ = np.linalg.solve(M, b["x"] - a["x"])
        x1, x2 = a["x"] + s * a["d"], b["x"] + t * b["d"]
        return nrm(x1 - x2), x1, x2
    if {k1, k2} == {"line", "plane"}:
        ln, pl = (P1, P2) if k1 == "line" else (P2, P1)
        c = np.dot(ln.p["d"], pl.p["n"])
        if abs(c) < 1e-12:
            x = ln.p["x"].copy()
            y = closest_on(pl)(x)
        else:
            t = np.dot(pl.p["x"] - ln.p["x"], pl.p["n"]) / c
            x = ln.p["x"] + t * ln.p["d"]
            y = closest_on(pl)(x)
        return (nrm(x - y), x, y) if k1 == "line" else (nrm(x - y), y, x)
    if k1 == "plane" and k2 == "plane":
        a, b = P1.p, P2.p
        d = np.cross(a["n"], b["n"])
        if nrm(d) < 1e-12:
            x = a["x"].copy()
            y = closest_on(P2)(x)
            return nrm(x - y), x, y
        # a point on both planes
        M = np.vstack([a["n"], b["n"], d])
        rhs = A([np.dot(a["n"], a["x"]), np.dot(b["n"], b["x"]), np.dot(d, a["x"])])
        x = np.linalg.solve(M, rhs)
        return 0.0, x, x.copy()
    if k1 in POLY_KINDS and k2 in POLY_KINDS:
        return poly_pair(to_poly(P1, P2), to_poly(P2, P1))
    # round kinds
    if k1 == "point":
        x = P1.p["x"]
        y = closest_on(P2)(x)
        if k2 == "circle":
            d2, yc, _ = circle_search(P2, lambda z: x)
            if d2 < nrm(x - y):
                y = yc
        return nrm(x - y), x.copy(), y
    if k2 == "circle":
        d, y, x = circle_search(P2, closest_on(P1))
        return d, x, y
    if k1 == "plane" and k2 in ("ellipsoid", "cylinder"):
        n = P1.p["n"]
        ymax, ymin = support_point(P2, n), support_point(P2, -n)
        smax, smin = np.dot(ymax - P1.p["x"], n), np.dot(ymin - P1.p["x"], n)
        if smin <= 0 <= smax:
            t = 0.5 if smax == smin else (0 - smin) / (smax - smin)
            y = ymin + t * (ymax - ymin)
            x = closest_on(P1)(y)
            return nrm(x - y), x, y
        y = ymin if smin > 0 else ymax
        x = closest_on(P1)(y)
        return nrm(x - y), x, y
    if k1 == "disk" and k2 == "disk":
        c1 = Prim("circle", **P1.p)
        c2 = Prim("circle", **P2.p)
        d1, x1, y1 = circle_search(c1, closest_on(P2))
        d2, y2, x2 = circle_search(c2, closest_on(P1))
        cands = [(d1, x1, y1), (d2, x2, y2)]
        # centres (covers a small disk hovering over the interior of a large parallel one)
        for (xa, ya) in ((P1.p["c"], closest_on(P2)(P1.p["c"])), (closest_on(P1)(P2.p["c"]), P2.p["c"])):
            yb = closest_on(P2)(xa)
            xb = closest_on(P1)(yb)
            cands.append((nrm(xb - yb), xb, yb))
            cands.append((nrm(xa - ya), xa, ya))
        return min(cands, key=lambda t: t[0])
    raise ValueError((k1, k2))


# =====================================================================================
# the 34 functions
# =====================================================================================
FUNCS = {
    "point_to_line": ("point", "line"),
    "point_to_line_segment": ("point", "segment"),
    "point_to_plane": ("point", "plane"),
    "point_to_triangle": ("point", "triangle"),
    "point_to_rectangle": ("point", "rectangle"),
    "point_to_disk": ("point", "disk"),
    "point_to_circle": ("point", "circle"),
    "point_to_box": ("point", "box"),
    "point_to_ellipsoid": ("point", "ellipsoid"),
    "point_to_cylinder": ("point", "cylinder"),
    "line_to_line": ("line", "line"),
    "line_to_line_segment": ("line", "segment"),
    "line_to_plane": ("line", "plane"),
    "line_to_triangle": ("line", "triangle"),
    "line_to_rectangle": ("line", "rectangle"),
    "line_to_circle": ("line", "circle"),
    "line_to_box": ("line", "box"),
    "line_segment_to_line_segment": ("segment", "segment"),
    "line_segment_to_plane": ("segment", "plane"),
    "line_segment_to_triangle": ("segment", "triangle"),
    "line_segment_to_rectangle": ("segment", "rectangle"),
    "line_segment_to_circle": ("segment", "circle"),
    "line_segment_to_box": ("segment", "box"),
    "plane_to_plane": ("plane", "plane"),
    "plane_to_triangle": ("plane", "triangle"),
    "plane_to_rectangle": ("plane", "rectangle"),
    "plane_to_box": ("plane", "box"),
    "plane_to_ellipsoid": ("plane", "ellipsoid"),
    "plane_to_cylinder": ("plane", "cylinder"),
    "triangle_to_triangle": ("triangle", "triangle"),
    "triangle_to_rectangle": ("triangle", "rectangle"),
    "rectangle_to_rectangle": ("rectangle", "rectangle"),
    "rectangle_to_box": ("rectangle", "box"),
    "disk_to_disk": ("disk", "disk"),
}
# relative cost (library call + oracle) used to split the budget
WEIGHT = {"rectangle_to_box": 0.15, "rectangle_to_rectangle": 0.4, "triangle_to_rectangle": 0.4,
          "triangle_to_triangle": 0.5, "line_to_circle": 0.35, "line_segment_to_circle": 0.35,
          "disk_to_disk": 0.25, "point_to_circle": 0.5, "line_to_box": 2.0, "line_segment_to_box": 1.5,
          "plane_to_box": 0.7}


def tol_of(fn):
    return TOL_LINE_CIRCLE if fn == "line_to_circle" else TOL_REL


def scene_scale(P1, P2):
    return max(1.0, P1.feature(), P2.feature(), nrm(P1.center() - P2.center()))


def call_impl(fn, P1, P2):
    """run the real function; returns (d, p1, p2) or raises"""
    import distance3d.distance as D
    out = getattr(D, fn)(*(P1.args() + P2.args()))
    d = float(out[0])
    pts = [A(o) for o in out[1:]]
    if len(pts) == 1:       # point_to_X returns only the point on X
        pts = [P1.p["x"].copy(), pts[0]]
    return d, pts[0], pts[1]


# =====================================================================================
# generators
# =====================================================================================
PERMS = []
for perm in ((0, 1, 2), (0, 2, 1), (1, 0, 2), (1, 2, 0), (2, 0, 1), (2, 1, 0)):
    for sx in (1, -1):
        for sy in (1, -1):
            for sz in (1, -1):
                M = np.zeros((3, 3))
                for i, (j, s) in enumerate(zip(perm, (sx, sy, sz))):
                    M[i, j] = s
                if abs(np.linalg.det(M) - 1) < 1e-9:
                    PERMS.append(M)
R345 = [np.array([[0.6, -0.8, 0], [0.8, 0.6, 0], [0, 0, 1.0]]),
        np.array([[1.0, 0, 0], [0, 0.6, -0.8], [0, 0.8, 0.6]]),
        np.array([[0.6, 0, 0.8], [0, 1.0, 0], [-0.8, 0, 0.6]])]
LAT = [-2.0, -1.5, -1.0, -0.5, 0.0, 0.0, 0.5, 1.0, 1.5, 2.0]
LSIZE = [0.25, 0.5, 1.0, 1.0, 2.0, 3.0, 4.0]


def lat_rot(rng):
    R = PERMS[rng.randrange(len(PERMS))]
    if rng.random() < 0.35:
        R = R.dot(R345[rng.randrange(3)])
    return R


def rand_rot(rng):
    q = A([rng.gauss(0, 1) for _ in range(4)])
    q /= nrm(q)
    w, x, y, z = q
    return np.array([[1 - 2 * (y * y + z * z), 2 * (x * y - z * w), 2 * (x * z + y * w)],
                     [2 * (x * y + z * w), 1 - 2 * (x * x + z * z), 2 * (y * z - x * w)],
                     [2 * (x * z - y * w), 2 * (y * z + x * w), 1 - 2 * (x * x + y * y)]])


def lat_vec(rng):
    return A([rng.choice(LAT) for _ in range(3)])


def log_size(rng, lo=0.2, hi=100.0):
    return math.exp(rng.uniform(math.log(lo), math.log(hi)))


def pose(R, t):
    T = np.eye(4)
    T[:3, :3] = R
    T[:3, 3] = t
    return T


def make_prim(kind, R, c, sizes):
    """primitive of the given kind with frame R (columns = local axes), centre c, sizes (3 positive numbers)"""
    P = _make_prim(kind, R, c, sizes)
    if kind in ("rectangle",):
        P.frame = (R, A([0.5 * sizes[0], 0.5 * sizes[1], 1.0]))
    elif kind in ("circle", "disk"):
        P.frame = (R, A([sizes[0], sizes[0], 1.0]))
    elif kind == "box":
        P.frame = (R, 0.5 * A(sizes))
    elif kind == "ellipsoid":
        P.frame = (R, A(sizes))
    elif kind == "cylinder":
        P.frame = (R, A([sizes[0], sizes[0], 0.5 * sizes[1]]))
    return P


def _make_prim(kind, R, c, sizes):
    if kind == "point":
        return Prim("point", x=A(c))
    if kind == "line":
        return Prim("line", x=A(c), d=R[:, 0].copy())
    if kind == "segment":
        h = 0.5 * sizes[0] * R[:, 0]
        return Prim("segment", s=c - h, e=c + h)
    if kind == "plane":
        return Prim("plane", x=A(c), n=R[:, 2].copy())
    if kind == "rectangle":
        return Prim("rectangle", c=A(c), axes=np.array([R[:, 0], R[:, 1]]), l=A(sizes[:2]))
    if kind in ("circle", "disk"):
        return Prim(kind, c=A(c), r=float(sizes[0]), n=R[:, 2].copy())
    if kind == "box":
        return Prim("box", T=pose(R, c), size=A(sizes))
    if kind == "ellipsoid":
        return Prim("ellipsoid", T=pose(R, c), radii=A(sizes))
    if kind == "cylinder":
        return Prim("cylinder", T=pose(R, c), r=float(sizes[0]), l=float(sizes[1]))
    raise ValueError(kind)


def gen_triangle(rng, stream, c):
    for _ in range(200):
        if stream == "L":
            v = np.array([c + A([rng.choice([-2, -1, -0.5, 0, 0.5, 1, 2]) for _ in range(3)]) for _ in range(3)])
        else:
            s = log_size(rng)
            v = np.array([c + s * A([rng.uniform(-1, 1) for _ in range(3)]) for _ in range(3)])
        e = [nrm(v[1] - v[0]), nrm(v[2] - v[1]), nrm(v[0] - v[2])]
        if min(e) < 0.2 or max(e) > 100:
            continue
        area2 = nrm(np.cross(v[1] - v[0], v[2] - v[0]))
        if area2 / max(e) < 0.2:        # smallest altitude
            continue
        return Prim("triangle", v=v)
    return Prim("triangle", v=np.array([c, c + A([1.0, 0, 0]), c + A([0, 1.0, 0])]))


def gen_prim(kind, rng, stream, c, extreme=0.12):
    if kind == "triangle":
        return gen_triangle(rng, stream, c)
    if stream == "L":
        R = lat_rot(rng)
        sizes = [rng.choice(LSIZE) for _ in range(3)]
    else:
        R = rand_rot(rng)
        s = log_size(rng)
        # moderate aspect ratios inside one primitive, every size within [0.2, 100]
        sizes = [min(100.0, max(0.2, s * math.exp(rng.uniform(-1.2, 1.2)))) for _ in range(3)]
        if kind in ("ellipsoid", "box", "cylinder") and rng.random() < extreme:
            # the corners of the size domain: needles and pancakes with aspect ratios of several hundred (iteration
            # caps and start values tuned on moderate shapes stop early there)
            big, small = rng.uniform(40.0, 100.0), rng.uniform(0.2, 0.4)
            sizes = rng.choice([[big, small, small], [small, big, small], [small, small, big],
                                [big, big, small], [small, big, big]])
    return make_prim(kind, R, c, sizes)


def special_point(rng, P2):
    """a point placed on the lattice of the primitive's own frame: on faces / edges / corners / axis / centre,
    inside and outside (where the branch decisions of the point_to_X functions are ties)"""
    if P2.kind == "triangle":
        a, b, c = P2.p["v"]
        s = rng.choice([-0.5, 0.0, 0.0, 0.25, 0.5, 1.0, 1.5])
        u = rng.choice([-0.5, 0.0, 0.0, 0.25, 0.5, 1.0, 1.5])
        h = rng.choice([0.0, 0.0, 0.5, -1.0])
        return a + s * (b - a) + u * (c - a) + h * np.cross(b - a, c - a)
    if P2.frame is None:
        return None
    R, h = P2.frame
    al = A([rng.choice([0.0, 0.0, 0.5, -0.5, 1.0, -1.0, 1.5, -2.0]) for _ in range(3)])
    if P2.kind == "circle" and rng.random() < 0.4:
        # around the axis: inside / at the edge of / just outside the epsilon band of point_to_circle, and in the
        # 1e-3 band the function had before /repo commit 0e4a1a6
        tiny = rng.choice([1e-7, 5e-7, 1e-6, 2e-6, 1e-4, 5e-4, 9e-4, 2e-3])
        return P2.center() + R.dot(A([tiny, 0.0, al[2] * h[2] * rng.choice([0.0, 1.0])]))
    return P2.center() + R.dot(al * h)


def gen_pair(fn, rng, stream):
    k1, k2 = FUNCS[fn]
    if stream == "L" and k1 == "point" and rng.random() < 0.5:
        P2 = gen_prim(k2, rng, "L", lat_vec(rng))
        x = special_point(rng, P2)
        if x is not None:
            return Prim("point", x=x), P2
    if stream == "L" and k2 == "triangle" and k1 in ("line", "segment") and rng.random() < 0.2:
        # a triangle with one axis-aligned edge and a line / segment exactly parallel to that edge, beyond it
        u = np.zeros(3)
        u[rng.randrange(3)] = rng.choice([-1.0, 1.0])
        a0 = lat_vec(rng)
        b0 = a0 + rng.choice([0.5, 1.0, 2.0, 3.0]) * u
        for _ in range(50):
            c0 = lat_vec(rng)
            if nrm(np.cross(b0 - a0, c0 - a0)) / max(nrm(b0 - a0), nrm(c0 - a0), nrm(c0 - b0)) >= 0.2:
                break
        else:
            c0 = a0 + A([u[1], u[2], u[0]])
        mid = 0.5 * (a0 + b0)
        x = mid - (c0 - mid) * rng.choice([0.5, 1.0]) + rng.choice([0.0, 0.0, 0.5]) * np.cross(b0 - a0, c0 - a0)
        order = rng.choice([(0, 1, 2), (2, 0, 1), (1, 2, 0)])      # which edge (AB / BC / CA) is the aligned one
        v = np.array([a0, b0, c0])[list(np.argsort(order))]
        T = Prim("triangle", v=v)
        if k1 == "line":
            return Prim("line", x=x, d=u.copy()), T
        h = rng.choice([0.25, 1.0, 4.0])
        sh = rng.choice([-6.0, -1.0, 0.0, 0.0, 1.0, 6.0])
        return Prim("segment", s=x + (sh - h) * u, e=x + (sh + h) * u), T
    if stream == "L":
        c1 = lat_vec(rng)
        P1 = gen_prim(k1, rng, "L", c1)
        r = rng.random()
        if r < 0.25:
            c2 = c1.copy()                                  # coincident centres
        elif r < 0.6:
            c2 = c1 + A([rng.choice([-1.0, -0.5, 0.0, 0.5, 1.0]) for _ in range(3)])
        else:
            c2 = lat_vec(rng)
        P2 = gen_prim(k2, rng, "L", c2)
        return P1, P2
    base = A([rng.uniform(-1, 1) for _ in range(3)]) * (10 ** rng.uniform(-1, 2.5))
    P1 = gen_prim(k1, rng, "G", base)
    # the iterative point_to_ellipsoid is the function most sensitive to extreme aspect ratios
    P2 = gen_prim(k2, rng, "G", base, extreme=(0.5 if fn == "point_to_ellipsoid" else 0.12))
    if k1 == "point" and P2.frame is not None and rng.random() < 0.6:
        Rf, hf = P2.frame
        if float(np.max(hf)) > 50.0 * float(np.min(hf)):
            # a needle / pancake: the query point sits BESIDE the long extent, a few thin radii away from the surface
            al = A([rng.uniform(-0.95, 0.95) if hf[i] > 10.0 * float(np.min(hf)) else rng.choice([-1.0, 1.0]) * rng.uniform(1.5, 6.0)
                    for i in range(3)])
            return Prim("point", x=P2.center() + Rf.dot(al * hf)), P2
    # place P2 at a chosen gap from P1 along a random direction
    u = unit(A([rng.gauss(0, 1) for _ in range(3)]))
    reach = P1.radius() + P2.radius()
    mode = rng.random()
    if mode < 0.3:
        gap = rng.uniform(0, 1) * reach            # overlapping / contained
    elif mode < 0.7:
        gap = reach * rng.uniform(0.7, 1.5)        # around touching
    else:
        gap = reach + log_size(rng, 0.01, 300.0)
    shift = gap * u
    P2 = move(P2, shift)
    return P1, P2


def move(P, shift):
    q = {}
    for k, v in P.p.items():
        if k in ("x", "s", "e", "c"):
            q[k] = v + shift
        elif k == "v":
            q[k] = v + shift
        elif k == "T":
            T = v.copy()
            T[:3, 3] += shift
            q[k] = T
        else:
            q[k] = v
    return Prim(P.kind, **q)


def in_band(fn, P1, P2):
    """True when the input lies in an excluded epsilon band: some direction cosine between characteristic
    directions of the two primitives is strictly inside (0, BAND) of parallel or perpendicular"""
    for u in P1.dirs():
        for v in P2.dirs():
            c = abs(float(np.dot(u, v)))
            s = nrm(np.cross(u, v))
            if 0 < c < BAND or 0 < s < BAND:
                return True
    return False


def well_formed(P):
    f = P.feature()
    if P.kind in ("point", "line", "plane"):
        return True
    return 0.2 <= f <= 100.0 + 1e-9


# =====================================================================================
# oracle
# =====================================================================================
def line_circle_class(lp, ld, c, r, n):
    """which case of `_circle.line_to_circle` an input reaches (decisions recomputed from the input)"""
    lp = lp - c
    dxn, pxn = np.cross(ld, n), np.cross(lp, n)
    m0 = float(np.dot(dxn, dxn))
    if not m0 > 0.0:
        return "parallel"
    lam = -float(np.dot(dxn, pxn)) / m0
    pxn = pxn + lam * dxn
    b1sq = float(np.dot(pxn, pxn))
    if not b1sq > 0.0:
        return "b1-zero"
    return "two-roots" if r * m0 > math.sqrt(b1sq) else "one-root"


def disk_alternating(P1, P2, eps=1e-8):
    """value of the library's alternating projection (step (2) of disk_to_disk: same start, 20 rounds, stop as
    soon as the decrease is below epsilon), recomputed with the reference point-to-disk projection"""
    c1, r1, n1 = P1.p["c"], P1.p["r"], P1.p["n"]
    c2, r2, n2 = P2.p["c"], P2.p["r"], P2.p["n"]
    y = cp_disk(c1, c2, r2, n2)
    prev = nrm(c2 - c1)
    x = c1
    for _ in range(20):
        x = cp_disk(y, c1, r1, n1)
        y = cp_disk(x, c2, r2, n2)
        dist = nrm(y - x)
        if prev - dist < eps:
            break
        prev = dist
    return nrm(y - x)


def classify(fn, P1, P2, res, info):
    """known-finding classification of a certified violation (narrow: function + input class / mechanism);
    None = not a recorded defect"""
    d = res[0]
    if fn == "disk_to_disk":
        s = nrm(np.cross(P1.p["n"], P2.p["n"]))
        if s < 1e-9:
            off = abs(float(np.dot(P2.p["c"] - P1.p["c"], P1.p["n"])))
            return "F-C11-disk-coplanar" if off < 1e-9 else "F-C11-disk-parallel"
        # alternating projections between two compact convex sets decrease monotonically to the minimum
        # distance; a too large value that equals the early-stopped iterate is the stop rule's doing
        if info["kind"] == "closer-pair" and abs(disk_alternating(P1, P2) - d) <= 1e-9 * info["L"]:
            return "F-C11-disk-early-stop"
        return None
    if fn == "point_to_circle":
        return None       # repaired upstream (0e4a1a6); Lean: point_to_circle_opt_within_epsilon
    if fn == "line_to_circle":
        if info["kind"] == "closer-pair" and line_circle_class(P1.p["x"], P1.p["d"], P2.p["c"], P2.p["r"], P2.p["n"]) == "two-roots":
            return "F-C11-line-circle-shat"
        return None
    if fn == "line_segment_to_circle" and info["kind"] == "closer-pair":
        import distance3d.distance._circle as C
        s, e = P1.p["s"], P1.p["e"]
        on_line = C._line_segment_to_circle(s.copy(), e.copy(), P2.p["c"].copy(), float(P2.p["r"]), P2.p["n"].copy())[3]
        if not on_line:
            # clamped to an end point although the target is not convex
            return "F-C11-segcircle-clamp"
        # interior closest point: the value is line_to_circle's
        if d - info["closer_distance"] <= TOL_LINE_CIRCLE * info["L"]:
            return "F-C11-segcircle-bisection"      # within the accuracy the property grants line_to_circle only
        if line_circle_class(s, unit(e - s), P2.p["c"], P2.p["r"], P2.p["n"]) == "two-roots":
            return "F-C11-line-circle-shat"
        return None
    return None


def oracle(fn, P1, P2, res):
    """returns None (holds) or a dict describing a certified violation"""
    L = scene_scale(P1, P2)
    tol = tol_of(fn) * L
    if isinstance(res, Exception):
        return None       # raising is C10's business (feasibility), not an optimality statement
    d, _, _ = res
    if not math.isfinite(d):
        return None
    dref, x1, x2 = reference_pair(P1, P2)
    e1, e2 = P1.excess(x1), P2.excess(x2)
    dref = nrm(x1 - x2)
    if e1 <= MEMBER_TOL * L and e2 <= MEMBER_TOL * L and dref < d - tol - NOISE * L:
        return {"kind": "closer-pair", "d": d, "closer_distance": dref, "x1": x1.tolist(), "x2": x2.tolist(),
                "excess1": e1, "excess2": e2, "L": L, "tol": tol}
    # d too small: separating-plane certificate (convex pairs only)
    if P1.convex() and P2.convex() and dref > d + tol and dref > 0 and e1 <= MEMBER_TOL * L and e2 <= MEMBER_TOL * L:
        n = (x2 - x1) / dref
        lb = -P2.support(-n) - P1.support(n)
        if math.isfinite(lb) and lb > d + tol + NOISE * L:
            return {"kind": "below-lower-bound", "d": d, "lower_bound": lb, "normal": n.tolist(),
                    "x1": x1.tolist(), "x2": x2.tolist(), "L": L, "tol": tol}
    return None


def run_case(ctx, fn, P1, P2, stream, findings_seen=None):
    try:
        res = call_impl(fn, P1, P2)
    except Exception as e:  # noqa
        res = e
    bad = oracle(fn, P1, P2, res)
    key = (fn, tuple(np.round(np.concatenate([np.ravel(a) for a in P1.args() + P2.args()]), 9)))
    ctx.count("search:" + stream, key=key,
              sample={"fn": fn, "stream": stream, "p1": P1.to_json(), "p2": P2.to_json()})
    if bad is not None:
        fid = classify(fn, P1, P2, res, bad)
        ctx.fail(fn, {"fn": fn, "p1": P1.to_json(), "p2": P2.to_json()}, bad,
                 "no pair of points closer than d - %g*L and d not below a certified lower bound" % tol_of(fn),
                 "reference closest pair (feature enumeration / dense search), membership re-verified; "
                 "separating plane for d too small", finding=fid)
    return res, bad


# =====================================================================================
# hand-written corpus: suspected defects and classic degenerate placements
# =====================================================================================
def known_witnesses():
    """witnesses of the recorded findings (replayed first on every run)"""
    import json
    import os
    path = os.path.join(core.VERIF, "known_findings.d", "C11.json")
    out = []
    if os.path.exists(path):
        for k in json.load(open(path)):
            w = k.get("witness") or {}
            if "fn" in w and "p1" in w and "p2" in w:
                out.append((w["fn"], Prim.from_json(w["p1"]), Prim.from_json(w["p2"])))
    return out


def corpus():
    z = A([0, 0, 1.0])
    I = np.eye(3)
    out = known_witnesses()
    out.append(("disk_to_disk", Prim("disk", c=A([0, 0, 0.0]), r=1.0, n=z), Prim("disk", c=A([1.0, 0, 0]), r=1.0, n=z)))
    out.append(("disk_to_disk", Prim("disk", c=A([0, 0, 0.1]), r=1.0, n=z), Prim("disk", c=A([0, 0, -0.1]), r=1.0, n=z)))
    out.append(("point_to_circle", Prim("point", x=A([5e-4, 0, 0])), Prim("circle", c=A([0, 0, 0.0]), r=1.0, n=z)))
    out.append(("point_to_circle", Prim("point", x=A([0.0, 0, 0.5])), Prim("circle", c=A([0, 0, 0.0]), r=1.0, n=z)))
    # regression inputs of repaired defects (no finding id: a failure here is a violation again):
    # point_to_circle's old 1e-3 band (0e4a1a6), points inside / at the edge of the new 1e-6 band,
    # line_to_circle with the line on the circle's axis (714bcb1)
    for x in ([0.0, 5e-4, 0.0], [9e-4, 0, 0.3], [5e-7, 0, 0], [5e-7, 0, 0.3], [1e-6, 0, 0], [2e-6, 0, -0.1]):
        out.append(("point_to_circle", Prim("point", x=A(x)), Prim("circle", c=A([0, 0, 0.0]), r=1.0, n=z)))
    out.append(("point_to_circle", Prim("point", x=A([-0.5 + 4e-4, 2.0, -0.5 + 3e-4])),
                Prim("circle", c=A([-0.5, 2.0, -0.5]), r=3.0, n=A([-0.6, 0, 0.8]))))
    out.append(("line_to_circle", Prim("line", x=A([-0.5, 2.0, -0.5]), d=A([0.6, 0, -0.8])),
                Prim("circle", c=A([-0.5, 2.0, -0.5]), r=3.0, n=A([-0.6, 0, 0.8]))))
    out.append(("line_segment_to_circle", Prim("segment", s=A([-0.5 - 0.6, 2.0, -0.5 + 0.8]), e=A([-0.5 + 1.2, 2.0, -0.5 - 1.6])),
                Prim("circle", c=A([-0.5, 2.0, -0.5]), r=3.0, n=A([-0.6, 0, 0.8]))))
    out.append(("line_segment_to_circle", Prim("segment", s=A([0.5, -2.0, 0]), e=A([0.5, -0.2, 0.0])),
                Prim("circle", c=A([0, 0, 0.0]), r=1.0, n=z)))
    out.append(("line_to_circle", Prim("line", x=A([0.3, 0, 0.0]), d=A([0, 1.0, 0])),
                Prim("circle", c=A([0, 0, 0.0]), r=1.0, n=z)))
    out.append(("line_to_circle", Prim("line", x=A([0.3, 0.1, 0.7]), d=unit(A([1.0, 1.0, 1.0]))),
                Prim("circle", c=A([0, 0, 0.0]), r=1.0, n=z)))
    out.append(("rectangle_to_box", Prim("rectangle", c=A([0, 0, 0.0]), axes=np.array([I[0], I[1]]), l=A([4.0, 4.0])),
                Prim("box", T=pose(I, A([0, 0, 0.0])), size=A([1.0, 1.0, 1.0]))))
    out.append(("line_to_box", Prim("line", x=A([0, 0, 2.0]), d=A([1.0, 0, 0])),
                Prim("box", T=pose(I, A([0, 0, 0.0])), size=A([1.0, 1.0, 1.0]))))
    out.append(("triangle_to_triangle", Prim("triangle", v=np.array([[0, 0, 0.0], [1, 0, 0], [0, 1, 0]])),
                Prim("triangle", v=np.array([[0.2, 0.2, -1.0], [0.2, 0.2, 1.0], [2.0, 2.0, 1.0]]))))
    return out


# =====================================================================================
# correspondence
# =====================================================================================
MODELLED = ["point_to_triangle", "point_to_rectangle", "point_to_box", "point_to_disk", "point_to_cylinder",
            "point_to_circle", "line_to_triangle", "line_segment_to_triangle"]


def enc_tokens(vals, mode):
    if mode == "F":
        return [f2h(v) for v in vals]
    return [q2s(Fraction(float(v))) for v in vals]


def model_args(fn, P1, P2):
    """flat list of floats in the driver's argument order"""
    a = []
    if P1.kind == "point":
        a += list(P1.p["x"])
    elif P1.kind == "line":
        a += list(P1.p["x"]) + list(P1.p["d"])
    elif P1.kind == "segment":
        a += list(P1.p["s"]) + list(P1.p["e"])
    p = P2.p
    if P2.kind == "triangle":
        a += list(np.ravel(p["v"]))
    elif P2.kind == "rectangle":
        a += list(p["c"]) + list(p["axes"][0]) + list(p["axes"][1]) + list(p["l"])
    elif P2.kind == "box":
        a += list(np.ravel(p["T"][:3, :3])) + list(p["T"][:3, 3]) + list(p["size"])
    elif P2.kind in ("disk", "circle"):
        a += list(p["c"]) + [p["r"]] + list(p["n"])
    elif P2.kind == "cylinder":
        a += list(np.ravel(p["T"][:3, :3])) + list(p["T"][:3, 3]) + [p["r"], p["l"]]
    return a


def parse_model(out, mode):
    """-> ('ok', branch, [floats]) | ('err', name)"""
    parts = out.split()
    if not parts:
        return ("bad", out)
    if parts[0] == "err":
        return ("err", parts[1])
    if parts[0] != "ok":
        return ("bad", out)
    br = int(parts[1])
    if mode == "F":
        vals = [core.h2f(t) for t in parts[2:]]
    else:
        vals = [float(core.s2q(t)) for t in parts[2:]]
    return ("ok", br, vals)


def impl_vector(fn, res):
    """implementation outputs in the driver's output order"""
    d, p1, p2 = res
    if fn.startswith("point_to"):
        return [d] + list(p2)
    return [d] + list(p1) + list(p2)


def nonunique(fn, br):
    """branches where the closest points are not unique (only the distance is compared)"""
    if fn == "point_to_circle":
        return br == 1
    if fn in ("line_to_triangle", "line_segment_to_triangle"):
        return True       # parallel / coplanar placements have segments of minimisers; compare d, then points if close
    return False


def correspondence(ctx):
    n_per = ctx.budget(500, 6000)
    cases = []
    for fn in MODELLED:
        for i in range(n_per):
            stream = "L" if i % 2 == 0 else "G"
            for _ in range(20):
                P1, P2 = gen_pair(fn, ctx.rng, stream)
                if well_formed(P1) and well_formed(P2):
                    break
            cases.append((fn, stream, P1, P2))
    for fn, P1, P2 in corpus():
        if fn in MODELLED:
            cases.append((fn, "L", P1, P2))
    drv = core.Driver("c11-corr")
    plan = []
    for fn, stream, P1, P2 in cases:
        try:
            res = call_impl(fn, P1, P2)
        except Exception as e:  # noqa
            res = e
        args = model_args(fn, P1, P2)
        idF = drv.add("C11." + fn, "F", enc_tokens(args, "F"))
        idQ = drv.add("C11." + fn, "Q", enc_tokens(args, "Q"))
        plan.append((fn, stream, P1, P2, res, idF, idQ))
    out = drv.run()
    flips = 0
    env = 0.0
    for fn, stream, P1, P2, res, idF, idQ in plan:
        mF = parse_model(out.get(idF, ""), "F")
        mQ = parse_model(out.get(idQ, ""), "Q")
        seed = {"fn": fn, "p1": P1.to_json(), "p2": P2.to_json()}
        key = (fn, tuple(np.round(A(model_args(fn, P1, P2)), 9)))
        ctx.count("corr:" + stream, key=key)
        if mF[0] == "bad" or mQ[0] == "bad":
            ctx.broke("correspondence", fn, "driver output not understood: %s / %s" % (mF, mQ), seed)
            continue
        if isinstance(res, Exception) or not all(math.isfinite(v) for v in impl_vector(fn, res)):
            # implementation raised / produced NaN: the model must report an error as well
            if mQ[0] != "err" and mF[0] != "err":
                ctx.broke("correspondence", fn, "implementation failed (%r) but the model returns %s" % (res, mQ[:2]), seed)
            else:
                ctx.branch(fn, "err:" + (mQ[1] if mQ[0] == "err" else mF[1]))
            continue
        if mQ[0] == "err" and mF[0] == "err":
            ctx.broke("correspondence", fn, "model reports %s, implementation returns %s" % (mQ[1], impl_vector(fn, res)[:1]), seed)
            continue
        y = A(impl_vector(fn, res))
        scale = max(1.0, float(np.max(np.abs(A(model_args(fn, P1, P2))))))
        tol = (1e-12 if stream == "L" else 1e-9) * scale
        ok = False
        used = None
        order = ((mQ, "Q"), (mF, "F")) if stream == "L" else ((mF, "F"), (mQ, "Q"))
        for (m, name) in order:
            if m[0] != "ok":
                continue
            mv = A(m[2][:len(y)])
            if len(mv) != len(y):
                continue
            good = float(np.max(np.abs(mv - y))) <= tol
            if good:
                env = max(env, float(np.max(np.abs(mv - y))) / scale)
            elif nonunique(fn, m[1]) and abs(mv[0] - y[0]) <= tol:
                # several closest pairs exist (parallel / on-axis placements): only d is determined
                good = True
                ctx.extra["nonunique_distance_only"] = ctx.extra.get("nonunique_distance_only", 0) + 1
            if good:
                ok, used = True, name
                break
        if not ok and mF[0] == "ok" and mQ[0] == "ok" and mF[1] == mQ[1] and len(mF[2]) >= len(y) and len(mQ[2]) >= len(y):
            # ill-conditioned evaluation: the model's own float evaluation deviates from its exact evaluation by e
            # (same branch); the implementation is another float evaluation of the same formulas and is granted the
            # same order of deviation from the exact value
            vF, vQ = A(mF[2][:len(y)]), A(mQ[2][:len(y)])
            e = float(np.max(np.abs(vF - vQ)))
            if e > 0 and float(np.max(np.abs(y - vQ))) <= tol + 4.0 * e and e <= 1e-6 * scale:
                ok, used = True, "Q"
                ctx.extra["illconditioned_envelope"] = ctx.extra.get("illconditioned_envelope", 0) + 1
        if not ok and fn == "point_to_circle" and mQ[0] == "ok":
            # exact tie of the axis test `|dip|^2 >= epsilon^2` (the special points of the generator sit ON the band edge:
            # 1e-6 from the axis): the implementation's float evaluation of |dip|^2 and the exact one may fall on different
            # sides; then the two answers are the axis branch (any circle point) and the general branch (the nearest one),
            # whose distances agree to ~epsilon. Decided on the exact margin, not on the outputs.
            try:
                from fractions import Fraction as _Fr
                xq = [_Fr(float(t)) for t in P1.p["x"]]
                cq = [_Fr(float(t)) for t in P2.p["c"]]
                nq = [_Fr(float(t)) for t in P2.p["n"]]
                vq = [xq[i] - cq[i] for i in range(3)]
                h = sum(vq[i] * nq[i] for i in range(3))
                dq = [vq[i] - h * nq[i] for i in range(3)]          # the code's diff_in_plane, exactly
                dip2 = sum(t * t for t in dq)
                eps2 = _Fr(1e-6) * _Fr(1e-6)
                if abs(dip2 - eps2) <= _Fr(1, 10 ** 6) * eps2 and abs(float(mQ[2][0]) - float(y[0])) <= 2e-6 * scale:
                    ok, used = True, "Q"
                    ctx.extra["axis_band_edge_ties"] = ctx.extra.get("axis_band_edge_ties", 0) + 1
            except Exception:  # noqa
                pass
        if mQ[0] == "ok":
            ctx.branch(fn, mQ[1])
        if mF[0] == "ok" and mQ[0] == "ok" and mF[1] != mQ[1]:
            flips += 1
        if not ok:
            ctx.broke("correspondence", fn,
                      "implementation %s vs model F %s / Q %s (tolerance %g)" % (list(y), mF, mQ, tol), seed)
        elif used == "Q" and stream != "L":
            ctx.extra["arbitrated_by_exact"] = ctx.extra.get("arbitrated_by_exact", 0) + 1
        elif used == "F" and stream == "L":
            ctx.extra["lattice_matched_float_only"] = ctx.extra.get("lattice_matched_float_only", 0) + 1
    expected = {"point_to_triangle": range(7), "point_to_rectangle": range(9), "point_to_box": range(27),
                "point_to_disk": range(3), "point_to_cylinder": range(9), "point_to_circle": range(2),
                # ids 19 / 24 (edge AB / BC wins through the parallel branch) need a strict improvement over an
                # earlier edge that shares a vertex with it, which cannot happen in exact arithmetic
                "line_to_triangle": [0, 13, 14, 18, 23],
                "line_segment_to_triangle": [0, 13, 14, 18, 23] + list(range(100, 107)) + list(range(200, 207))}
    ctx.extra["unreached_branches"] = {fn: [b for b in ids if str(b) not in ctx.branches.get(fn, {})]
                                       for fn, ids in expected.items()
                                       if any(str(b) not in ctx.branches.get(fn, {}) for b in ids)}
    ctx.extra["float_vs_exact_branch_flips"] = flips
    ctx.extra["rounding_envelope_rel"] = env


# =====================================================================================
# search
# =====================================================================================
def search(ctx):
    boost = 3 if ctx.extra.get("search_boost") else 1
    base = ctx.budget(300, 6000) * boost
    for fn, P1, P2 in corpus():
        run_case(ctx, fn, P1, P2, "corpus")
    for fn in FUNCS:
        n = max(8, int(base * WEIGHT.get(fn, 1.0)))
        done = 0
        tries = 0
        while done < n and tries < 30 * n:
            tries += 1
            stream = "L" if (done % 2 == 0) else "G"
            P1, P2 = gen_pair(fn, ctx.rng, stream)
            if not (well_formed(P1) and well_formed(P2)):
                continue
            if in_band(fn, P1, P2):
                ctx.extra["rejected_band"] = ctx.extra.get("rejected_band", 0) + 1
                continue
            run_case(ctx, fn, P1, P2, stream)
            done += 1
    if ctx.thorough:
        search_jit(ctx, 150)


def impl_run(case):
    """second engine (JIT) entry point used by core.run_engine: case = (fn, p1 json, p2 json)"""
    fn, j1, j2 = case
    d, a, b = call_impl(fn, Prim.from_json(j1), Prim.from_json(j2))
    return {"ok": True, "d": d, "p1": a.tolist(), "p2": b.tolist()}


def search_jit(ctx, n_per):
    """thorough tier: the same oracle on results computed with the JIT on (fresh numba cache)"""
    cases, prims = [], []
    for fn in FUNCS:
        done = 0
        while done < n_per:
            stream = "L" if done % 2 == 0 else "G"
            P1, P2 = gen_pair(fn, ctx.rng, stream)
            if not (well_formed(P1) and well_formed(P2)) or in_band(fn, P1, P2):
                continue
            cases.append((fn, P1.to_json(), P2.to_json()))
            prims.append((fn, P1, P2, stream))
            done += 1
    res = core.run_engine("c11", cases, jit=True)
    if isinstance(res, dict):
        ctx.notes.append("JIT engine did not run: %s" % str(res.get("engine_error"))[-300:])
        return
    nerr = 0
    for (fn, P1, P2, stream), r in zip(prims, res):
        ctx.count("search-jit:" + stream)
        if not r.get("ok"):
            nerr += 1
            continue
        out = (r["d"], A(r["p1"]), A(r["p2"]))
        bad = oracle(fn, P1, P2, out)
        if bad is not None:
            ctx.fail(fn, {"fn": fn, "p1": P1.to_json(), "p2": P2.to_json()}, bad,
                     "no pair of points closer than d - %g*L and d not below a certified lower bound" % tol_of(fn),
                     "reference closest pair, membership re-verified (JIT engine)",
                     finding=classify(fn, P1, P2, out, bad), engine="jit")
    ctx.extra["jit_engine_cases"] = len(res)
    ctx.extra["jit_engine_raised"] = nerr


def replay(ctx, payload):
    args = payload.get("args")
    if args is None:
        for b in payload.get("broken", []):
            if b.get("seed_input"):
                args = b["seed_input"]
                break
    if args is None:
        print("replay file names no input:", payload.get("broken"))
        return False
    fn = args["fn"]
    P1, P2 = Prim.from_json(args["p1"]), Prim.from_json(args["p2"])
    try:
        res = call_impl(fn, P1, P2)
    except Exception as e:  # noqa
        print("implementation raised", repr(e))
        res = e
    bad = oracle(fn, P1, P2, res)
    if bad is not None:
        print("FAIL", fn, "returned d =", bad["d"], "certificate:", {k: v for k, v in bad.items() if k != "d"})
        return False
    print("holds:", fn, "returned", res[0] if not isinstance(res, Exception) else res)
    return True
