"""C13 — point containment predicates (containment_test.points_in_*).

correspondence: every case (shape parameters + batch of points) is evaluated by the real
function (batch call, plus single-row calls for a subset) and by the Lean model at Float
(`C13.<shape> F`), lattice cases additionally at Rat (`C13.<shape> Q`).  Booleans must be equal;
a disagreement is accepted as a *tie* only for a point whose exact signed distance from the
boundary (fractions.Fraction recomputation of the local-frame geometry, independent of the
model) is below 1e-9*L, and never on the streams where every floating-point operation is
order-independent (sphere on any input; signed-axis-permutation poses).

search (oracle, independent of the model): exact-rational local-frame classification
`in` (>= 1e-9*L inside) / `out` (>= 1e-9*L outside) / `band`; the predicate must be True on
`in`, False on `out`; cross-agreement with distance.point_to_box/disk/cylinder/ellipsoid and with
the colliders' support functions.
"""
import math
from fractions import Fraction as Fr

import numpy as np

import core
from core import f2h, q2s

DELTA = 1e-9            # the property's tolerance factor (times L)
SLACK = 1e-12           # covers float poses that are orthonormal only to ~1e-16 and the sqrt enclosures
SHAPES = ["sphere", "capsule", "ellipsoid", "disk", "cone", "cylinder", "box", "mesh"]
POSED = {"capsule", "ellipsoid", "cone", "cylinder", "box", "mesh"}
DIST_FN = {"box": "point_to_box", "disk": "point_to_disk", "cylinder": "point_to_cylinder",
           "ellipsoid": "point_to_ellipsoid"}

RULE = ("cases = (shape, pose, sizes, batch of points) drawn from one PRNG: stream Lperm (signed axis permutation "
        "poses, dyadic sizes/offsets, points on axes/apex/rim/corners/face centres exactly on the boundary and "
        "+-k ulp / +-c*1e-9*L around it; compared exactly at Float, and at Rat outside the band), L345 (3-4-5 and "
        "5-12-13 rotations, same points), G (random rotations, sizes 0.2..1e2, offsets to 1e3, ray-cast boundary points "
        "+- ulps / +- c*1e-9*L, random points), M (zero height/radius/size, empty batch, empty/negative/out-of-range "
        "triangle indices). One evaluation = one point of one batch; non-trivial = well-formed shape with a "
        "non-identity pose or offset; distinct = distinct (shape, parameters, point) bit pattern")
EXPLANATION = ("the *_exact theorems say the model predicate at exact reals is membership in the closed shape for every "
               "orthonormal pose; this run ties the model to the implementation point by point (exact equality where "
               "floating-point evaluation is order-independent, equality outside the 1e-9*L band elsewhere) and checks "
               "the implementation against an exact-rational oracle, point_to_* distances and support functions")
PARTIAL = {
    "cross_agreement_distance (closed for box, cylinder, disk)":
        "D3.C13Link: box_agreement_distance and cylinder_agreement_distance are iff (pointInX p <-> point_to_X distance "
        "= 0 on the C11 model); disk_agreement_distance gives dist = 0 -> accepted and accepted -> dist <= diskSlab "
        "(the predicate's slab). Remaining: no point_to_ellipsoid model, C13 has no ellipse predicate; those are "
        "checked by the search oracle only",
    "contained_le_support (closed)":
        "D3.C13Link: the predicates coincide with C03's point sets (X_sets_iff for sphere, capsule, cylinder, cone, "
        "ellipsoid, box, disk) and an accepted point projects no further than the actual modelled support function's "
        "point (X_contained_le_support, X_support_contained, collider_contained_le_support); the disk carries the slack "
        "diskSlab*|d.n| which is attained (disk_slack_attained)",
    "mesh_hull_subset": "hull ⊆ predicate is proved for every mesh (under the vertex/face precondition), with its "
                        "contrapositive mesh_reject_not_in_hull; the accepted set is proved to be exactly the intersection "
                        "of the face half-spaces, local and world frame (mesh_predicate_is_halfspace_intersection[_world]) "
                        "and convex (mesh_predicate_convex). predicate ⊆ hull is proved only for the tetrahedron: any "
                        "non-degenerate tetrahedron labelled with tetDet a b c d > 0 whose outward-wound faces "
                        "(a,c,b) (a,b,d) (a,d,c) (b,c,d) occur in the face list (mesh_tetra_predicate_subset_hull; "
                        "mesh_tetra_exact gives predicate <-> hull; mesh_tetra_exact_neg the other orientation). Remaining: predicate ⊆ hull for a general closed "
                        "outward-oriented convex mesh with more than four vertices (needs polytope theory: H-representation "
                        "⊆ V-representation) is not proved; the harness' exact oracle covers it",
}
ASSUMPTIONS = ["poses are orthonormal, normals unit, sizes > 0 (property domain P); theorems are at exact real arithmetic",
               "mesh triangles are wound outwards (docstring contract of points_in_convex_mesh)",
               "L = max(1, largest feature size, distance of the point from the shape centre)"]
TRUSTED = ["containment_test.py is modelled in full (all eight predicates; invert_transform via Pose.inv); the functions "
           "are plain NumPy (not jitted), so there is no second engine",
           "NumPy vectorisation is modelled as List.map of the single-row kernel; np.sum(axis=1) of 3 columns is "
           "left-to-right (measured), np.dot order is not fixed (ties only inside the band)",
           "NaN-producing inputs (height 0, radius 0) are modelled as err divZero and compared against NumPy's "
           "floating-point warnings raised as errors"]

MANIFEST = dict(
    text=("Lean theorems sphere/capsule/ellipsoid/cone/cylinder/box_exact: model predicate = true <-> point in the closed "
          "shape (pose image of the local set) for every orthonormal pose and positive sizes; disk_exact + "
          "disk_subset/disk_superset (10*EPSILON slab from regenerated constants); mesh_exact (face half-spaces), "
          "mesh_hull_subset, mesh_reject_not_in_hull, mesh_predicate_is_halfspace_intersection(_world), "
          "mesh_predicate_convex, mesh_tetra_predicate_subset_hull, mesh_tetra_exact, mesh_tetra_exact_neg (tetrahedron: predicate <-> hull); batch = element-wise map. Model tied to containment_test.py point by point (Float exact / "
          "1e-9*L band, Rat on lattice); exact-rational oracle, point_to_* and support cross-checks on the real code."),
    note=("trusted: Lean kernel + Mathlib, axioms propext/Classical.choice/Quot.sound; exact-real semantics (float rounding "
          "only enters through the 1e-9*L band of the correspondence); hand-written model tied by sampling; "
          "distance/support cross-agreement is harness-only."),
    technique="Lean 4 proof on hand-written model + point-wise correspondence (Float/Rat) + exact-rational oracle",
    design="§7 C13")


# =============================================================================== small helpers
def fr(x):
    return Fr(float(x))


def fsqrt(x):
    """Fraction approximation of sqrt(x) from below, absolute error <= 1e-30"""
    if x <= 0:
        return Fr(0)
    n, d = x.numerator, x.denominator
    S = 10 ** 30
    return Fr(math.isqrt(n * d * S * S), d * S)


def ulp_step(x, k):
    x = float(x)
    for _ in range(abs(k)):
        x = float(np.nextafter(x, math.inf if k > 0 else -math.inf))
    return x


def pose_of(R, t):
    A = np.eye(4)
    A[:3, :3] = np.array(R, dtype=float)
    A[:3, 3] = np.array(t, dtype=float)
    return A


def center_of(shape, prm):
    if shape in ("sphere", "disk"):
        return np.array(prm["c"], dtype=float)
    return np.array(prm["A"], dtype=float)[:3, 3]


def frame_of(shape, prm):
    """(R, t) as float arrays; sphere: identity; disk: any frame is fine for generation only"""
    if shape == "sphere":
        return np.eye(3), np.array(prm["c"], dtype=float)
    if shape == "disk":
        return np.array(prm["R"], dtype=float), np.array(prm["c"], dtype=float)
    A = np.array(prm["A"], dtype=float)
    return A[:3, :3], A[:3, 3]


def feature(shape, prm):
    if shape in ("sphere", "disk"):
        return float(prm["r"])
    if shape in ("capsule", "cone", "cylinder"):
        return max(float(prm["r"]), float(prm["h"]))
    if shape == "ellipsoid":
        return max(prm["radii"])
    if shape == "box":
        return max(prm["size"])
    v = np.array(prm["verts"], dtype=float).reshape(-1, 3)
    return float(np.max(np.linalg.norm(v - v.mean(axis=0), axis=1))) * 2 if len(v) else 1.0


def scale_L(shape, prm, p):
    c = center_of(shape, prm)
    return max(1.0, feature(shape, prm), float(np.linalg.norm(np.array(p, dtype=float) - c)))


# =============================================================================== implementation
def make_collider(shape, prm):
    from distance3d import colliders
    a = lambda x: np.ascontiguousarray(np.array(x, dtype=float))  # noqa
    if shape == "sphere":
        return colliders.Sphere(a(prm["c"]), float(prm["r"]))
    if shape == "disk":
        return colliders.Disk(a(prm["c"]), float(prm["r"]), a(prm["n"]))
    A = a(prm["A"])
    if shape == "capsule":
        return colliders.Capsule(A, float(prm["r"]), float(prm["h"]))
    if shape == "cone":
        return colliders.Cone(A, float(prm["r"]), float(prm["h"]))
    if shape == "cylinder":
        return colliders.Cylinder(A, float(prm["r"]), float(prm["h"]))
    if shape == "ellipsoid":
        return colliders.Ellipsoid(A, a(prm["radii"]))
    if shape == "box":
        return colliders.Box(A, a(prm["size"]))
    return colliders.MeshGraph(A, a(prm["verts"]).reshape(-1, 3), np.array(prm["tris"], dtype=int).reshape(-1, 3))


def impl_call(shape, prm, pts):
    """the real predicate on a batch; list of bool, or {'err': enum}"""
    from distance3d import containment_test as ct
    P = np.array(pts, dtype=float).reshape(-1, 3)
    a = lambda x: np.array(x, dtype=float)  # noqa
    with np.errstate(divide="raise", invalid="raise", over="raise"):
        try:
            if shape == "sphere":
                f, args = ct.points_in_sphere, (P, a(prm["c"]), float(prm["r"]))
            elif shape == "capsule":
                f, args = ct.points_in_capsule, (P, a(prm["A"]), float(prm["r"]), float(prm["h"]))
            elif shape == "ellipsoid":
                f, args = ct.points_in_ellipsoid, (P, a(prm["A"]), a(prm["radii"]))
            elif shape == "disk":
                f, args = ct.points_in_disk, (P, a(prm["c"]), float(prm["r"]), a(prm["n"]))
            elif shape == "cone":
                f, args = ct.points_in_cone, (P, a(prm["A"]), float(prm["r"]), float(prm["h"]))
            elif shape == "cylinder":
                f, args = ct.points_in_cylinder, (P, a(prm["A"]), float(prm["r"]), float(prm["h"]))
            elif shape == "box":
                f, args = ct.points_in_box, (P, a(prm["A"]), a(prm["size"]))
            else:
                f, args = ct.points_in_convex_mesh, (P, a(prm["A"]), a(prm["verts"]).reshape(-1, 3),
                                                     np.array(prm["tris"], dtype=int).reshape(-1, 3))
            # the caller keeps its arrays: the batch is asked twice with the SAME argument arrays and the second
            # answer is the one that is judged (a predicate that scribbles into its arguments answers the second
            # batch for another shape)
            f(*args)
            r = f(*args)
        except FloatingPointError:
            return {"err": "divZero"}
        except IndexError:
            return {"err": "indexOOB"}
    r = np.asarray(r)
    if r.shape != (len(P),) or r.dtype != np.bool_:
        return {"err": "shape:%s:%s" % (r.shape, r.dtype)}
    return [bool(x) for x in r]


def impl_distance(shape, prm, p):
    from distance3d import distance
    a = lambda x: np.ascontiguousarray(np.array(x, dtype=float))  # noqa
    p = a(p)
    if shape == "box":
        return float(distance.point_to_box(p, a(prm["A"]), a(prm["size"]))[0])
    if shape == "disk":
        return float(distance.point_to_disk(p, a(prm["c"]), float(prm["r"]), a(prm["n"]))[0])
    if shape == "cylinder":
        return float(distance.point_to_cylinder(p, a(prm["A"]), float(prm["r"]), float(prm["h"]))[0])
    if shape == "ellipsoid":
        return float(distance.point_to_ellipsoid(p, a(prm["A"]), a(prm["radii"]))[0])
    return None


# =============================================================================== driver encoding
def enc_case(shape, prm, pts, mode):
    if mode == "F":
        e = f2h
    else:
        e = lambda x: q2s(Fr(float(x)))  # noqa
    ev = lambda v: [e(x) for x in v]  # noqa

    def epose(A):
        A = np.array(A, dtype=float)
        return ev(A[:3, :3].reshape(-1)) + ev(A[:3, 3])
    t = []
    if shape == "sphere":
        t += ev(prm["c"]) + [e(prm["r"])]
    elif shape == "disk":
        t += ev(prm["c"]) + [e(prm["r"])] + ev(prm["n"])
    elif shape in ("capsule", "cone", "cylinder"):
        t += epose(prm["A"]) + [e(prm["r"]), e(prm["h"])]
    elif shape == "ellipsoid":
        t += epose(prm["A"]) + ev(prm["radii"])
    elif shape == "box":
        t += epose(prm["A"]) + ev(prm["size"])
    else:
        v = np.array(prm["verts"], dtype=float).reshape(-1)
        tr = np.array(prm["tris"], dtype=int).reshape(-1)
        t += epose(prm["A"]) + [str(len(v) // 3)] + ev(v) + [str(len(tr) // 3)] + [str(int(x)) for x in tr]
    t.append(str(len(pts)))
    for p in pts:
        t += ev(p)
    return t


def parse_model(out):
    """'ok b b ; br br' -> (list of bool, list of branch) | {'err': enum} | None"""
    if out is None:
        return None
    parts = out.split()
    if not parts:
        return None
    if parts[0] == "err":
        return {"err": parts[1]}
    if parts[0] != "ok":
        return None
    k = parts.index(";") if ";" in parts else len(parts)
    return [x == "1" for x in parts[1:k]], parts[k + 1:]


# =============================================================================== exact oracle
class Exact:
    """exact-rational local-frame geometry of one shape (independent of the Lean model)"""

    def __init__(self, shape, prm):
        self.shape = shape
        self.prm = prm
        if shape == "sphere":
            self.t = [fr(x) for x in prm["c"]]
        elif shape == "disk":
            self.t = [fr(x) for x in prm["c"]]
            self.n = [fr(x) for x in prm["n"]]
        else:
            A = np.array(prm["A"], dtype=float)
            self.R = [[fr(A[i, j]) for j in range(3)] for i in range(3)]
            self.t = [fr(A[i, 3]) for i in range(3)]
        if shape == "mesh":
            V = [[fr(x) for x in v] for v in np.array(prm["verts"], dtype=float).reshape(-1, 3)]
            tris = np.array(prm["tris"], dtype=int).reshape(-1, 3)
            used = sorted(set(int(i) for i in tris.reshape(-1)))
            cen = [sum(V[i][k] for i in used) / len(used) for k in range(3)] if used else [Fr(0)] * 3
            self.planes = []
            for (i, j, k) in tris:
                a, b, c = V[i], V[j], V[k]
                u = [b[m] - a[m] for m in range(3)]
                w = [c[m] - a[m] for m in range(3)]
                n = [u[1] * w[2] - u[2] * w[1], u[2] * w[0] - u[0] * w[2], u[0] * w[1] - u[1] * w[0]]
                nn = n[0] * n[0] + n[1] * n[1] + n[2] * n[2]
                if nn == 0:
                    continue
                # orientation from the centroid of the used vertices, not from the winding
                if sum(n[m] * (cen[m] - a[m]) for m in range(3)) > 0:
                    n = [-x for x in n]
                self.planes.append((n, a, fsqrt(nn)))

    def local(self, p):
        d = [fr(p[i]) - self.t[i] for i in range(3)]
        if self.shape == "sphere":
            return d
        if self.shape == "disk":
            z = sum(d[i] * self.n[i] for i in range(3))
            rad2 = sum(x * x for x in d) - z * z
            return [fsqrt(max(rad2, Fr(0))), Fr(0), z]     # (rho, 0, z): only rho and z matter
        R = self.R
        return [sum(R[i][j] * d[i] for i in range(3)) for j in range(3)]

    def signed(self, q, dl):
        """(lo, hi): `hi <= -dl` certifies 'at least dl inside', `lo >= dl` certifies 'at least dl outside'.
        For most shapes lo = hi = exact signed distance (up to 1e-30)."""
        s, prm = self.shape, self.prm
        if s == "sphere":
            sd = fsqrt(q[0] * q[0] + q[1] * q[1] + q[2] * q[2]) - fr(prm["r"])
            return sd, sd
        rho = fsqrt(q[0] * q[0] + q[1] * q[1])
        z = q[2]
        if s == "capsule":
            hh = fr(prm["h"]) / 2
            zc = min(max(z, -hh), hh)
            sd = fsqrt(rho * rho + (z - zc) * (z - zc)) - fr(prm["r"])
            return sd, sd
        if s in ("cylinder", "box"):
            if s == "cylinder":
                ex = [rho - fr(prm["r"]), abs(z) - fr(prm["h"]) / 2]
            else:
                ex = [abs(q[i]) - fr(prm["size"][i]) / 2 for i in range(3)]
            m = max(ex)
            if m <= 0:
                return m, m
            sd = fsqrt(sum(x * x for x in ex if x > 0))
            return sd, sd
        if s == "disk":
            a = rho - fr(prm["r"])
            sd = fsqrt((a * a if a > 0 else 0) + z * z)
            return sd, sd
        if s == "cone":
            r, h = fr(prm["r"]), fr(prm["h"])
            m = fsqrt(r * r + h * h)
            lat = (r * (h - z) - rho * h) / m          # distance to the lateral surface, >= 0 inside
            if z >= 0 and lat >= 0:
                sd = -min(z, lat)
                return sd, sd
            # outside: distance in the (rho, z) half-plane to the triangle O=(0,0), B=(r,0), T=(0,h)
            def seg(ax, az, bx, bz):
                ux, uz = bx - ax, bz - az
                den = ux * ux + uz * uz
                tt = ((rho - ax) * ux + (z - az) * uz) / den if den else 0
                tt = min(max(tt, 0), 1)
                dx, dz = rho - (ax + tt * ux), z - (az + tt * uz)
                return dx * dx + dz * dz
            d2 = min(seg(0, 0, r, 0), seg(r, 0, 0, h), seg(0, h, 0, 0))
            sd = fsqrt(d2)
            return sd, sd
        if s == "ellipsoid":
            rr = [fr(x) for x in prm["radii"]]
            F = sum((q[i] / rr[i]) ** 2 for i in range(3)) - 1
            g = 2 * fsqrt(sum((q[i] / (rr[i] * rr[i])) ** 2 for i in range(3)))
            g_hi = g + Fr(1, 10 ** 29)
            rmin = min(rr)
            # B(q,dl) inside E  <=  F + dl*|g| + dl^2/rmin^2 <= 0 ;  B(q,dl) misses E  <=  F - dl*|g| > 0
            if F + dl * g_hi + dl * dl / (rmin * rmin) <= 0:
                return -dl, -dl
            if F - dl * g_hi > 0:
                return dl, dl
            return Fr(0), Fr(0)
        # mesh: signed distances to the (outward) face planes
        if not self.planes:
            return Fr(0), Fr(0)
        sds = [sum(n[m] * (q[m] - a[m]) for m in range(3)) / nl for (n, a, nl) in self.planes]
        mx = max(sds)
        if mx <= 0:
            return mx, mx          # inside: depth = distance to the nearest face plane (convex polytope)
        return mx, mx              # outside: the largest violated half-space distance is a lower bound

    def classify(self, p, L):
        dl = Fr(DELTA) * fr(L) + Fr(SLACK) * fr(L)
        lo, hi = self.signed(self.local(p), dl)
        if hi <= -dl:
            return "in"
        if lo >= dl:
            return "out"
        return "band"

    def classify2(self, p, L):
        """'out2' = at least 2*delta*L outside (for the distance cross-check)"""
        dl = 2 * (Fr(DELTA) * fr(L) + Fr(SLACK) * fr(L))
        lo, hi = self.signed(self.local(p), dl)
        return lo >= dl


# =============================================================================== generators
DY = [0.0, 0.5, -0.5, 1.0, -1.0, 2.0, -2.0, 3.0, -4.25, 0.25, 8.0]
SZ = [0.25, 0.5, 1.0, 1.5, 2.0, 3.0, 4.0]


def perm_rot(rng):
    while True:
        perm = rng.sample(range(3), 3)
        R = np.zeros((3, 3))
        for i in range(3):
            R[i, perm[i]] = rng.choice([-1.0, 1.0])
        if round(np.linalg.det(R)) == 1:
            return R


def pyth_rot(rng):
    c, s = rng.choice([(0.6, 0.8), (0.8, 0.6), (-0.6, 0.8), (0.6, -0.8), (5 / 13, 12 / 13), (-0.8, -0.6),
                       (7 / 25, 24 / 25)])
    k = rng.randrange(3)
    R = np.eye(3)
    i, j = [(1, 2), (2, 0), (0, 1)][k]
    R[i, i], R[i, j], R[j, i], R[j, j] = c, -s, s, c
    return perm_rot(rng) @ R @ perm_rot(rng)


def rand_rot(rng):
    while True:
        q = np.array([rng.gauss(0, 1) for _ in range(4)])
        n = np.linalg.norm(q)
        if n > 1e-3:
            break
    w, x, y, z = q / n
    return np.array([[1 - 2 * (y * y + z * z), 2 * (x * y - z * w), 2 * (x * z + y * w)],
                     [2 * (x * y + z * w), 1 - 2 * (x * x + z * z), 2 * (y * z - x * w)],
                     [2 * (x * z - y * w), 2 * (y * z + x * w), 1 - 2 * (x * x + y * y)]])


CUBE_V = [[-1, -1, -1], [1, -1, -1], [1, 1, -1], [-1, 1, -1], [-1, -1, 1], [1, -1, 1], [1, 1, 1], [-1, 1, 1]]
CUBE_T = [[0, 2, 1], [0, 3, 2], [4, 5, 6], [4, 6, 7], [0, 1, 5], [0, 5, 4], [1, 2, 6], [1, 6, 5], [2, 3, 7], [2, 7, 6],
          [3, 0, 4], [3, 4, 7]]
TET_V = [[0, 0, 0], [1, 0, 0], [0, 1, 0], [0, 0, 1]]
TET_T = [[0, 2, 1], [0, 1, 3], [0, 3, 2], [1, 2, 3]]
OCT_V = [[1, 0, 0], [-1, 0, 0], [0, 1, 0], [0, -1, 0], [0, 0, 1], [0, 0, -1]]
OCT_T = [[0, 2, 4], [2, 1, 4], [1, 3, 4], [3, 0, 4], [2, 0, 5], [1, 2, 5], [3, 1, 5], [0, 3, 5]]


def gen_mesh(rng, stream):
    if stream != "G" or rng.random() < 0.3:
        V, T = rng.choice([(CUBE_V, CUBE_T), (TET_V, TET_T), (OCT_V, OCT_T)])
        s = [rng.choice(SZ) for _ in range(3)] if stream != "G" else [10 ** rng.uniform(-0.7, 2)] * 3
        off = [rng.choice([0.0, 0.5, -0.25]) for _ in range(3)] if stream != "G" else [0.0] * 3
        verts = [[v[k] * s[k] + off[k] for k in range(3)] for v in V]
        if rng.random() < 0.3:
            verts = verts + [[sum(v[k] for v in verts) / len(verts) for k in range(3)]]   # unused interior vertex
        return verts, [list(t) for t in T]
    from distance3d.mesh import make_convex_mesh
    n = rng.choice([4, 5, 8, 12, 20])
    sc = 10 ** rng.uniform(-0.7, 2)
    while True:
        V = np.array([[rng.gauss(0, 1) * sc for _ in range(3)] for _ in range(n)])
        try:
            T = make_convex_mesh(V.copy())
            break
        except Exception:
            continue
    return V.tolist(), np.asarray(T, dtype=int).tolist()


def gen_shape(rng, shape, stream):
    """parameters of a well-formed shape; stream in Lperm / L345 / G"""
    if stream == "Lperm":
        R, t = perm_rot(rng), [rng.choice(DY) for _ in range(3)]
        size = lambda: rng.choice(SZ)  # noqa
    elif stream == "L345":
        R, t = pyth_rot(rng), [rng.choice(DY) for _ in range(3)]
        size = lambda: rng.choice(SZ)  # noqa
    else:
        R = rand_rot(rng)
        off = rng.choice([0.0, 1.0, 30.0, 1000.0])
        t = [rng.uniform(-1, 1) * off / math.sqrt(3) for _ in range(3)]
        size = lambda: 10 ** rng.uniform(math.log10(0.2), 2)  # noqa
    if rng.random() < 0.08:
        R, t = np.eye(3), [0.0, 0.0, 0.0]      # the fixture pose of the upstream tests (counted as trivial)
    A = pose_of(R, t).tolist()
    if shape == "sphere":
        return {"c": list(map(float, t)), "r": size()}
    if shape == "disk":
        return {"c": list(map(float, t)), "r": size(), "n": [float(x) for x in np.array(R)[:, 2]],
                "R": np.array(R).tolist()}
    if shape in ("capsule", "cone", "cylinder"):
        return {"A": A, "r": size(), "h": size()}
    if shape == "ellipsoid":
        return {"A": A, "radii": [size(), size(), size()]}
    if shape == "box":
        return {"A": A, "size": [size(), size(), size()]}
    verts, tris = gen_mesh(rng, stream)
    return {"A": A, "verts": verts, "tris": tris}


def special_points(shape, prm):
    """local-frame points on the features: centre, axes, apex, rim, corners, face centres (exactly on the boundary
    in real arithmetic for lattice sizes)"""
    P = [[0.0, 0.0, 0.0]]
    if shape == "sphere":
        r = prm["r"]
        P += [[r, 0, 0], [0, -r, 0], [0, 0, r], [0.6 * r, 0.8 * r, 0], [0, 0.5 * r, 0]]
    elif shape == "capsule":
        r, h = prm["r"], prm["h"]
        P += [[0, 0, 0.5 * h + r], [0, 0, -0.5 * h - r], [r, 0, 0], [0, r, 0.5 * h], [-r, 0, -0.5 * h],
              [0.6 * r, 0, 0.5 * h + 0.8 * r], [0, 0, 0.5 * h], [0, 0.6 * r, -0.5 * h - 0.8 * r]]
    elif shape == "ellipsoid":
        a, b, c = prm["radii"]
        P += [[a, 0, 0], [0, b, 0], [0, 0, -c], [0.6 * a, 0.8 * b, 0], [0, -0.6 * b, 0.8 * c], [-a, 0, 0]]
    elif shape == "disk":
        r = prm["r"]
        e = float(np.finfo(float).eps)
        P += [[r, 0, 0], [0, r, 0], [0.6 * r, -0.8 * r, 0], [0, 0, 10 * e], [0, 0, -10 * e], [0.5 * r, 0, 10 * e],
              [0, 0, ulp_step(10 * e, 1)], [0, 0, 5 * e], [0, 0.5 * r, -ulp_step(10 * e, 1)], [r, 0, 10 * e],
              [0, 0, 1e-12], [0.5 * r, 0, 1e-7]]
    elif shape == "cone":
        r, h = prm["r"], prm["h"]
        P += [[0, 0, h], [r, 0, 0], [0, -r, 0], [0.5 * r, 0, 0.5 * h], [0.3 * r, 0.4 * r, 0.5 * h], [0, 0, 0.5 * h],
              [0.6 * r, 0.8 * r, 0], [0, 0.25 * r, 0.75 * h], [0.5 * r, 0, 0], [0, 0, 0.25 * h]]
    elif shape == "cylinder":
        r, h = prm["r"], prm["h"]
        P += [[r, 0, 0.5 * h], [0, -r, -0.5 * h], [0, 0, 0.5 * h], [0, 0, -0.5 * h], [r, 0, 0], [0.6 * r, 0.8 * r, 0],
              [0.6 * r, 0.8 * r, 0.5 * h], [0.5 * r, 0, 0.5 * h]]
    elif shape == "box":
        s = [0.5 * x for x in prm["size"]]
        P += [[s[0], s[1], s[2]], [-s[0], s[1], -s[2]], [s[0], -s[1], s[2]], [s[0], 0, 0], [0, -s[1], 0], [0, 0, s[2]],
              [s[0], s[1], 0], [0, -s[1], s[2]], [-s[0], -s[1], -s[2]]]
    else:
        V = np.array(prm["verts"], dtype=float).reshape(-1, 3)
        T = np.array(prm["tris"], dtype=int).reshape(-1, 3)
        used = sorted(set(int(i) for i in T.reshape(-1)))
        P = [list(V[used].mean(axis=0))] if used else P
        for i in used[:6]:
            P.append(list(V[i]))
        for tr in T[:6]:
            P.append(list(V[tr].mean(axis=0)))
            P.append(list(0.5 * (V[tr[0]] + V[tr[1]])))
    return [[float(x) for x in p] for p in P]


def interior_point(shape, prm):
    if shape == "cone":
        return np.array([0.0, 0.0, prm["h"] / 4.0])
    if shape == "mesh":
        V = np.array(prm["verts"], dtype=float).reshape(-1, 3)
        T = np.array(prm["tris"], dtype=int).reshape(-1, 3)
        used = sorted(set(int(i) for i in T.reshape(-1)))
        return V[used].mean(axis=0)
    return np.zeros(3)


def loc_in(shape, prm, q, planes=None):
    """float local-frame predicate, used by the generators only (ray casting to the boundary)"""
    x, y, z = q
    if shape == "sphere":
        return x * x + y * y + z * z <= prm["r"] ** 2
    if shape == "capsule":
        zc = min(max(z, -0.5 * prm["h"]), 0.5 * prm["h"])
        return x * x + y * y + (z - zc) ** 2 <= prm["r"] ** 2
    if shape == "ellipsoid":
        a, b, c = prm["radii"]
        return (x / a) ** 2 + (y / b) ** 2 + (z / c) ** 2 <= 1
    if shape == "disk":
        return abs(z) <= 1e-300 and x * x + y * y <= prm["r"] ** 2
    if shape == "cone":
        return 0 <= z <= prm["h"] and x * x + y * y <= (prm["r"] * (1 - z / prm["h"])) ** 2
    if shape == "cylinder":
        return abs(z) <= 0.5 * prm["h"] and x * x + y * y <= prm["r"] ** 2
    if shape == "box":
        s = prm["size"]
        return abs(x) <= 0.5 * s[0] and abs(y) <= 0.5 * s[1] and abs(z) <= 0.5 * s[2]
    return all(float(np.dot(n, np.array(q) - a)) <= 0 for n, a in planes)


def float_planes(prm):
    V = np.array(prm["verts"], dtype=float).reshape(-1, 3)
    T = np.array(prm["tris"], dtype=int).reshape(-1, 3)
    return [(np.cross(V[t[1]] - V[t[0]], V[t[2]] - V[t[0]]), V[t[0]]) for t in T]


def boundary_points(rng, shape, prm, n):
    """local-frame points on the boundary by ray casting from an interior point (bisection on loc_in)"""
    planes = float_planes(prm) if shape == "mesh" else None
    c0 = interior_point(shape, prm)
    out = []
    ext = 4 * max(feature(shape, prm), 1e-3)
    for _ in range(n):
        if shape == "disk":
            a = rng.uniform(0, 2 * math.pi)
            u = np.array([math.cos(a), math.sin(a), 0.0])
        else:
            u = np.array([rng.gauss(0, 1) for _ in range(3)])
            if rng.random() < 0.25:
                u[rng.randrange(3)] = 0.0
            if np.linalg.norm(u) < 1e-6:
                continue
            u = u / np.linalg.norm(u)
        lo, hi = 0.0, ext
        if not loc_in(shape, prm, c0, planes) or loc_in(shape, prm, c0 + hi * u, planes):
            continue
        for _ in range(70):
            mid = 0.5 * (lo + hi)
            if loc_in(shape, prm, c0 + mid * u, planes):
                lo = mid
            else:
                hi = mid
        out.append((c0, u, lo))
    return out


def to_world(shape, prm, q):
    R, t = frame_of(shape, prm)
    return [float(x) for x in (R @ np.array(q, dtype=float) + t)]


def perturbations(rng, shape, prm, p, k):
    """world-space neighbours of p: +-ulps on coordinates, radial +-c*delta*L and +-relative steps"""
    c = center_of(shape, prm)
    p = np.array(p, dtype=float)
    L = scale_L(shape, prm, p)
    d = p - c
    nd = float(np.linalg.norm(d))
    out = []
    for _ in range(k):
        kind = rng.random()
        if kind < 0.3:
            qn = p.copy()
            for i in range(3):
                if rng.random() < 0.6:
                    qn[i] = ulp_step(qn[i], rng.choice([-4, -2, -1, 1, 2, 4]))
            out.append(qn)
        elif kind < 0.8 and nd > 0:
            cfac = rng.choice([0.3, -0.3, 3.0, -3.0, 30.0, -30.0, 1.5, -1.5, 300.0, -300.0, 6.0, -6.0])
            out.append(c + d * (1 + cfac * DELTA * L / nd))
        elif nd > 0:
            out.append(c + d * (1 + rng.choice([1e-6, -1e-6, 1e-3, -1e-3, 0.5, -0.5, 1.0])))
        else:
            out.append(p + np.array([rng.choice([-1, 1]) * DELTA * L * rng.choice([0.3, 3.0]), 0, 0]))
    return [[float(x) for x in v] for v in out]


def gen_case(rng, shape, stream, npts):
    prm = gen_shape(rng, shape, stream)
    pts = []
    for q in special_points(shape, prm):
        p = to_world(shape, prm, q)
        pts.append(p)
        pts += perturbations(rng, shape, prm, p, 2)
    nb = max(2, npts // 6)
    for (c0, u, lam) in boundary_points(rng, shape, prm, nb):
        p = to_world(shape, prm, c0 + lam * u)
        pts.append(p)
        pts += perturbations(rng, shape, prm, p, 2)
    ext = 1.5 * max(feature(shape, prm), 0.1)
    for _ in range(max(2, npts // 8)):
        q = [rng.uniform(-ext, ext) for _ in range(3)]
        if shape == "disk" and rng.random() < 0.7:
            q[2] = rng.choice([0.0, 1e-16, -3e-15, 1e-13])
        pts.append(to_world(shape, prm, q))
    rng.shuffle(pts)
    pts = pts[:npts]
    R, t = frame_of(shape, prm)
    trivial = bool(np.array_equal(R, np.eye(3)) and not np.any(t))
    exact = (shape == "sphere") or stream == "Lperm"
    return {"shape": shape, "prm": prm, "points": pts, "stream": stream, "exact": exact,
            "rational": stream == "Lperm", "trivial": trivial}


def malformed_cases(rng):
    I = np.eye(4).tolist()
    P = [[0.0, 0.0, 0.0], [0.5, 0.0, 0.0], [0.0, 0.0, 0.25], [0.0, 2.0, 0.0], [1.0, 0.0, 0.0], [0.0, 0.0, -1.0]]
    A = pose_of(perm_rot(rng), [0.5, -1.0, 2.0]).tolist()
    cs = [
        ("capsule", {"A": I, "r": 1.0, "h": 0.0}, P),
        ("capsule", {"A": A, "r": 0.5, "h": 0.0}, P[:1]),
        ("ellipsoid", {"A": I, "radii": [1.0, 0.0, 1.0]}, P),
        ("ellipsoid", {"A": A, "radii": [0.0, 2.0, 1.0]}, P[1:3]),
        ("cone", {"A": I, "r": 1.0, "h": 0.0}, P),              # base-plane points hit 0/0
        ("cone", {"A": I, "r": 1.0, "h": 0.0}, [P[2], P[5]]),   # no base-plane point: no division
        ("cone", {"A": I, "r": 0.0, "h": 1.0}, P),
        ("sphere", {"c": [0.0, 0.0, 0.0], "r": 0.0}, P),
        ("sphere", {"c": [0.5, 0.0, 0.0], "r": -1.0}, P),
        ("cylinder", {"A": I, "r": 0.0, "h": 1.0}, P),
        ("cylinder", {"A": I, "r": 1.0, "h": 0.0}, P),
        ("box", {"A": I, "size": [0.0, 1.0, 1.0]}, P),
        ("box", {"A": A, "size": [1.0, 1.0, 1.0]}, []),
        ("disk", {"c": [0.0, 0.0, 0.0], "r": 0.0, "n": [0.0, 0.0, 1.0], "R": np.eye(3).tolist()}, P),
        ("mesh", {"A": I, "verts": TET_V, "tris": []}, P),
        ("mesh", {"A": I, "verts": TET_V, "tris": [[0, 2, 1], [0, 1, 4]]}, P),       # index out of range
        ("mesh", {"A": I, "verts": TET_V, "tris": [[0, 2, 1], [0, 1, 4]]}, []),      # raises even for an empty batch
        ("mesh", {"A": I, "verts": TET_V, "tris": [[0, 2, 1], [0, 1, -1], [0, -1, 2], [1, 2, -1]]}, P),  # wraps
        ("mesh", {"A": I, "verts": TET_V, "tris": [[0, 2, -5]]}, P),
        ("mesh", {"A": I, "verts": TET_V, "tris": [[0, 0, 1], [0, 2, 1]]}, P),       # zero-area triangle
        ("sphere", {"c": [1.0, 2.0, 3.0], "r": 1.0}, []),
    ]
    return [{"shape": s, "prm": prm, "points": [list(map(float, p)) for p in pts], "stream": "M", "exact": True,
             "rational": True, "trivial": True, "malformed": True} for s, prm, pts in cs]


def corpus():
    """hand-written cases: the upstream fixtures' shapes plus features at exact boundaries under a perm pose"""
    A = pose_of([[0, -1, 0], [0, 0, 1], [-1, 0, 0]], [0.5, -1.0, 2.0])
    cs = []
    for shape, prm in [("cone", {"A": A.tolist(), "r": 1.0, "h": 2.0}), ("cylinder", {"A": A.tolist(), "r": 0.5, "h": 3.0}),
                       ("capsule", {"A": A.tolist(), "r": 0.5, "h": 1.0}), ("box", {"A": A.tolist(), "size": [1.0, 2.0, 0.5]}),
                       ("ellipsoid", {"A": A.tolist(), "radii": [1.0, 2.0, 0.5]}),
                       ("mesh", {"A": A.tolist(), "verts": CUBE_V, "tris": CUBE_T}),
                       ("sphere", {"c": [0.5, -1.0, 2.0], "r": 1.5}),
                       ("disk", {"c": [0.5, -1.0, 2.0], "r": 2.0, "n": [0.0, 1.0, 0.0],
                                 "R": [[0, -1, 0], [0, 0, 1], [-1, 0, 0]]})]:
        pts = []
        for q in special_points(shape, prm):
            p = to_world(shape, prm, q)
            pts.append(p)
            for i in range(3):
                for k in (-1, 1):
                    pn = list(p)
                    pn[i] = ulp_step(pn[i], k)
                    pts.append(pn)
        cs.append({"shape": shape, "prm": prm, "points": pts, "stream": "Lperm", "exact": True, "rational": True,
                   "trivial": False})
    return cs


# =============================================================================== oracle on the real code
def oracle_case(case, res, rng, support_dirs=3, dist_every=1):
    """independent property oracle. Returns list of failure dicts (function, args, observed, expected, oracle)."""
    shape, prm, pts = case["shape"], case["prm"], case["points"]
    fails = []
    fn = "points_in_" + ("convex_mesh" if shape == "mesh" else shape)
    if case.get("malformed"):
        return fails, []
    if isinstance(res, dict):
        fails.append({"function": fn, "args": {"shape": shape, "prm": prm, "points": pts, "check": "raises"},
                      "observed": res, "expected": "booleans", "oracle": "well-formed input must not produce NaN/raise"})
        return fails, []
    ex = Exact(shape, prm)
    classes = []
    for p, b in zip(pts, res):
        L = scale_L(shape, prm, p)
        cl = ex.classify(p, L)
        classes.append(cl)
        if (cl == "in" and not b) or (cl == "out" and b):
            fails.append({"function": fn, "args": {"shape": shape, "prm": prm, "points": [p], "check": "exact"},
                          "observed": b, "expected": cl == "in",
                          "oracle": "exact-rational local-frame classification: point is >= 1e-9*L %sside" % cl})
    # ---- cross-agreement with the library's own distance function
    if shape in DIST_FN:
        for idx, (p, b, cl) in enumerate(zip(pts, res, classes)):
            if idx % dist_every:
                continue
            L = scale_L(shape, prm, p)
            try:
                with np.errstate(all="ignore"):
                    d = impl_distance(shape, prm, p)
            except Exception as e:  # noqa
                d = "raised %s: %s" % (type(e).__name__, str(e)[:100])
            bad = None
            if not isinstance(d, float) or not math.isfinite(d):
                bad = "finite distance"
            elif (b or cl == "in") and d > DELTA * L * (1 + 1e-3):
                bad = "distance <= 1e-9*L for a contained / deep-inside point"
            elif cl == "out" and ex.classify2(p, L) and d <= DELTA * L:
                bad = "distance > 1e-9*L for a point >= 2e-9*L outside"
            if bad:
                fails.append({"function": "distance." + DIST_FN[shape] + " vs " + fn,
                              "args": {"shape": shape, "prm": prm, "points": [p], "check": "distance"},
                              "observed": {"contained": b, "distance": d, "class": cl}, "expected": bad,
                              "oracle": "cross-agreement predicate <-> point_to_* distance zero within 1e-9*L"})
    # ---- cross-agreement with the collider's support function
    inside = [(p, cl) for p, b, cl in zip(pts, res, classes) if b]
    if inside and support_dirs:
        try:
            col = make_collider(shape, prm)
        except Exception as e:  # noqa
            col = None
            fails.append({"function": "collider(" + shape + ")", "args": {"shape": shape, "prm": prm, "points": [],
                          "check": "support"}, "observed": "raised %s" % type(e).__name__, "expected": "collider",
                          "oracle": "collider construction"})
        for _ in range(support_dirs if col is not None else 0):
            d = np.array([rng.gauss(0, 1) for _ in range(3)])
            if rng.random() < 0.3:
                d[rng.randrange(3)] = 0.0
            if np.linalg.norm(d) < 1e-3:
                continue
            d = np.ascontiguousarray(d / np.linalg.norm(d))
            try:
                s = np.asarray(col.support_function(d), dtype=float)
            except Exception as e:  # noqa
                fails.append({"function": "support_function(" + shape + ")",
                              "args": {"shape": shape, "prm": prm, "points": [], "check": "support", "dir": d.tolist()},
                              "observed": "raised %s: %s" % (type(e).__name__, str(e)[:100]), "expected": "a point",
                              "oracle": "support function must evaluate"})
                break
            hs = float(np.dot(d, s))
            for p, cl in inside:
                L = scale_L(shape, prm, p)
                if float(np.dot(d, np.array(p))) > hs + DELTA * L * (1 + 1e-3):
                    fails.append({"function": "support_function(" + shape + ") vs " + fn,
                                  "args": {"shape": shape, "prm": prm, "points": [p], "check": "support",
                                           "dir": d.tolist()},
                                  "observed": {"d.p": float(np.dot(d, np.array(p))), "d.support": hs, "class": cl},
                                  "expected": "d.p <= d.support(d) + 1e-9*L for a contained point",
                                  "oracle": "cross-agreement predicate <-> support function"})
                    break
    return fails, classes


def report_fails(ctx, fails):
    for f in fails[:20]:
        ctx.fail(f["function"], f["args"], f["observed"], f["expected"], f["oracle"])


# =============================================================================== correspondence
def run_cases(ctx, cases, tag):
    drv = core.Driver("c13-" + tag)
    plan = []
    for case in cases:
        shape, prm, pts = case["shape"], case["prm"], case["points"]
        res = impl_call(shape, prm, pts)
        fid = drv.add("C13." + shape, "F", enc_case(shape, prm, pts, "F"))
        qid = drv.add("C13." + shape, "Q", enc_case(shape, prm, pts, "Q")) if case.get("rational") else None
        plan.append((case, res, fid, qid))
    out = drv.run()
    ties = ctx.extra.setdefault("ties", {})
    for case, res, fid, qid in plan:
        shape, prm, pts = case["shape"], case["prm"], case["points"]
        fn = "points_in_" + ("convex_mesh" if shape == "mesh" else shape)
        seed_input = {"shape": shape, "prm": prm, "points": pts}
        # ---- oracle first (independent of the model)
        fails, classes = oracle_case(case, res, ctx.rng)
        report_fails(ctx, fails)
        # ---- element-wise: single-row calls agree with the batch
        if isinstance(res, list):
            for i in list(range(min(3, len(pts)))) + ([len(pts) - 1] if len(pts) > 3 else []):
                one = impl_call(shape, prm, [pts[i]])
                # np.dot rounds differently for different batch shapes (BLAS): inside the band a flip is a tie
                if one != [res[i]] and (case["exact"] or i >= len(classes) or classes[i] != "band"):
                    ctx.fail(fn, {"shape": shape, "prm": prm, "points": pts, "check": "batch", "index": i},
                             {"batch": res[i], "single": one}, "same value", "batch result = single-row result")
        # ---- model at Float
        m = parse_model(out.get(fid))
        mq = parse_model(out.get(qid)) if qid else None
        stream = case["stream"]
        if m is None:
            ctx.broke("correspondence", fn, "driver output unreadable: %r" % (out.get(fid),), seed_input)
            continue
        if isinstance(res, dict) or isinstance(m, dict):
            ctx.count(stream + ":" + shape, key=(shape, str(prm), "err"), nontrivial=False)
            ctx.branch(shape, "err:" + (m.get("err") if isinstance(m, dict) else "none"))
            if not (isinstance(res, dict) and isinstance(m, dict) and res["err"] == m["err"]):
                ctx.broke("correspondence", fn, "implementation %s, model %s" % (res, m if isinstance(m, dict) else "ok"),
                          seed_input)
            if mq is not None and not (isinstance(mq, dict) and isinstance(m, dict) and mq["err"] == m["err"]):
                ctx.broke("correspondence", fn, "model Float %s vs model Rat %s" % (m, mq), seed_input)
            continue
        mb, mbr = m
        if len(mb) != len(pts):
            ctx.broke("correspondence", fn, "model returned %d booleans for %d points" % (len(mb), len(pts)), seed_input)
            continue
        ex = None
        pk = hash(str(prm))
        for i, p in enumerate(pts):
            ctx.count(stream + ":" + shape, key=(shape, pk, tuple(p)), nontrivial=not case.get("trivial"),
                      sample={"stream": stream, "fn": fn, "point": p, "impl": res[i], "model": mb[i]})
            if i < len(mbr):
                ctx.branch(shape, mbr[i])
            cl = classes[i] if i < len(classes) else ("n/a" if case.get("malformed") else None)
            if mb[i] != res[i]:
                if cl is None:
                    ex = ex or Exact(shape, prm)
                    cl = ex.classify(p, scale_L(shape, prm, p))
                if case["exact"] or cl != "band":
                    ctx.broke("correspondence", fn,
                              "point %s: implementation %s, model(Float) %s, exact class %s, stream %s%s"
                              % (p, res[i], mb[i], cl, stream, " (order-independent arithmetic: no tie allowed)"
                                 if case["exact"] else ""),
                              {"shape": shape, "prm": prm, "points": [p]})
                else:
                    ties[shape] = ties.get(shape, 0) + 1
            if mq is not None and not isinstance(mq, dict) and i < len(mq[0]) and cl != "n/a":
                qb = mq[0][i]
                if cl is None:
                    ex = ex or Exact(shape, prm)
                    cl = ex.classify(p, scale_L(shape, prm, p))
                # the model at exact rationals against the independent exact oracle and against the implementation
                if (cl == "in" and not qb) or (cl == "out" and qb):
                    ctx.broke("correspondence", fn, "model(Rat) %s but exact oracle says %s for point %s" % (qb, cl, p),
                              {"shape": shape, "prm": prm, "points": [p]})
                if qb != res[i] and cl != "band":
                    ctx.broke("correspondence", fn, "model(Rat) %s vs implementation %s outside the band (%s), point %s"
                              % (qb, res[i], cl, p), {"shape": shape, "prm": prm, "points": [p]})
                if qb != res[i]:
                    ctx.extra["rat_vs_float_rounding_ties"] = ctx.extra.get("rat_vs_float_rounding_ties", 0) + 1
        if classes:
            for c in classes:
                ctx.branch("class:" + shape, c)


def gen_cases(ctx, ncase, npts, streams=("Lperm", "L345", "G")):
    cases = []
    for shape in SHAPES:
        for stream in streams:
            for _ in range(ncase[stream]):
                cases.append(gen_case(ctx.rng, shape, stream, npts))
    return cases


def correspondence(ctx):
    run_cases(ctx, corpus() + malformed_cases(ctx.rng), "corpus")
    n = {"Lperm": ctx.budget(10, 80), "L345": ctx.budget(6, 50), "G": ctx.budget(14, 160)}
    run_cases(ctx, gen_cases(ctx, n, ctx.budget(40, 60)), "gen")


# =============================================================================== search
def search(ctx):
    """oracle only (no model): more shapes, larger batches, more support directions"""
    boost = 3 if ctx.extra.get("search_boost") else 1
    n = {"Lperm": ctx.budget(4, 40) * boost, "L345": ctx.budget(4, 40) * boost, "G": ctx.budget(12, 200) * boost}
    for case in gen_cases(ctx, n, ctx.budget(50, 80)):
        res = impl_call(case["shape"], case["prm"], case["points"])
        fails, classes = oracle_case(case, res, ctx.rng, support_dirs=5)
        report_fails(ctx, fails)
        pk = hash(str(case["prm"]))
        for p, cl in zip(case["points"], classes):
            ctx.count("search:" + case["stream"] + ":" + case["shape"],
                      key=(case["shape"], pk, tuple(p)), nontrivial=not case.get("trivial"))
    batch_independence(ctx)


def batch_independence(ctx):
    """the answer for a point does not depend on the batch it is asked in: the points of a judged case are tiled to
    batches of 1023, 1024, 1025, 2048 and 4096 rows (blocked / vectorised evaluation must cover every row)"""
    for shape in SHAPES:
        case = gen_case(ctx.rng, shape, "G", 64)
        base = impl_call(shape, case["prm"], case["points"])
        if isinstance(base, dict):
            continue
        for n in (1023, 1024, 1025, 2048, 4096):
            pts = [case["points"][i % len(case["points"])] for i in range(n)]
            res = impl_call(shape, case["prm"], pts)
            ctx.count("search:batch:" + shape, key=(shape, n, hash(str(case["prm"]))))
            if isinstance(res, dict) or any(res[i] != base[i % len(base)] for i in range(n)):
                bad = None if isinstance(res, dict) else next(i for i in range(n) if res[i] != base[i % len(base)])
                ctx.fail(FN[shape] if "FN" in globals() else "points_in_" + shape,
                         {"shape": shape, "prm": case["prm"], "points": case["points"], "batch": n, "row": bad}, res if isinstance(res, dict) else bool(res[bad]),
                         "the same answer as in a batch of %d points: %r" % (len(base), None if bad is None else base[bad % len(base)]),
                         "batch-size independence of a pointwise predicate")
                break


# =============================================================================== replay
def replay_batch(args):
    base = impl_call(args["shape"], args["prm"], args["points"])
    n = int(args["batch"])
    res = impl_call(args["shape"], args["prm"], [args["points"][i % len(args["points"])] for i in range(n)])
    ok = (not isinstance(res, dict)) and (not isinstance(base, dict)) and all(res[i] == base[i % len(base)] for i in range(n))
    print("batch of %d rows tiled from %d points: %s" % (n, len(args["points"]), "same answers" if ok else "answers differ"))
    return ok


def replay(ctx, payload):
    if isinstance(payload.get("args"), dict) and "batch" in payload["args"]:
        return replay_batch(payload["args"])
    args = payload.get("args")
    if not args:
        for b in payload.get("broken", []):
            if b.get("seed_input") and "shape" in b["seed_input"]:
                args = b["seed_input"]
                break
    if not args:
        print("replay file names no input:", payload.get("broken"))
        return False
    case = {"shape": args["shape"], "prm": args["prm"], "points": args["points"], "stream": "replay"}
    res = impl_call(case["shape"], case["prm"], case["points"])
    print("implementation returns:", res)
    import random
    rng = random.Random(0)
    ok = True
    if args.get("check") == "batch":
        i = args["index"]
        one = impl_call(case["shape"], case["prm"], [case["points"][i]])
        if not isinstance(res, list) or one != [res[i]]:
            cl = Exact(case["shape"], case["prm"]).classify(case["points"][i],
                                                            scale_L(case["shape"], case["prm"], case["points"][i]))
            if cl != "band":
                print("FAIL batch vs single:", res[i] if isinstance(res, list) else res, one, "class", cl)
                ok = False
            else:
                print("batch and single-row results differ inside the 1e-9*L band (np.dot rounding): tie")
    if args.get("check") == "support" and args.get("dir") and isinstance(res, list):
        d = np.ascontiguousarray(np.array(args["dir"], dtype=float))
        s = np.asarray(make_collider(case["shape"], case["prm"]).support_function(d), dtype=float)
        for p, b in zip(case["points"], res):
            L = scale_L(case["shape"], case["prm"], p)
            if b and float(np.dot(d, np.array(p))) > float(np.dot(d, s)) + DELTA * L * (1 + 1e-3):
                print("FAIL support: d.p = %r > d.support = %r" % (float(np.dot(d, np.array(p))), float(np.dot(d, s))))
                ok = False
    fails, classes = oracle_case(case, res, rng, support_dirs=8)
    for f in fails:
        print("FAIL", f["function"], "observed", f["observed"], "expected", f["expected"], "|", f["oracle"])
        ok = False
    print("exact classes:", classes)
    return ok
