"""C04 — collider AABBs enclose the shape and are tight on every axis.

correspondence: Lean model (D3/Model/Containment.lean) vs containment.*_aabb, every collider
class's aabb(), Margin.aabb, RigidBody.aabb/express_in;
search: definition-level oracle on the real code (membership-checked surface samples, aimed
extreme points, exact min/max for vertex sets, world-frame vertices for RigidBody).
"""
import itertools
import math
from fractions import Fraction as Fr

import numpy as np

import core
from core import f2h, h2f, q2s, s2q

RULE = ("one case = one collider/free function/RigidBody with concrete pose and sizes, drawn from one PRNG: lattice "
        "stream (signed axis permutations and products of 3-4-5-type rational rotations, dyadic sizes/offsets; model "
        "evaluated exactly at Rat, compared at 1e-12*scale), general stream (random unit-quaternion poses, sizes "
        "1e-2..1e2, offsets to 1e3; model at Float, compared at 1e-9*scale), malformed stream (empty vertex sets, "
        "zero sizes, over-long normals: compared on the error enum); a case is non-trivial unless its pose is the "
        "identity; distinct = distinct encoded input line")
EXPLANATION = ("aabb_encloses/aabb_tight are proved for the Lean model at exact real arithmetic for every orthonormal "
               "pose; this run compares that very model (at Rat on lattice poses, at Float on random poses) with the "
               "implementation and runs an independent sampling oracle on the real code")
PARTIAL = {
    "ellipsoidAabb_asIs_axis_aligned_partial":
        "the code as it is (ellipsoidAabb_asIs) is proved correct only for signed-permutation poses; for rotated poses "
        "the full statement is false (ellipsoidAabb_asIs_not_enclosing); the full theorem is proved for the repaired "
        "ellipsoidAabb_fixed only (known finding F-ellipsoid-aabb)",
    "collider_aabb_spec_asIs":
        "as-coded Collider.aabb: every collider except those containing an ellipsoid with a non-axis-aligned pose",
}
ASSUMPTIONS = [
    "float rounding is not modelled: the theorems are at exact real arithmetic; the 1e-9*L tolerance of the property is "
    "the allowance of the correspondence and of the oracle",
]
TRUSTED = ["containment.py is modelled in full; of colliders.py only the data each aabb() reads; of _rigid_body.py "
           "aabb(), aabbs, tetrahedra_points, express_in (mesh factories are C17)"]

MANIFEST = dict(
    text=("Lean theorems <shape>_aabb_encloses / <shape>_aabb_tight for sphere, box, vertex hull, mesh, margin, cylinder, "
          "capsule, disk, cone, ellipse and the repaired ellipsoid for every orthonormal pose (sqrt arguments proved "
          "non-negative), collider_aabb_spec over the collider sum type, intersect_imp_aabbOverlap; counterexample "
          "theorems for ellipsoid_aabb under rotation (known finding) and for RigidBody.aabb before its repair; "
          "the model of containment.py / Collider.aabb / Margin.aabb / RigidBody.aabb is compared with the "
          "implementation on lattice (exact Rat) and random poses; sampling oracle on the real code. " 
          "Link theorems (regenerated from today's source by py2lean on every run, D3/Gen/Link04.lean) tie containment.sphere_aabb, capsule_aabb, cone_aabb (rfl, every input) and disk_aabb, cylinder_aabb (on the model's non-NaN case, guards as explicit hypotheses) to the model. "),
    note=("trusted: Lean kernel + Mathlib, axioms propext/Classical.choice/Quot.sound; exact-real semantics (float "
          "rounding not modelled); correspondence harness (sampling)."),
    technique="Lean 4 proof on hand-written model + correspondence (Rat-exact on rational rotations, Float on random poses) + py2lean-regenerated kernels linked to the model by theorem",
    design="§7 C04")

F_ELL = "F-ellipsoid-aabb"

PRIMS = ["sphere", "hull", "box", "mesh", "capsule", "ellipsoid", "cylinder", "disk", "ellipse", "cone"]


# ------------------------------------------------------------------ exact rotations
def _mm(A, B):
    return [[sum(A[i][k] * B[k][j] for k in range(3)) for j in range(3)] for i in range(3)]


def _det(M):
    return (M[0][0] * (M[1][1] * M[2][2] - M[1][2] * M[2][1]) - M[0][1] * (M[1][0] * M[2][2] - M[1][2] * M[2][0])
            + M[0][2] * (M[1][0] * M[2][1] - M[1][1] * M[2][0]))


def _perms():
    out = []
    for p in itertools.permutations(range(3)):
        for sg in itertools.product([1, -1], repeat=3):
            M = [[Fr(0)] * 3 for _ in range(3)]
            for i in range(3):
                M[i][p[i]] = Fr(sg[i])
            if _det(M) == 1:
                out.append(M)
    return out


PERMS = _perms()
IDENT = [[Fr(int(i == j)) for j in range(3)] for i in range(3)]
PYTH = [(3, 4, 5), (4, 3, 5), (5, 12, 13), (12, 5, 13), (8, 15, 17), (7, 24, 25), (24, 7, 25)]


def rot_axis(k, c, s):
    i, j = [(1, 2), (2, 0), (0, 1)][k]
    M = [[Fr(int(a == b)) for b in range(3)] for a in range(3)]
    M[i][i] = c
    M[i][j] = -s
    M[j][i] = s
    M[j][j] = c
    return M


def lattice_rot(rng):
    """(R as Fractions, kind)"""
    u = rng.random()
    if u < 0.08:
        return IDENT, "identity"
    R = rng.choice(PERMS)
    if u < 0.35:
        return R, "perm"
    n = 1 if u < 0.75 else 2
    for _ in range(n):
        a, b, c = rng.choice(PYTH)
        R = _mm(R, rot_axis(rng.randrange(3), Fr(a, c) * rng.choice([1, -1]), Fr(b, c) * rng.choice([1, -1])))
    if rng.random() < 0.5:
        R = _mm(R, rng.choice(PERMS))
    return R, "pyth%d" % n


def quat_rot(rng):
    while True:
        q = [rng.gauss(0, 1) for _ in range(4)]
        n = math.sqrt(sum(x * x for x in q))
        if n > 1e-3:
            break
    w, x, y, z = [v / n for v in q]
    return [[1 - 2 * (y * y + z * z), 2 * (x * y - z * w), 2 * (x * z + y * w)],
            [2 * (x * y + z * w), 1 - 2 * (x * x + z * z), 2 * (y * z - x * w)],
            [2 * (x * z - y * w), 2 * (y * z + x * w), 1 - 2 * (x * x + y * y)]]


def general_rot(rng):
    u = rng.random()
    if u < 0.85:
        return quat_rot(rng), "random"
    # small-angle perturbation of a signed permutation (angle >= 1e-4: sqrt(1-a*a) stays well conditioned)
    ang = 10 ** rng.uniform(-4, -1)
    k = rng.randrange(3)
    P = [[float(v) for v in row] for row in rng.choice(PERMS)]
    Rk = [[float(v) for v in row] for row in rot_axis(k, 0, 0)]
    c, s = math.cos(ang), math.sin(ang)
    i, j = [(1, 2), (2, 0), (0, 1)][k]
    Rk[i][i], Rk[i][j], Rk[j][i], Rk[j][j] = c, -s, s, c
    return _mm(P, Rk), "near-axis"


def gen_rot(rng, stream):
    return lattice_rot(rng) if stream == "L" else general_rot(rng)


def gen_size(rng, stream):
    if stream == "L":
        return rng.choice([Fr(1, 4), Fr(1, 2), Fr(1), Fr(3, 2), Fr(2), Fr(3)])
    return 10 ** rng.uniform(-2, 2)


def gen_t(rng, stream):
    if stream == "L":
        return [Fr(rng.randint(-8, 8), 2) for _ in range(3)]
    sc = 10 ** rng.uniform(-1, 3) / math.sqrt(3)
    return [rng.uniform(-1, 1) * sc for _ in range(3)]


def gen_point(rng, stream, scale=None):
    if stream == "L":
        return [Fr(rng.randint(-6, 6), 2) for _ in range(3)]
    return [rng.uniform(-1, 1) * scale for _ in range(3)]


CUBE_TRIS = [[0, 1, 3], [0, 3, 2], [4, 7, 5], [4, 6, 7], [0, 5, 1], [0, 4, 5], [2, 3, 7], [2, 7, 6],
             [0, 2, 6], [0, 6, 4], [1, 5, 7], [1, 7, 3]]


def gen_mesh_local(rng, stream):
    """local vertices + triangles of a convex mesh (every vertex is used by a triangle)"""
    scale = 1 if stream == "L" else 10 ** rng.uniform(-2, 2)
    n = rng.choice([4, 5, 6, 8, 12])
    pts = [gen_point(rng, stream, scale) for _ in range(n)]
    try:
        from scipy.spatial import ConvexHull
        hull = ConvexHull(np.array([[float(x) for x in p] for p in pts]))
        used = sorted(set(int(i) for i in hull.vertices))
        idx = {v: k for k, v in enumerate(used)}
        tris = [[idx[int(i)] for i in s] for s in hull.simplices]
        return [pts[i] for i in used], tris
    except Exception:
        s = [gen_size(rng, stream) for _ in range(3)]
        verts = [[sg[0] * s[0] / 2, sg[1] * s[1] / 2, sg[2] * s[2] / 2]
                 for sg in itertools.product([-1, 1], repeat=3)]
        return verts, [list(t) for t in CUBE_TRIS]


def gen_prim(rng, stream, kind=None):
    kind = kind or rng.choice(PRIMS)
    R, rk = gen_rot(rng, stream)
    t = gen_t(rng, stream)
    sp = {"kind": kind, "rot": rk}
    if kind == "sphere":
        sp.update(c=t, r=gen_size(rng, stream))
        sp["rot"] = "none"
    elif kind == "hull":
        scale = 1 if stream == "L" else 10 ** rng.uniform(-2, 2)
        n = rng.choice([1, 2, 3, 4, 6, 9, 14])
        vs = [gen_point(rng, stream, scale) for _ in range(n)]
        if stream == "L" and n >= 2 and rng.random() < 0.3:
            vs[-1] = list(vs[0])
        sp.update(vertices=[[a + b for a, b in zip(v, t)] for v in vs])
        sp["rot"] = "none"
    elif kind == "box":
        sp.update(R=R, t=t, size=[gen_size(rng, stream) for _ in range(3)])
    elif kind == "mesh":
        vs, tris = gen_mesh_local(rng, stream)
        sp.update(R=R, t=t, vertices=vs, triangles=tris)
    elif kind in ("capsule", "cylinder", "cone"):
        sp.update(R=R, t=t, r=gen_size(rng, stream), h=gen_size(rng, stream))
    elif kind == "ellipsoid":
        radii = [gen_size(rng, stream) for _ in range(3)]
        if rng.random() < 0.1:
            radii = [radii[0]] * 3
        sp.update(R=R, t=t, radii=radii)
    elif kind == "disk":
        sp.update(c=t, r=gen_size(rng, stream), n=[R[i][2] for i in range(3)])
    elif kind == "ellipse":
        sp.update(c=t, a0=[R[i][0] for i in range(3)], a1=[R[i][1] for i in range(3)],
                  r0=gen_size(rng, stream), r1=gen_size(rng, stream))
    return sp


def gen_collider(rng, stream):
    sp = gen_prim(rng, stream)
    u = rng.random()
    depth = 0 if u < 0.7 else (1 if u < 0.93 else 2)
    for _ in range(depth):
        m = gen_size(rng, stream) if rng.random() < 0.9 else (Fr(0) if stream == "L" else 0.0)
        sp = {"kind": "margin", "inner": sp, "m": m}
    return sp


def gen_rigid(rng, stream):
    """custom tetrahedral soup (sometimes with vertices no tetrahedron uses) + update_pose/express_in steps"""
    R, rk = gen_rot(rng, stream)
    t = gen_t(rng, stream)
    scale = 1 if stream == "L" else 10 ** rng.uniform(-2, 2)
    nv = rng.choice([4, 5, 6, 8, 11])
    vs = [gen_point(rng, stream, scale) for _ in range(nv)]
    nt = nv if rng.random() < 0.8 else max(4, nv - 2)
    tets = [[k, k + 1, k + 2, k + 3] for k in range(0, nt - 3)]
    for _ in range(rng.choice([0, 1, 3])):
        tets.append(rng.sample(range(nt), 4))
    rng.shuffle(tets)
    ops = []
    for _ in range(rng.choice([0, 0, 1, 1, 2, 3])):
        R2, rk2 = gen_rot(rng, stream)
        ops.append([rng.choice(["u", "e"]), {"R": R2, "t": gen_t(rng, stream)}])
        rk = rk2 if rk == "identity" else rk
    return {"kind": "rigidbody", "rot": rk, "R": R, "t": t, "vertices": vs, "tets": tets, "ops": ops}


# ------------------------------------------------------------------ float view / JSON view
def fl(x):
    if isinstance(x, dict):
        return {k: fl(v) for k, v in x.items()}
    if isinstance(x, (list, tuple)):
        return [fl(v) for v in x]
    if isinstance(x, Fr):
        return float(x)
    return x


def pose4(R, t):
    A = np.eye(4)
    A[:3, :3] = np.array(R, dtype=float)
    A[:3, 3] = np.array(t, dtype=float)
    return np.ascontiguousarray(A)


def arr(v):
    return np.ascontiguousarray(np.array(v, dtype=float))


def innermost(sp):
    while sp["kind"] == "margin":
        sp = sp["inner"]
    return sp


def margins(sp):
    m = 0.0
    while sp["kind"] == "margin":
        m += float(sp["m"])
        sp = sp["inner"]
    return m


def feature_scale(sp):
    """L of the property: max(1, largest feature size or centre distance)"""
    vals = [1.0]

    def walk(x):
        if isinstance(x, dict):
            for k, v in x.items():
                if k not in ("R", "n", "a0", "a1", "triangles", "tets", "kind", "rot"):
                    walk(v)
        elif isinstance(x, (list, tuple)):
            for v in x:
                walk(v)
        elif isinstance(x, (int, float, Fr)):
            vals.append(abs(float(x)))
    walk(sp)
    base = max(vals)
    if sp.get("kind") == "rigidbody":
        # world coordinates and the intermediate frames of express_in add up the offsets of all poses
        base = 1.0 + max([abs(float(x)) for v in sp.get("vertices", []) for x in v] + sp.get("s", []) + [0.0])
        for A in [sp] + [o[1] for o in sp.get("ops", [])]:
            base += max(abs(float(x)) for x in A["t"])
        return base
    inner = innermost(sp)
    if "vertices" in inner and "t" in inner:
        base += max(abs(float(x)) for x in inner["t"])
    return base


# ------------------------------------------------------------------ driver encoding
def tk(x, mode):
    return q2s(Fr(x)) if mode == "Q" else f2h(float(x))


def enc_v(v, mode):
    return [tk(x, mode) for x in v]


def enc_pose(R, t, mode):
    return [tk(R[i][j], mode) for i in range(3) for j in range(3)] + enc_v(t, mode)


def enc_pts(vs, mode):
    return [str(len(vs))] + [tk(x, mode) for v in vs for x in v]


def enc_collider(sp, mode):
    k = sp["kind"]
    if k == "margin":
        return ["margin", tk(sp["m"], mode)] + enc_collider(sp["inner"], mode)
    if k == "sphere":
        return [k] + enc_v(sp["c"], mode) + [tk(sp["r"], mode)]
    if k == "hull":
        return [k] + enc_pts(sp["vertices"], mode)
    if k == "box":
        return [k] + enc_pose(sp["R"], sp["t"], mode) + enc_v(sp["size"], mode)
    if k == "mesh":
        return [k] + enc_pose(sp["R"], sp["t"], mode) + enc_pts(sp["vertices"], mode)
    if k in ("capsule", "cylinder", "cone"):
        return [k] + enc_pose(sp["R"], sp["t"], mode) + [tk(sp["r"], mode), tk(sp["h"], mode)]
    if k == "ellipsoid":
        return [k] + enc_pose(sp["R"], sp["t"], mode) + enc_v(sp["radii"], mode)
    if k == "disk":
        return [k] + enc_v(sp["c"], mode) + [tk(sp["r"], mode)] + enc_v(sp["n"], mode)
    if k == "ellipse":
        return [k] + enc_v(sp["c"], mode) + enc_v(sp["a0"], mode) + enc_v(sp["a1"], mode) + [
            tk(sp["r0"], mode), tk(sp["r1"], mode)]
    raise ValueError(k)


FREE_FN = {"sphere": "C04.sphere", "hull": "C04.points", "box": "C04.box", "capsule": "C04.capsule",
           "cylinder": "C04.cylinder", "disk": "C04.disk", "ellipse": "C04.ellipse", "cone": "C04.cone"}


def enc_free(sp, mode):
    """tokens of the free-function entry point (tag dropped; `points` wants the count first)"""
    return enc_collider(sp, mode)[1:]


def enc_rigid(sp, mode):
    t = enc_pose(sp["R"], sp["t"], mode) + enc_pts(sp["vertices"], mode) + [str(len(sp["tets"]))]
    t += [str(i) for tet in sp["tets"] for i in tet]
    t += [str(len(sp["ops"]))]
    for o, A in sp["ops"]:
        t += [o] + enc_pose(A["R"], A["t"], mode)
    return t


def parse_model(out, mode):
    """-> ("ok", branch, [6 floats]) | ("err", name) | ("bad", text)"""
    if out is None:
        return ("bad", "missing")
    p = out.split()
    if p[0] == "err":
        return ("err", p[1])
    if p[0] != "ok":
        return ("bad", out[:200])
    vals = [float(s2q(s)) if mode == "Q" else h2f(s) for s in p[2:8]]
    return ("ok", int(p[1]), vals)


# ------------------------------------------------------------------ implementation
def err_name(e):
    if isinstance(e, IndexError):
        return "indexOOB"
    if isinstance(e, ValueError):
        return "badInput"
    if isinstance(e, ZeroDivisionError):
        return "divZero"
    if isinstance(e, AssertionError):
        return "assertFail"
    return "exc:" + type(e).__name__


def box6(mins, maxs):
    return [float(mins[0]), float(maxs[0]), float(mins[1]), float(maxs[1]), float(mins[2]), float(maxs[2])]


def as_res(f):
    """run f() -> ("ok", [6]) | ("nan", [6]) | ("err", name)"""
    try:
        with np.errstate(all="ignore"):
            r = f()
    except Exception as e:  # noqa
        return ("err", err_name(e), str(e)[:200])
    if isinstance(r, tuple):
        b = box6(r[0], r[1])
    else:
        r = np.asarray(r, dtype=float)
        b = [float(r[0, 0]), float(r[0, 1]), float(r[1, 0]), float(r[1, 1]), float(r[2, 0]), float(r[2, 1])]
    if any(math.isnan(x) for x in b):
        return ("nan", b)
    return ("ok", b)


def impl_free(spf):
    """the free function of distance3d.containment for a primitive spec (floats)"""
    from distance3d import containment as C
    k = spf["kind"]
    if k == "sphere":
        return as_res(lambda: C.sphere_aabb(arr(spf["c"]), spf["r"]))
    if k == "hull":
        return as_res(lambda: C.axis_aligned_bounding_box(arr(spf["vertices"]).reshape(-1, 3)))
    if k == "box":
        return as_res(lambda: C.box_aabb(pose4(spf["R"], spf["t"]), arr(spf["size"])))
    if k == "capsule":
        return as_res(lambda: C.capsule_aabb(pose4(spf["R"], spf["t"]), spf["r"], spf["h"]))
    if k == "cylinder":
        return as_res(lambda: C.cylinder_aabb(pose4(spf["R"], spf["t"]), spf["r"], spf["h"]))
    if k == "cone":
        return as_res(lambda: C.cone_aabb(pose4(spf["R"], spf["t"]), spf["r"], spf["h"]))
    if k == "ellipsoid":
        return as_res(lambda: C.ellipsoid_aabb(pose4(spf["R"], spf["t"]), arr(spf["radii"])))
    if k == "disk":
        return as_res(lambda: C.disk_aabb(arr(spf["c"]), spf["r"], arr(spf["n"])))
    if k == "ellipse":
        return as_res(lambda: C.ellipse_aabb(arr(spf["c"]), np.vstack((arr(spf["a0"]), arr(spf["a1"]))),
                                             arr([spf["r0"], spf["r1"]])))
    return None


def build(spf):
    """the collider object of distance3d.colliders for a spec (floats)"""
    from distance3d import colliders as K
    k = spf["kind"]
    if k == "margin":
        return K.Margin(build(spf["inner"]), spf["m"])
    if k == "sphere":
        return K.Sphere(arr(spf["c"]), spf["r"])
    if k == "hull":
        return K.ConvexHullVertices(arr(spf["vertices"]).reshape(-1, 3))
    if k == "box":
        return K.Box(pose4(spf["R"], spf["t"]), arr(spf["size"]))
    if k == "mesh":
        return K.MeshGraph(pose4(spf["R"], spf["t"]), arr(spf["vertices"]).reshape(-1, 3),
                           np.array(spf["triangles"], dtype=int).reshape(-1, 3))
    if k == "capsule":
        return K.Capsule(pose4(spf["R"], spf["t"]), spf["r"], spf["h"])
    if k == "cylinder":
        return K.Cylinder(pose4(spf["R"], spf["t"]), spf["r"], spf["h"])
    if k == "cone":
        return K.Cone(pose4(spf["R"], spf["t"]), spf["r"], spf["h"])
    if k == "ellipsoid":
        return K.Ellipsoid(pose4(spf["R"], spf["t"]), arr(spf["radii"]))
    if k == "disk":
        return K.Disk(arr(spf["c"]), spf["r"], arr(spf["n"]))
    if k == "ellipse":
        return K.Ellipse(arr(spf["c"]), np.vstack((arr(spf["a0"]), arr(spf["a1"]))), arr([spf["r0"], spf["r1"]]))
    raise ValueError(k)


def impl_class(spf):
    return as_res(lambda: build(spf).aabb())


def apply_ops(rb, ops):
    for o, A in ops:
        if o == "e":
            rb.express_in(pose4(A["R"], A["t"]))
        else:
            rb.update_pose(pose4(A["R"], A["t"]))
    return rb


def build_rigid(spf):
    from distance3d.hydroelastic_contact import RigidBody
    vs = arr(spf["vertices"]).reshape(-1, 3)
    tets = np.array(spf["tets"], dtype=int).reshape(-1, 4)
    rb = RigidBody(pose4(spf["R"], spf["t"]), vs, tets, np.zeros(len(vs)))
    return apply_ops(rb, spf["ops"])


# ------------------------------------------------------------------ comparison
def agree(model, impl, tol):
    """model: parse_model result; impl: as_res result"""
    if model[0] == "bad":
        return False
    if model[0] == "err":
        if impl[0] == "nan":
            return model[1] in ("sqrtNeg", "divZero")
        return impl[0] == "err" and impl[1] == model[1]
    if impl[0] != "ok":
        return False
    return all(abs(a - b) <= tol for a, b in zip(model[2], impl[1]))


def is_exact(sp):
    """all numbers are dyadic rationals (then every rotation is a signed permutation and every float operation of
    the implementation — products, sums, sqrt of 0/1/r*r, r*r/r — is exact): compare with tolerance 0"""
    def walk(x):
        if isinstance(x, dict):
            return all(walk(v) for k, v in x.items() if k not in ("kind", "rot", "triangles", "tets"))
        if isinstance(x, (list, tuple)):
            return all(walk(v) for v in x)
        if isinstance(x, Fr):
            d = x.denominator
            return d & (d - 1) == 0
        if isinstance(x, int) or isinstance(x, str):
            return True
        return False
    return walk(sp)


def is_identity(sp):
    sp = innermost(sp) if sp["kind"] != "rigidbody" else sp
    return sp.get("rot") == "identity"


# ------------------------------------------------------------------ correspondence
def correspondence(ctx):
    rng = ctx.rng
    n = ctx.budget(9000, 120000)
    cases = []
    # corpus: the witnesses of the two findings and edge inputs, first
    for sp, stream in corpus():
        cases.append((stream, sp))
    for i in range(n):
        u = rng.random()
        stream = "L" if u < 0.5 else "G"
        if rng.random() < 0.12:
            cases.append((stream, gen_rigid(rng, stream)))
        elif rng.random() < 0.5:
            # walk the primitive kinds round-robin so that every function gets the same share
            cases.append((stream, gen_prim(rng, stream, PRIMS[i % len(PRIMS)])))
        else:
            cases.append((stream, gen_collider(rng, stream)))
    for sp in malformed_cases(rng):
        cases.append(("M", sp))

    drv = core.Driver("c04-corr")
    plan = []
    for stream, sp in cases:
        mode = "Q" if stream in ("L", "M") else "F"
        spf = fl(sp)
        ids = {}
        if sp["kind"] == "rigidbody":
            ids["rb"] = drv.add("C04.rigidbody", mode, enc_rigid(sp, mode))
            ids["rb.state"] = drv.add("C04.rigidbody.state", mode, enc_rigid(sp, mode))
        else:
            toks = enc_collider(sp, mode)
            ids["cls.asis"] = drv.add("C04.collider.asis", mode, toks)
            if innermost(sp)["kind"] == "ellipsoid":
                ids["cls.fixed"] = drv.add("C04.collider.fixed", mode, toks)
            k = sp["kind"]
            if k in FREE_FN:
                ids["free"] = drv.add(FREE_FN[k], mode, enc_free(sp, mode))
            elif k == "ellipsoid":
                ids["free.asis"] = drv.add("C04.ellipsoid.asis", mode, enc_free(sp, mode))
                ids["free.fixed"] = drv.add("C04.ellipsoid.fixed", mode, enc_free(sp, mode))
        plan.append((stream, sp, spf, mode, ids))
    out = drv.run()

    variant = {"ellipsoid": {"asis": 0, "fixed": 0, "both": 0}}
    envelope = 0.0
    for stream, sp, spf, mode, ids in plan:
        L = feature_scale(spf)
        tol = (1e-12 if stream == "L" else 1e-9) * L
        if stream == "L" and is_exact(sp):
            tol = 0.0
            ctx.extra["exact_cases"] = ctx.extra.get("exact_cases", 0) + 1
        key = " ".join(enc_rigid(sp, mode) if sp["kind"] == "rigidbody" else enc_collider(sp, mode))
        ctx.count(stream + ":" + ("rigidbody" if sp["kind"] == "rigidbody" else innermost(sp)["kind"]),
                  key=key, nontrivial=not is_identity(sp),
                  sample={"stream": stream, "kind": sp["kind"], "line": key[:160]})
        seed_input = {"spec": spf}
        if sp["kind"] == "rigidbody":
            try:
                rb = build_rigid(spf)
            except Exception as e:  # noqa
                ctx.broke("correspondence", "RigidBody", "construction raised %r" % e, seed_input)
                continue
            impl = as_res(lambda: rb.aabb())
            ma = parse_model(out.get(ids["rb"]), mode)
            ctx.branch("RigidBody.aabb", "".join(o for o, _ in sp["ops"]) or "plain")
            if not agree(ma, impl, tol):
                ctx.broke("correspondence", "RigidBody.aabb", "impl=%s model=%s" % (impl, ma), seed_input)
            p = (out.get(ids["rb.state"]) or "bad").split()
            good = p[0] == "ok"
            if good:
                vals = [float(s2q(x)) if mode == "Q" else h2f(x) for x in p[2:14] + p[15:]]
                want = [float(x) for x in rb.body2origin_[:3, :3].ravel()] + [
                    float(x) for x in rb.body2origin_[:3, 3]] + [float(x) for x in np.asarray(rb.vertices_).ravel()]
                good = len(vals) == len(want) and all(abs(a - b) <= tol for a, b in zip(vals, want))
            if not good:
                ctx.broke("correspondence", "RigidBody.express_in/update_pose",
                          "state differs: %s" % " ".join(p)[:300], seed_input)
            continue
        inner = innermost(sp)
        impl_c = impl_class(spf)
        ma = parse_model(out.get(ids["cls.asis"]), mode)
        if ma[0] == "ok":
            ctx.branch(inner["kind"] + ".aabb" + ("/margin" if sp["kind"] == "margin" else ""), ma[1])
            if impl_c[0] == "ok":
                envelope = max(envelope, max(abs(a - b) for a, b in zip(ma[2], impl_c[1])) / L)
        else:
            ctx.branch(inner["kind"] + ".aabb", ma[1] if ma[0] == "err" else "bad")
        if inner["kind"] == "ellipsoid":
            mf = parse_model(out.get(ids["cls.fixed"]), mode)
            ok_a, ok_f = agree(ma, impl_c, tol), agree(mf, impl_c, tol)
            _tally(variant["ellipsoid"], ok_a, ok_f)
            if not (ok_a or ok_f):
                ctx.broke("correspondence", "Ellipsoid.aabb", "impl=%s model_asIs=%s model_fixed=%s" % (impl_c, ma, mf),
                          seed_input)
        elif not agree(ma, impl_c, tol):
            ctx.broke("correspondence", inner["kind"] + ".aabb" + ("/Margin" if sp["kind"] == "margin" else ""),
                      "impl=%s model=%s" % (impl_c, ma), seed_input)
        if "free" in ids:
            impl_f = impl_free(spf)
            mfree = parse_model(out.get(ids["free"]), mode)
            if not agree(mfree, impl_f, tol):
                ctx.broke("correspondence", "containment." + sp["kind"] + "_aabb", "impl=%s model=%s" % (impl_f, mfree),
                          seed_input)
        if "free.asis" in ids:
            impl_f = impl_free(spf)
            m1 = parse_model(out.get(ids["free.asis"]), mode)
            m2 = parse_model(out.get(ids["free.fixed"]), mode)
            ok_a, ok_f = agree(m1, impl_f, tol), agree(m2, impl_f, tol)
            _tally(variant["ellipsoid"], ok_a, ok_f)
            if not (ok_a or ok_f):
                ctx.broke("correspondence", "containment.ellipsoid_aabb",
                          "impl=%s model_asIs=%s model_fixed=%s" % (impl_f, m1, m2), seed_input)
    for name, v in variant.items():
        if v["asis"] and v["fixed"]:
            ctx.broke("correspondence", name + " variant",
                      "implementation matches the as-is model on some inputs and the repaired model on others: %s" % v)
    ctx.extra["variant_matched"] = {k: ("asIs" if v["asis"] else ("fixed" if v["fixed"] else "undetermined")) + " " + str(v)
                                    for k, v in variant.items()}
    ctx.extra["rounding_envelope_rel"] = envelope
    expected = {"cylinder.aabb": range(8), "capsule.aabb": range(8), "cone.aabb": range(27)}
    unreached = {}
    for fn, ids in expected.items():
        seen = set(ctx.branches.get(fn, {})) | set(ctx.branches.get(fn + "/margin", {}))
        miss = [i for i in ids if str(i) not in seen]
        if miss:
            unreached[fn] = miss
    ctx.extra["unreached_branches"] = unreached
    ctx.notes.append("observation (not flagged, below the model's reach): cylinder_aabb/disk_aabb/cone_aabb evaluate "
                     "sqrt(1 - a*a); for a rotation by ~1e-8 rad off an axis the returned half-extent is 0 instead of "
                     "~1e-8*radius (cancellation), i.e. off by more than 1e-9*L; the general stream keeps perturbation "
                     "angles >= 1e-4")
    if ctx.thorough:
        jit_engine(ctx, [(st, sp) for st, sp in cases if st != "M"][:4000])


def impl_run(spf):
    """one case for the second engine (core.run_engine -> worker.py)"""
    if spf["kind"] == "rigidbody":
        rb = build_rigid(spf)
        return {"cls": as_res(lambda: rb.aabb()), "free": None}
    return {"cls": impl_class(spf), "free": impl_free(spf) if spf["kind"] != "margin" else None}


def jit_engine(ctx, cases):
    """thorough tier: the same cases with the JIT on (convert_box_to_vertices, transform_points, invert_transform
    are compiled); results must agree with the interpreted engine within 1e-12*L"""
    specs = [fl(sp) for _, sp in cases]
    res = core.run_engine("c04", specs, jit=True)
    if isinstance(res, dict):
        ctx.broke("correspondence", "JIT engine", res.get("engine_error"))
        return
    nbad = 0
    for spf, r in zip(specs, res):
        ref = impl_run(spf)
        ctx.count("jit:" + spf["kind"], key=repr(spf))
        L = feature_scale(spf)
        for k in ("cls", "free"):
            a, b = ref.get(k), (r or {}).get(k)
            if a is None and b is None:
                continue
            same = (a is not None and b is not None and a[0] == b[0] and
                    (a[0] != "ok" or all(abs(x - y) <= 1e-12 * L for x, y in zip(a[1], b[1]))))
            if not same and nbad < 5:
                nbad += 1
                ctx.broke("correspondence", "JIT vs interpreted " + spf["kind"], "interp=%s jit=%s" % (a, b),
                          {"spec": spf})


def _tally(d, ok_a, ok_f):
    if ok_a and ok_f:
        d["both"] += 1
    elif ok_a:
        d["asis"] += 1
    elif ok_f:
        d["fixed"] += 1


def corpus():
    z345 = rot_axis(2, Fr(3, 5), Fr(4, 5))
    o = [Fr(0)] * 3
    out = [({"kind": "ellipsoid", "rot": "pyth1", "R": z345, "t": o, "radii": [Fr(2), Fr(1), Fr(1)]}, "L"),
           ({"kind": "ellipsoid", "rot": "identity", "R": IDENT, "t": o, "radii": [Fr(2), Fr(1), Fr(1)]}, "L"),
           ({"kind": "rigidbody", "rot": "identity", "R": IDENT, "t": [Fr(10), Fr(0), Fr(0)],
             "vertices": [[Fr(0), Fr(0), Fr(0)], [Fr(1), Fr(0), Fr(0)], [Fr(0), Fr(1), Fr(0)], [Fr(0), Fr(0), Fr(1)]],
             "tets": [[0, 1, 2, 3]], "ops": []}, "L"),
           ({"kind": "rigidbody", "rot": "perm", "R": IDENT, "t": [Fr(0), Fr(0), Fr(0)],
             "vertices": [[Fr(0), Fr(0), Fr(0)], [Fr(1), Fr(0), Fr(0)], [Fr(0), Fr(1), Fr(0)], [Fr(0), Fr(0), Fr(1)]],
             "tets": [[0, 1, 2, 3]], "ops": [["u", {"R": PERMS[5], "t": [Fr(10), Fr(0), Fr(-3)]}]]}, "L"),
           ({"kind": "cone", "rot": "perm", "R": PERMS[3], "t": o, "r": Fr(1), "h": Fr(2)}, "L"),
           ({"kind": "cone", "rot": "pyth1", "R": rot_axis(0, Fr(3, 5), Fr(4, 5)), "t": o, "r": Fr(1, 4), "h": Fr(3)}, "L"),
           ({"kind": "cone", "rot": "pyth1", "R": rot_axis(0, Fr(-3, 5), Fr(4, 5)), "t": o, "r": Fr(3), "h": Fr(1, 4)}, "L")]
    # regression input of the repaired cone_aabb NaN defect (d7ba656): identity rotation, t = (0, 0, 0.1), r = 1, h = 0.3
    out.append(({"kind": "cone", "rot": "identity", "R": fl(IDENT), "t": [0.0, 0.0, 0.1], "r": 1.0, "h": 0.3}, "G"))
    out.append(({"kind": "margin", "m": 0.25, "inner":
                 {"kind": "cone", "rot": "perm", "R": fl(PERMS[7]), "t": [1.8484031600000001, 6.31054659, 9.07312034],
                  "r": 1.0, "h": 3.4532497661554618}}, "G"))
    return out


def malformed_cases(rng):
    o = [Fr(0)] * 3
    R, _ = lattice_rot(rng)
    return [
        {"kind": "hull", "rot": "none", "vertices": []},
        {"kind": "margin", "m": Fr(1), "inner": {"kind": "hull", "rot": "none", "vertices": []}},
        {"kind": "cone", "rot": "m", "R": R, "t": o, "r": Fr(1), "h": Fr(0)},
        {"kind": "ellipsoid", "rot": "m", "R": R, "t": o, "radii": [Fr(0), Fr(1), Fr(1)]},
        {"kind": "ellipsoid", "rot": "m", "R": IDENT, "t": o, "radii": [Fr(1), Fr(0), Fr(0)]},
        {"kind": "disk", "rot": "m", "c": o, "r": Fr(1), "n": [Fr(0), Fr(0), Fr(2)]},
        {"kind": "disk", "rot": "m", "c": o, "r": Fr(1), "n": [Fr(3, 2), Fr(0), Fr(0)]},
        {"kind": "cylinder", "rot": "m", "R": [[Fr(1), Fr(0), Fr(0)], [Fr(0), Fr(1), Fr(0)], [Fr(0), Fr(0), Fr(5, 4)]],
         "t": o, "r": Fr(1), "h": Fr(1)},
        {"kind": "rigidbody", "rot": "m", "R": IDENT, "t": o, "vertices": [], "tets": [], "ops": []},
    ]


# ------------------------------------------------------------------ oracle (independent of the model)
def unit(v):
    n = np.linalg.norm(v)
    return v / n if n > 0 else v


def dirs(rng_np, n):
    d = rng_np.normal(size=(n, 3))
    return d / np.linalg.norm(d, axis=1)[:, None]


def plane_basis(n):
    n = unit(np.asarray(n, dtype=float))
    h = np.eye(3)[int(np.argmin(np.abs(n)))]
    x = unit(np.cross(n, h))
    y = np.cross(n, x)
    return x, y


def local_frame(spf):
    """(R, t) such that world = R q + t, for primitives that have a frame"""
    k = spf["kind"]
    if k in ("box", "mesh", "capsule", "cylinder", "cone", "ellipsoid"):
        return np.array(spf["R"], dtype=float), np.array(spf["t"], dtype=float)
    if k == "disk":
        x, y = plane_basis(spf["n"])
        return np.column_stack((x, y, unit(np.array(spf["n"], dtype=float)))), np.array(spf["c"], dtype=float)
    if k == "ellipse":
        a0, a1 = np.array(spf["a0"], dtype=float), np.array(spf["a1"], dtype=float)
        return np.column_stack((a0, a1, np.cross(a0, a1))), np.array(spf["c"], dtype=float)
    if k == "sphere":
        return np.eye(3), np.array(spf["c"], dtype=float)
    return np.eye(3), np.zeros(3)


def member_local(spf, q, eps):
    """definition-level membership of local points q (n,3) in the primitive's local set, slack eps"""
    k = spf["kind"]
    x, y, z = q[:, 0], q[:, 1], q[:, 2]
    rho = np.hypot(x, y)
    if k == "sphere":
        return np.linalg.norm(q, axis=1) <= spf["r"] + eps
    if k == "box":
        s = np.array(spf["size"]) / 2
        return np.all(np.abs(q) <= s + eps, axis=1)
    if k == "cylinder":
        return (rho <= spf["r"] + eps) & (np.abs(z) <= spf["h"] / 2 + eps)
    if k == "capsule":
        zc = np.clip(z, -spf["h"] / 2, spf["h"] / 2)
        return np.sqrt(rho ** 2 + (z - zc) ** 2) <= spf["r"] + eps
    if k == "cone":
        return (z >= -eps) & (z <= spf["h"] + eps) & (rho <= spf["r"] * (1 - z / spf["h"]) + eps)
    if k == "ellipsoid":
        r = np.array(spf["radii"])
        return np.linalg.norm(q / r, axis=1) <= 1 + eps / r.min()
    if k == "disk":
        return (np.abs(z) <= eps) & (rho <= spf["r"] + eps)
    if k == "ellipse":
        return (np.abs(z) <= eps) & (np.sqrt((x / spf["r0"]) ** 2 + (y / spf["r1"]) ** 2) <= 1 + eps / min(
            spf["r0"], spf["r1"]))
    raise ValueError(k)


def ring(n):
    th = np.linspace(0, 2 * math.pi, n, endpoint=False)
    return np.cos(th), np.sin(th)


def surface_local(spf, rng_np, n):
    """dense sample of boundary points of the local set that can be extreme in some direction"""
    k = spf["kind"]
    cs, sn = ring(n)
    zero = np.zeros_like(cs)
    if k == "sphere":
        return spf["r"] * dirs(rng_np, n)
    if k == "box":
        s = np.array(spf["size"]) / 2
        corners = np.array(list(itertools.product([-1, 1], repeat=3))) * s
        return np.vstack((corners, rng_np.uniform(-1, 1, size=(n, 3)) * s))
    if k == "cylinder":
        r, h = spf["r"], spf["h"]
        return np.vstack([np.column_stack((r * cs, r * sn, zero + sg * h / 2)) for sg in (-1, 1)])
    if k == "capsule":
        r, h = spf["r"], spf["h"]
        d = dirs(rng_np, n)
        return r * d + np.column_stack((zero, zero, np.sign(d[:, 2]) * h / 2))
    if k == "cone":
        r, h = spf["r"], spf["h"]
        return np.vstack((np.column_stack((r * cs, r * sn, zero)), [[0, 0, h]]))
    if k == "ellipsoid":
        return dirs(rng_np, n) * np.array(spf["radii"])
    if k == "disk":
        return np.column_stack((spf["r"] * cs, spf["r"] * sn, zero))
    if k == "ellipse":
        return np.column_stack((spf["r0"] * cs, spf["r1"] * sn, zero))
    raise ValueError(k)


def aimed_local(spf, d):
    """a point of the local set maximising <d, q> (own derivation, checked by member_local afterwards)"""
    k = spf["kind"]
    dxy = np.array([d[0], d[1], 0.0])
    nxy = np.linalg.norm(dxy)
    uxy = dxy / nxy if nxy > 0 else np.array([1.0, 0.0, 0.0])
    sz = 1.0 if d[2] >= 0 else -1.0
    if k == "sphere":
        return spf["r"] * unit(d)
    if k == "box":
        return np.where(d >= 0, 1.0, -1.0) * np.array(spf["size"]) / 2
    if k == "cylinder":
        return spf["r"] * uxy + np.array([0, 0, sz * spf["h"] / 2])
    if k == "capsule":
        return spf["r"] * unit(d) + np.array([0, 0, sz * spf["h"] / 2])
    if k == "cone":
        base = spf["r"] * uxy
        apex = np.array([0, 0, spf["h"]])
        return base if np.dot(d, base) >= np.dot(d, apex) else apex
    if k == "ellipsoid":
        r = np.array(spf["radii"])
        w = r * d
        nw = np.linalg.norm(w)
        return r * w / nw if nw > 0 else np.array([r[0], 0, 0])
    if k == "disk":
        return spf["r"] * uxy
    if k == "ellipse":
        r = np.array([spf["r0"], spf["r1"], 0.0])
        w = r * d
        nw = np.linalg.norm(w)
        return r * w / nw if nw > 0 else np.array([spf["r0"], 0, 0])
    raise ValueError(k)


def set_points(spf, rng_np, n=360):
    """world points that belong to the primitive (membership-checked), incl. aimed extremes along ±e_i and the
    collider's own support points where they pass the membership check.  For vertex sets: the vertices."""
    k = spf["kind"]
    if k == "hull":
        return np.array(spf["vertices"], dtype=float).reshape(-1, 3), True
    R, t = local_frame(spf)
    if k == "mesh":
        v = np.array(spf["vertices"], dtype=float).reshape(-1, 3)
        return v @ R.T + t, True
    pts = [surface_local(spf, rng_np, n)]
    aimed = []
    for i in range(3):
        for sg in (1.0, -1.0):
            aimed.append(aimed_local(spf, sg * R[i, :]))   # local direction = R^T (±e_i) = ± row i
    pts.append(np.array(aimed))
    q = np.vstack(pts)
    L = feature_scale(spf)
    good = member_local(spf, q, 1e-12 * L)
    q = q[good]
    w = q @ R.T + t
    # the collider's own support function along ±e_i, accepted only as far as it returns points of the set
    try:
        col = build(spf)
        sup = np.array([col.support_function(np.ascontiguousarray(sg * np.eye(3)[i]))
                        for i in range(3) for sg in (1.0, -1.0)])
        ql = (sup - t) @ R
        ok = member_local(spf, ql, 1e-10 * L)
        w = np.vstack((w, sup[ok]))
    except Exception:  # noqa
        pass
    return w, False


def oracle_collider(spf, box, rng_np):
    """box: [lo0,hi0,lo1,hi1,lo2,hi2] returned by the implementation. Returns list of problem strings."""
    inner = innermost(spf)
    m = margins(spf)
    L = feature_scale(spf)
    tol = 1e-9 * L
    pts, exact = set_points(inner, rng_np)
    lo = np.array(box[0::2])
    hi = np.array(box[1::2])
    bad = []
    if len(pts) == 0:
        return ["no sample points"]
    pmin, pmax = pts.min(axis=0) - m, pts.max(axis=0) + m   # margin set: inner points ± m e_i are members
    if m > 0:
        # more members of the margin set: p + m u
        u = dirs(rng_np, min(len(pts), 200))
        extra = pts[:len(u)] + m * u
        pmin = np.minimum(pmin, extra.min(axis=0))
        pmax = np.maximum(pmax, extra.max(axis=0))
    for i in range(3):
        if pmax[i] > hi[i] + tol:
            bad.append("not enclosing: a point of the set has coordinate %d = %.17g > hi = %.17g (excess %.3g, tol %.3g)"
                       % (i, pmax[i], hi[i], pmax[i] - hi[i], tol))
        elif abs(hi[i] - pmax[i]) > tol:
            bad.append("not tight: hi[%d] = %.17g but the extreme of the set is %.17g (gap %.3g, tol %.3g)"
                       % (i, hi[i], pmax[i], hi[i] - pmax[i], tol))
        if pmin[i] < lo[i] - tol:
            bad.append("not enclosing: a point of the set has coordinate %d = %.17g < lo = %.17g (excess %.3g, tol %.3g)"
                       % (i, pmin[i], lo[i], lo[i] - pmin[i], tol))
        elif abs(lo[i] - pmin[i]) > tol:
            bad.append("not tight: lo[%d] = %.17g but the extreme of the set is %.17g (gap %.3g, tol %.3g)"
                       % (i, lo[i], pmin[i], pmin[i] - lo[i], tol))
    return bad


def axis_aligned(R, eps=1e-12):
    R = np.abs(np.array(R, dtype=float))
    return bool(np.all((R < eps) | (np.abs(R - 1) < eps)))


def classify_ellipsoid(spf, box):
    """finding id iff the failure has the signature of the known defect: ellipsoid under a rotation that is not
    axis-aligned, and the returned box is centred with every half-extent between the diagonal term
    sum_j R_kj^2 r_j (the value the code's max is at least) and the true extent"""
    inner = innermost(spf)
    if inner["kind"] != "ellipsoid" or axis_aligned(inner["R"]):
        return None
    R = np.array(inner["R"], dtype=float)
    r = np.array(inner["radii"], dtype=float)
    t = np.array(inner["t"], dtype=float)
    m = margins(spf)
    L = feature_scale(spf)
    tol = 1e-9 * L
    lo = np.array(box[0::2]) + m
    hi = np.array(box[1::2]) - m
    true = np.sqrt((R ** 2) @ (r ** 2))
    diag = (R ** 2) @ r
    ext = (hi - lo) / 2
    if np.any(np.abs((hi + lo) / 2 - t) > tol):
        return None
    if np.any(ext > true + tol) or np.any(ext < diag - tol):
        return None
    return F_ELL


def _report(ctx, fid, *a):
    """ctx.fail, but at most 25 reports per known-finding id"""
    if fid is not None:
        k = "_nfail_" + fid
        ctx.extra[k] = ctx.extra.get(k, 0) + 1
        if ctx.extra[k] > 25:
            return
    ctx.fail(*a, finding=fid)


def check_collider(ctx, spf, rng_np, fn_name, res):
    """run the oracle on one implementation result; report failures"""
    if res[0] != "ok":
        _report(ctx, None, fn_name, {"spec": spf}, str(res), "finite bounds",
                "aabb() must return finite bounds on well-formed input")
        return False
    bad = oracle_collider(spf, res[1], rng_np)
    if bad:
        _report(ctx, classify_ellipsoid(spf, res[1]), fn_name, {"spec": spf}, {"box": res[1], "problems": bad[:6]},
                "lo - 1e-9L <= x <= hi + 1e-9L for every point x of the set; every bound attained within 1e-9L",
                "membership-checked surface samples + aimed extreme points")
        return False
    return True


def check_rigid(ctx, spf, rb, label):
    """RigidBody.aabb() must be the box of all vertices in the world frame (exact min/max, 1e-9 L)"""
    L = feature_scale(spf)
    tol = 1e-9 * L
    res = as_res(lambda: rb.aabb())
    if res[0] != "ok":
        ctx.fail("RigidBody.aabb", {"spec": spf, "how": label}, str(res), "finite bounds", "world-frame vertices")
        return False
    A = np.asarray(rb.body2origin_, dtype=float)
    V = np.asarray(rb.vertices_, dtype=float).reshape(-1, 3)
    W = V @ A[:3, :3].T + A[:3, 3]
    lo, hi = np.array(res[1][0::2]), np.array(res[1][1::2])
    wlo, whi = W.min(axis=0), W.max(axis=0)
    if np.all(np.abs(lo - wlo) <= tol) and np.all(np.abs(hi - whi) <= tol):
        return True
    ctx.fail("RigidBody.aabb", {"spec": spf, "how": label},
             {"box": res[1], "world_min": wlo.tolist(), "world_max": whi.tolist()},
             "box of the vertices transformed by body2origin_ (within 1e-9L)",
             "exact min/max over world-frame vertices", finding=None)
    return False


def factory_rigid(rng, stream):
    """RigidBody from the library's factories (spec records how to rebuild it)"""
    R, rk = gen_rot(rng, stream)
    t = gen_t(rng, stream)
    kind = rng.choice(["box", "cube", "sphere", "ellipsoid", "cylinder", "capsule"])
    s = [float(gen_size(rng, stream)) for _ in range(3)]
    if stream == "G":
        s = [min(max(x, 0.05), 20.0) for x in s]
    ops = []
    for _ in range(rng.choice([0, 1, 1, 2])):
        R2, _ = gen_rot(rng, stream)
        ops.append([rng.choice(["u", "e"]), {"R": fl(R2), "t": fl(gen_t(rng, stream))}])
    return {"kind": "rigidbody", "factory": kind, "rot": rk, "R": fl(R), "t": fl(t), "s": s, "ops": ops}


def build_factory(spf):
    from distance3d.hydroelastic_contact import RigidBody
    A = pose4(spf["R"], spf["t"])
    k, s = spf["factory"], spf["s"]
    if k == "box":
        rb = RigidBody.make_box(A, arr(s))
    elif k == "cube":
        rb = RigidBody.make_cube(A, s[0])
    elif k == "sphere":
        rb = RigidBody.make_sphere(arr(spf["t"]), s[0], order=1)
    elif k == "ellipsoid":
        rb = RigidBody.make_ellipsoid(A, arr(s), order=1)
    elif k == "cylinder":
        rb = RigidBody.make_cylinder(A, s[0], s[1], resolution_hint=max(s[0], 1e-3))
    else:
        rb = RigidBody.make_capsule(A, s[0], s[1], resolution_hint=max(s[0], 1e-3))
    return apply_ops(rb, spf["ops"])


def run_oracle(ctx, sp, rng_np):
    """oracle on one spec (collider, free function, or rigid body). Returns True iff the property held."""
    spf = fl(sp)
    if spf["kind"] == "rigidbody":
        rb = build_factory(spf) if "factory" in spf else build_rigid(spf)
        return check_rigid(ctx, spf, rb, "factory" if "factory" in spf else "custom")
    ok = check_collider(ctx, spf, rng_np, type_name(spf) + ".aabb", impl_class(spf))
    if spf["kind"] not in ("margin", "mesh"):
        name = "containment." + ("axis_aligned_bounding_box" if spf["kind"] == "hull" else spf["kind"] + "_aabb")
        ok = check_collider(ctx, spf, rng_np, name, impl_free(spf)) and ok
    return ok


def type_name(spf):
    if spf["kind"] == "margin":
        return "Margin(" + type_name(spf["inner"]) + ")"
    return {"hull": "ConvexHullVertices", "mesh": "MeshGraph"}.get(spf["kind"], spf["kind"].capitalize())


def search(ctx):
    rng = ctx.rng
    rng_np = np.random.default_rng(rng.randrange(2 ** 31))
    n = ctx.budget(6000, 150000) * (3 if ctx.extra.get("search_boost") else 1)
    held = 0
    for sp, stream in corpus():
        ctx.count("search:corpus", key=repr(fl(sp)))
        held += bool(run_oracle(ctx, sp, rng_np))
    for i in range(n):
        stream = "L" if rng.random() < 0.4 else "G"
        u = rng.random()
        if u < 0.08:
            sp = gen_rigid(rng, stream)
        elif u < 0.14:
            sp = factory_rigid(rng, stream)
        elif u < 0.55:
            sp = gen_prim(rng, stream, PRIMS[i % len(PRIMS)])
        else:
            sp = gen_collider(rng, stream)
        spf = fl(sp)
        ctx.count("search:" + stream + ":" + (spf["kind"] if spf["kind"] == "rigidbody" else innermost(spf)["kind"]),
                  key=repr(spf), nontrivial=not is_identity(sp))
        held += bool(run_oracle(ctx, sp, rng_np))
    # colliders that were MOVED: built at one pose, then update_pose() to another one — through a fresh array or
    # through one caller-owned 4x4 buffer that is overwritten in place (the collider may hold a reference to it);
    # aabb() must describe the set at the CURRENT pose
    moved = ctx.budget(600, 15000)
    for i in range(moved):
        stream = "L" if rng.random() < 0.4 else "G"
        spA = gen_prim(rng, stream, rng.choice(["box", "capsule", "cylinder", "cone", "mesh"]))
        spB = dict(spA)
        rot = gen_rot(rng, stream)
        if isinstance(rot, tuple):      # (tag, matrix) or (matrix, tag)
            tag = [x for x in rot if isinstance(x, str)]
            mat = [x for x in rot if not isinstance(x, str)]
            rot = mat[0]
            if tag and "rot" in spB:
                spB["rot"] = tag[0]
        spB["R"], spB["t"] = rot, gen_t(rng, stream)
        wrap = rng.random() < 0.25
        if wrap:
            m = gen_size(rng, stream)
            spA, spB = {"kind": "margin", "inner": spA, "m": m}, {"kind": "margin", "inner": spB, "m": m}
        fa, fb = fl(spA), fl(spB)
        ia, ib = innermost(fa), innermost(fb)
        reuse = rng.random() < 0.5
        ctx.count("search:moved:" + ("reuse" if reuse else "fresh"), key=repr((fa, fb)))

        def run_moved():
            from distance3d import colliders as K
            buf = pose4(ia["R"], ia["t"])
            k = ia["kind"]
            if k == "box":
                c = K.Box(buf, arr(ia["size"]))
            elif k == "mesh":
                c = K.MeshGraph(buf, arr(ia["vertices"]).reshape(-1, 3), np.array(ia["triangles"], dtype=int).reshape(-1, 3))
            else:
                c = {"capsule": K.Capsule, "cylinder": K.Cylinder, "cone": K.Cone}[k](buf, ia["r"], ia["h"])
            if wrap:
                c = K.Margin(c, fa["m"])
            c.aabb()
            if reuse:
                buf[...] = pose4(ib["R"], ib["t"])
                c.update_pose(buf)
            else:
                c.update_pose(pose4(ib["R"], ib["t"]))
            return c.aabb()
        held += bool(check_collider(ctx, fb, rng_np, type_name(fb) + ".aabb after update_pose"
                                    + (" (pose buffer reused in place)" if reuse else ""), as_res(run_moved)))
    # consequence for the broad phase: colliders sharing a point have overlapping boxes (closed-interval test)
    from distance3d.aabb_tree import aabb_overlap
    pairs = ctx.budget(800, 20000)
    for _ in range(pairs):
        stream = "L" if rng.random() < 0.4 else "G"
        a = gen_collider(rng, stream)
        b = gen_collider(rng, stream)
        if innermost(a)["kind"] == "ellipsoid" or innermost(b)["kind"] == "ellipsoid":
            continue
        af, bf = fl(a), fl(b)
        pa, _ = set_points(innermost(af), rng_np, 24)
        pb, _ = set_points(innermost(bf), rng_np, 24)
        if len(pa) == 0 or len(pb) == 0:
            continue
        # move b so that one of its points coincides with one of a's points: the sets intersect
        shift = pa[rng.randrange(len(pa))] - pb[rng.randrange(len(pb))]
        bf = shifted(bf, shift)
        ra, rb_ = impl_class(af), impl_class(bf)
        ctx.count("search:pair", key=repr((af, bf)))
        if ra[0] == "ok" and rb_[0] == "ok":
            A = np.array(ra[1]).reshape(3, 2)
            B = np.array(rb_[1]).reshape(3, 2)
            L = max(feature_scale(af), feature_scale(bf))
            # the shared point is only shared up to rounding of the shift: allow 1e-9 L
            Ai = A + np.array([-1e-9 * L, 1e-9 * L])
            if not aabb_overlap(np.ascontiguousarray(Ai), np.ascontiguousarray(B)):
                ctx.fail("aabb_overlap(a.aabb(), b.aabb())", {"a": af, "b": bf}, False, True,
                         "colliders sharing a point must have overlapping AABBs")
    ctx.extra["oracle_held"] = held
    for k in list(ctx.extra):
        if k.startswith("_nfail_"):
            ctx.extra["reported" + k[6:]] = ctx.extra.pop(k)


def shifted(spf, d):
    """translate a float spec by d"""
    sp = dict(spf)
    if sp["kind"] == "margin":
        sp["inner"] = shifted(sp["inner"], d)
        return sp
    for key in ("c", "t"):
        if key in sp:
            sp[key] = [float(a + b) for a, b in zip(sp[key], d)]
    if sp["kind"] == "hull":
        sp["vertices"] = [[float(a + b) for a, b in zip(v, d)] for v in sp["vertices"]]
    return sp


def replay(ctx, payload):
    args = payload.get("args") or {}
    specs = []
    if "spec" in args:
        specs.append(args["spec"])
    for b in payload.get("broken", []):
        si = b.get("seed_input") or {}
        if "spec" in si:
            specs.append(si["spec"])
    if "a" in args and "b" in args:
        from distance3d.aabb_tree import aabb_overlap
        ra, rb_ = impl_class(args["a"]), impl_class(args["b"])
        ok = ra[0] == "ok" and rb_[0] == "ok" and bool(aabb_overlap(
            np.array(ra[1]).reshape(3, 2), np.array(rb_[1]).reshape(3, 2)))
        print("pair overlap:", ok)
        return ok
    if not specs:
        print("replay file names no input:", payload.get("broken"))
        return False
    rng_np = np.random.default_rng(0)
    all_ok = True
    for sp in specs:
        n0 = len(ctx.failing)
        ok = run_oracle(ctx, sp, rng_np)
        for f in ctx.failing[n0:]:
            print("FAIL", f["function"], str(f["observed"])[:600], "finding=%s" % f["finding"])
        all_ok = all_ok and ok
    return all_ok
