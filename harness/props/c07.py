"""C07 — EPA returns the minimum translation vector whenever it reports success.

Oracle (independent of the Lean model): exact facets of the Minkowski difference A (-) B
(scipy ConvexHull of all pairwise vertex differences) for polytopes; closed-form support *values*
+ sampled and locally optimised directions for smooth colliders.  Correspondence: the Lean model
of epa.py is compared step by step on recorded polytope states (faces array per iteration,
support point from recording proxies), on whole runs replayed from the trace, and the
Lean-verified `facesCertificate` is executed in exact rational arithmetic on the returned faces.
The model is the code after the upstream repair of F-epa-inward-winding (oriented initial simplex, fix_ccw swap
through a copy); the witness scenes of that finding (known_findings.json, status "fixed") run first as regression
inputs through the model comparison and the oracle.
"""
import itertools
import math
from contextlib import contextmanager
from fractions import Fraction

import numpy as np

import core
from core import f2h, h2f, q2s

RULE = ("overlapping pairs of convex polytopes (Box, ConvexHullVertices, MeshGraph, <= 40 vertices; lattice "
        "stream: half-integer coordinates, 3-4-5 rotations, axis-aligned/touching/nested/coplanar placements; "
        "general stream: random rotations, sizes 1e-2..1e2, shallow to deep overlaps) and of smooth colliders "
        "(Sphere, Capsule, Cylinder, Ellipsoid, Cone); simplex = what gjk returns and permutations of it (both "
        "windings) and 4 random vertices of A-B containing the origin; a case is non-trivial if gjk reports an "
        "overlap and epa is actually run; distinct = distinct (pair, simplex) input")
EXPLANATION = ("success_separates / length_ge_depth / minimal_under_inv_partial / gap_under_inv are proved for every "
               "convex set and every polytope state (exit-branch theorems with an abstract support oracle); "
               "inv_initial: the invariant holds at the start for every complete simplex of non-zero volume in any row "
               "order (epa orients the rows first; the pre-repair statements are kept as ..._before_fix); "
               "this run compares the Lean model with epa.py step by step on recorded states, executes the "
               "Lean-verified faces certificate on the returned faces, and checks the property itself on the real "
               "code against exact Minkowski-difference facets")
PARTIAL = {
    "minimal_under_inv_partial": "full statement wanted: success => |mtv| < PenDepth + epsilon for every run. Proved: the "
                                 "same conclusion under the hypothesis EpaInv on the current faces (unit normals, d_f >= 0, "
                                 "intersection of the inner half-spaces contained in A-B), and EpaInv at the start for every "
                                 "complete simplex of non-zero volume with the origin inside, in any row order (inv_initial; no "
                                 "winding hypothesis since _initialize_from_simplex orients the rows). Missing: preservation of "
                                 "EpaInv by find_triangles_facing_point + extend_with_point (not proved; false after a norm<0.5 "
                                 "skip or a loose-edge overflow, and for zero-volume simplices EpaInv does not hold at the "
                                 "start). The run checks the exact depth on the real code and the certificate on the returned "
                                 "faces instead",
    "gap_under_inv": "touching contact (gap < epsilon after the translation) is proved under EpaInv only; same missing "
                     "preservation lemma",
    "facesCertificate_sound_partial": "proved: certificate => closed consistently oriented surface, no degenerate face, stored "
                                      "normals outward, origin on the inner side of every face plane, every face plane has the "
                                      "convex hull of all face vertices on its inner side (each face lies on the hull boundary). "
                                      "Missing for 'certificate => EpaInv': the converse inclusion (half-space intersection inside "
                                      "the hull, i.e. a closed locally convex surface is the whole boundary of its hull) and "
                                      "vertices in A-B (true for support points, checked by the harness against the exact facets)",
    "extend_preserves_inv": "not stated as a theorem: preservation of EpaInv by the expansion step (DESIGN §7/C07 lists it as "
                            "not expected to be proved); what is proved about the loop: every reachable face has a unit normal "
                            "(loop_pred), success comes from a passed convergence test on the returned faces (loop_success)",
}
ASSUMPTIONS = ["collider support functions satisfy the C03 contract (w is a support point of A-B in direction n)",
               "exact real arithmetic in the theorems; the 1e-6*L tolerance of the property absorbs rounding",
               "scipy.spatial.ConvexHull (qhull) facets of the pairwise vertex differences are the ground truth for "
               "polytope penetration depth"]
TRUSTED = ["epa.py contains no numba code: there is no second (JIT) engine to compare",
           "epa.py is modelled in full (Polytope, LooseEdges, epa) except the stale rows beyond n_faces (observable only "
           "on the success=False exit); gjk is not modelled here (C01): only the simplex it hands over is used",
           "smooth colliders: upper-bound oracle only (sampled + locally optimised directions), closed forms for "
           "sphere-sphere and sphere-box face contact"]

MANIFEST = dict(
    text=("Lean S2 theorems for the success exit of epa (separation, |mtv| >= depth for every polytope state, "
          "|mtv| < depth + epsilon and gap < epsilon under the polytope invariant, invariant at start for every complete "
          "non-flat simplex in any row order, before_fix/fixed theorem pairs for the repaired inward winding and fix_ccw "
          "swap, as-is counterexample for zero-volume simplices), Lean S3 "
          "faces certificate run in exact arithmetic on returned faces, step-wise correspondence of the model with "
          "epa.py, exact Minkowski-difference-facet oracle on the real code."),
    note=("trusted: Lean kernel + Mathlib (propext/Classical.choice/Quot.sound); preservation of the polytope invariant "
          "by the expansion step is not proved (PARTIAL); rounding not modelled; qhull facets as ground truth; "
          "known findings: degenerate (incomplete / zero-volume) simplex from gjk, max_faces capacity; fixed upstream: "
          "inward-wound simplex + view-aliased fix_ccw swap (F-epa-inward-winding, replayed as regression input)."),
    technique="Lean 4 exit-branch theorems on hand-written model + step-wise correspondence + Lean-verified certificate + exact facet oracle",
    design="§7 C07")

F_DEGENERATE = "F-epa-degenerate-simplex"
F_WINDING_FIXED = "F-epa-inward-winding"      # repaired upstream: regression scenes only, never attached
F_CAPACITY = "F-epa-capacity"

TOL = 1e-6


# ============================================================================ shapes
def _pose(R, t):
    T = np.eye(4)
    T[:3, :3] = R
    T[:3, 3] = t
    return T


ROT345 = [np.eye(3),
          np.array([[0.6, -0.8, 0], [0.8, 0.6, 0], [0, 0, 1.0]]),
          np.array([[1.0, 0, 0], [0, 0.6, -0.8], [0, 0.8, 0.6]]),
          np.array([[0.6, 0, 0.8], [0, 1.0, 0], [-0.8, 0, 0.6]])]


def lattice_rot(rng):
    perm = list(rng.choice(list(itertools.permutations(range(3)))))
    P = np.eye(3)[perm]
    signs = np.diag([rng.choice([-1.0, 1.0]) for _ in range(3)])
    P = P @ signs
    if np.linalg.det(P) < 0:
        P[:, 0] = -P[:, 0]
    return rng.choice(ROT345) @ P


def random_rot(rng):
    q = np.array([rng.gauss(0, 1) for _ in range(4)])
    q /= np.linalg.norm(q)
    w, x, y, z = q
    return np.array([[1 - 2 * (y * y + z * z), 2 * (x * y - z * w), 2 * (x * z + y * w)],
                     [2 * (x * y + z * w), 1 - 2 * (x * x + z * z), 2 * (y * z - x * w)],
                     [2 * (x * z - y * w), 2 * (y * z + x * w), 1 - 2 * (x * x + y * y)]])


def make(spec):
    """spec -> distance3d collider"""
    from distance3d import colliders
    k = spec["kind"]
    if k == "hull":
        return colliders.ConvexHullVertices(np.array(spec["vertices"], dtype=float))
    if k == "box":
        return colliders.Box(np.array(spec["pose"], dtype=float), np.array(spec["size"], dtype=float))
    if k == "mesh":
        return colliders.MeshGraph(np.array(spec["pose"], dtype=float), np.array(spec["vertices"], dtype=float),
                                   np.array(spec["triangles"], dtype=int))
    if k == "sphere":
        return colliders.Sphere(np.array(spec["center"], dtype=float), float(spec["radius"]))
    if k == "capsule":
        return colliders.Capsule(np.array(spec["pose"], dtype=float), float(spec["radius"]), float(spec["height"]))
    if k == "cylinder":
        return colliders.Cylinder(np.array(spec["pose"], dtype=float), float(spec["radius"]), float(spec["length"]))
    if k == "ellipsoid":
        return colliders.Ellipsoid(np.array(spec["pose"], dtype=float), np.array(spec["radii"], dtype=float))
    if k == "cone":
        return colliders.Cone(np.array(spec["pose"], dtype=float), float(spec["radius"]), float(spec["height"]))
    raise ValueError(k)


def is_poly(spec):
    return spec["kind"] in ("hull", "box", "mesh")


def world_vertices(spec):
    """own computation of the world vertices of a polytope spec"""
    k = spec["kind"]
    if k == "hull":
        return np.array(spec["vertices"], dtype=float)
    T = np.array(spec["pose"], dtype=float)
    if k == "box":
        h = 0.5 * np.array(spec["size"], dtype=float)
        loc = np.array([[sx * h[0], sy * h[1], sz * h[2]] for sx in (-1, 1) for sy in (-1, 1) for sz in (-1, 1)])
    else:
        loc = np.array(spec["vertices"], dtype=float)
    return T[:3, 3][None, :] + loc @ T[:3, :3].T


def hval(spec, n):
    """support VALUE h(n) = max <x, n> over the shape — own closed forms, independent of the library"""
    k = spec["kind"]
    n = np.asarray(n, dtype=float)
    if is_poly(spec):
        return float(np.max(world_vertices(spec) @ n))
    if k == "sphere":
        return float(np.dot(spec["center"], n) + spec["radius"] * np.linalg.norm(n))
    T = np.array(spec["pose"], dtype=float)
    c, R = T[:3, 3], T[:3, :3]
    z = R[:, 2]
    nz = float(np.dot(n, z))
    nn = float(np.dot(n, n))
    rad = math.sqrt(max(nn - nz * nz, 0.0))
    if k == "capsule":
        return float(np.dot(c, n) + 0.5 * spec["height"] * abs(nz) + spec["radius"] * math.sqrt(nn))
    if k == "cylinder":
        return float(np.dot(c, n) + 0.5 * spec["length"] * abs(nz) + spec["radius"] * rad)
    if k == "ellipsoid":
        return float(np.dot(c, n) + np.linalg.norm(np.array(spec["radii"], dtype=float) * (R.T @ n)))
    if k == "cone":
        return float(np.dot(c, n) + max(spec["radius"] * rad, spec["height"] * nz))
    raise ValueError(k)


def feature_scale(spec):
    k = spec["kind"]
    if is_poly(spec):
        v = world_vertices(spec)
        return float(np.max(v.max(axis=0) - v.min(axis=0)))
    if k == "sphere":
        return 2.0 * spec["radius"]
    if k == "capsule":
        return max(2.0 * spec["radius"], spec["height"] + 2 * spec["radius"])
    if k == "cylinder":
        return max(2.0 * spec["radius"], spec["length"])
    if k == "ellipsoid":
        return 2.0 * max(spec["radii"])
    if k == "cone":
        return max(2.0 * spec["radius"], spec["height"])
    raise ValueError(k)


def centre(spec):
    if is_poly(spec):
        return world_vertices(spec).mean(axis=0)
    if spec["kind"] == "sphere":
        return np.array(spec["center"], dtype=float)
    return np.array(spec["pose"], dtype=float)[:3, 3]


def scene_L(sa, sb):
    return max(1.0, feature_scale(sa), feature_scale(sb), float(np.linalg.norm(centre(sa) - centre(sb))))


# ---------------------------------------------------------------------------- generators
def _hull_ok(V):
    from scipy.spatial import ConvexHull
    try:
        h = ConvexHull(V)
        return h.volume > 1e-9 * max(1.0, np.abs(V).max()) ** 3
    except Exception:
        return False


def gen_poly(rng, stream, near=None, scale=None):
    """one polytope spec. `near` = a point the shape should be placed around (to get overlaps); `scale` fixes the
    feature size (used for the pairs at the two ends of the declared size range)."""
    kind = rng.choice(["box", "box", "hull", "hull", "mesh"])
    for _ in range(50):
        if stream == "L":
            t = np.array([rng.choice([-2, -1.5, -1, -0.5, 0, 0.5, 1, 1.5, 2]) for _ in range(3)])
            if near is not None:
                t = np.array(near) + np.array([rng.choice([-1, -0.5, 0, 0.5, 1]) for _ in range(3)])
            R = lattice_rot(rng) if rng.random() < 0.5 else np.eye(3)
            if kind == "box":
                size = [rng.choice([0.5, 1, 2, 4]) for _ in range(3)]
                return {"kind": "box", "pose": _pose(R, t).tolist(), "size": size}
            n = rng.choice([4, 5, 6, 8, 12, 20])
            V = np.array([[rng.choice([-1.5, -1, -0.5, 0, 0.5, 1, 1.5]) for _ in range(3)] for _ in range(n)])
            V = np.unique(V, axis=0)
            if len(V) < 4 or not _hull_ok(V):
                continue
            if kind == "hull":
                return {"kind": "hull", "vertices": (V + t).tolist()}
            return _mesh_spec(V, _pose(R, t))
        else:
            if scale is None:
                scale = 10 ** rng.uniform(-1.5, 1.5) if rng.random() < 0.3 else 10 ** rng.uniform(-0.3, 0.5)
            off = 10 ** rng.uniform(0, 3) * (1 if rng.random() < 0.15 else 0)
            base = np.array(near) if near is not None else np.array([rng.uniform(-1, 1) for _ in range(3)]) * off
            t = base + np.array([rng.gauss(0, 1) for _ in range(3)]) * scale * rng.choice([0.0, 0.2, 0.5, 0.9])
            R = random_rot(rng)
            if kind == "box":
                size = [scale * 10 ** rng.uniform(-0.5, 0.5) for _ in range(3)]
                if scale <= 0.02 or scale >= 50:     # domain-end pairs: stay inside [1e-2, 1e2]
                    size = [min(100.0, max(0.01, scale * rng.uniform(1.0, 1.3))) for _ in range(3)]
                return {"kind": "box", "pose": _pose(R, t).tolist(), "size": size}
            n = rng.choice([4, 5, 6, 8, 12, 20, 30, 40])
            V = np.array([[rng.gauss(0, 1) for _ in range(3)] for _ in range(n)])
            if rng.random() < 0.5:
                V /= np.linalg.norm(V, axis=1)[:, None]       # all points extreme (sphere-like)
            if scale <= 0.02 or scale >= 50:         # domain-end pairs: extents stay inside [1e-2, 1e2]
                V /= max(1.0, float(np.abs(V).max()))
                V *= 0.5 * scale * np.array([rng.uniform(1.0, 1.25) for _ in range(3)])
                if np.ptp(V, axis=0).min() < 0.01:
                    continue
            else:
                V *= 0.5 * scale * np.array([10 ** rng.uniform(-0.3, 0.3) for _ in range(3)])
            if not _hull_ok(V):
                continue
            if kind == "hull":
                return {"kind": "hull", "vertices": (V @ R.T + t).tolist()}
            return _mesh_spec(V, _pose(R, t))
    return {"kind": "box", "pose": np.eye(4).tolist(), "size": [1.0, 1.0, 1.0]}


def _mesh_spec(V, T):
    """convex mesh = hull vertices + hull triangles (only extreme vertices are kept)"""
    from scipy.spatial import ConvexHull
    h = ConvexHull(V)
    used = sorted(set(h.simplices.ravel().tolist()))
    remap = {o: i for i, o in enumerate(used)}
    tris = [[remap[i] for i in tri] for tri in h.simplices.tolist()]
    return {"kind": "mesh", "pose": np.asarray(T).tolist(), "vertices": V[used].tolist(), "triangles": tris}


def gen_smooth(rng, near=None):
    kind = rng.choice(["sphere", "capsule", "cylinder", "ellipsoid", "cone"])
    scale = 10 ** rng.uniform(-0.5, 0.7)
    base = np.array(near) if near is not None else np.zeros(3)
    t = base + np.array([rng.gauss(0, 1) for _ in range(3)]) * scale * rng.choice([0.0, 0.3, 0.6])
    R = random_rot(rng) if rng.random() < 0.7 else lattice_rot(rng)
    T = _pose(R, t).tolist()
    if kind == "sphere":
        return {"kind": "sphere", "center": t.tolist(), "radius": 0.5 * scale}
    if kind == "capsule":
        return {"kind": "capsule", "pose": T, "radius": 0.3 * scale, "height": scale * rng.uniform(0.2, 2)}
    if kind == "cylinder":
        return {"kind": "cylinder", "pose": T, "radius": 0.4 * scale, "length": scale * rng.uniform(0.2, 2)}
    if kind == "ellipsoid":
        return {"kind": "ellipsoid", "pose": T, "radii": [0.5 * scale * rng.uniform(0.3, 1) for _ in range(3)]}
    return {"kind": "cone", "pose": T, "radius": 0.4 * scale, "height": scale * rng.uniform(0.3, 2)}


def gen_pair(rng, stream):
    """stream L / G: polytope pairs; S: at least one smooth collider"""
    if stream == "S":
        a = gen_smooth(rng)
        b = gen_smooth(rng, near=centre(a)) if rng.random() < 0.6 else gen_poly(rng, "G", near=centre(a))
        return (a, b) if rng.random() < 0.5 else (b, a)
    if stream == "G" and rng.random() < 0.3:
        # both shapes at the same end of the declared size range (feature sizes ~1e-2 or ~1e2): absolute thresholds
        # of the polytope bookkeeping (areas, squared lengths) act differently there than at unit scale
        sc = rng.choice([0.01, 0.01, 0.01, 0.012, 0.015, 0.02, 50.0, 80.0])
        a = gen_poly(rng, "G", scale=sc)
        b = gen_poly(rng, "G", near=centre(a), scale=sc)
        return a, b
    a = gen_poly(rng, stream)
    r = rng.random()
    if stream == "L" and r < 0.45:
        # exactly degenerate placements: identical, touching, nested, coplanar faces, shifted copies
        R = lattice_rot(rng) if rng.random() < 0.3 else np.eye(3)
        sa = [rng.choice([0.5, 1, 2, 4]) for _ in range(3)]
        ta = np.array([rng.choice([-1, -0.5, 0, 0.5, 1]) for _ in range(3)])
        a = {"kind": "box", "pose": _pose(R, ta).tolist(), "size": sa}
        kind = rng.choice(["identical", "touching", "nested", "coplanar", "shifted-copy", "corner"])
        ax = rng.randrange(3)
        if kind == "identical":
            return a, {"kind": "box", "pose": _pose(R, ta).tolist(), "size": list(sa)}
        if kind == "touching":
            sb = [rng.choice([0.5, 1, 2]) for _ in range(3)]
            off = np.zeros(3)
            off[ax] = 0.5 * (sa[ax] + sb[ax])
            return a, {"kind": "box", "pose": _pose(R, ta + R @ off).tolist(), "size": sb}
        if kind == "nested":
            sb = [x * rng.choice([0.25, 0.5]) for x in sa]
            off = np.array([rng.choice([-0.125, 0, 0.125]) * sa[k] for k in range(3)])
            return a, {"kind": "box", "pose": _pose(R, ta + R @ off).tolist(), "size": sb}
        if kind == "coplanar":
            sb = list(sa)
            sb[ax] = rng.choice([0.5, 1, 2])
            off = np.zeros(3)
            off[ax] = rng.choice([0.25, 0.5, 0.75]) * 0.5 * (sa[ax] + sb[ax])
            return a, {"kind": "box", "pose": _pose(R, ta + R @ off).tolist(), "size": sb}
        if kind == "shifted-copy":
            off = np.array([rng.choice([0, 0.25, 0.5]) * sa[k] for k in range(3)])
            return a, {"kind": "box", "pose": _pose(R, ta + R @ off).tolist(), "size": list(sa)}
        off = np.array([0.5 * sa[k] for k in range(3)])      # corner of a = centre of b
        sb = [rng.choice([0.5, 1, 2]) for _ in range(3)]
        return a, {"kind": "box", "pose": _pose(np.eye(3), ta + R @ off).tolist(), "size": sb}
    b = gen_poly(rng, stream, near=centre(a))
    return a, b


# ============================================================================ implementation access
_GJK_LAST = {}


@contextmanager
def gjk_capture():
    """record the number of valid simplex rows gjk ends with (module-level helper wrapped; interpreted mode)"""
    import distance3d.gjk._gjk_jolt as J
    orig = J._distance_loop

    def loop(*a):
        r = orig(*a)
        _GJK_LAST["n"] = r[1]
        return r
    J._distance_loop = loop
    try:
        yield
    finally:
        J._distance_loop = orig


def run_gjk(A, B):
    """-> (dist, simplex copy or None, n_valid)"""
    import distance3d.gjk._gjk_jolt as J
    _GJK_LAST.clear()
    with gjk_capture():
        dist, p1, p2, simplex = J.gjk_distance_jolt(A, B)
    if simplex is None:
        return dist, None, 0
    return float(dist), np.array(simplex, dtype=float).copy(), int(_GJK_LAST.get("n", 4) or 0)


def run_epa(simplex, A, B, **kw):
    """-> dict(status = ok|assert|exc, mtv, faces, success)"""
    from distance3d import epa as E
    try:
        mtv, faces, success = E.epa(np.array(simplex, dtype=float).copy(), A, B, **kw)
        return {"status": "ok", "mtv": np.array(mtv, dtype=float), "faces": np.array(faces, dtype=float).copy(),
                "success": bool(success)}
    except AssertionError:
        return {"status": "assert"}
    except Exception as e:  # noqa
        return {"status": "exc", "exc": type(e).__name__ + ": " + str(e)[:200]}


class RecProxy:
    """recording proxy of a collider (no repo change)"""

    def __init__(self, inner):
        self.inner = inner
        self.out = []

    def support_function(self, d):
        v = self.inner.support_function(d)
        self.out.append(np.array(v, dtype=float).copy())
        return v


def traced_epa(simplex, A, B, **kw):
    """run the real epa, recording the live faces array at every closest-face search, the support point
    of every iteration, the state after removal (+ loose edges) and after re-triangulation, and the
    number of fix_ccw flips."""
    from distance3d import epa as E
    rec = {"iters": [], "flips": 0}
    o_find = E.Polytope.find_face_closest_to_origin
    o_ext = E.Polytope.extend_with_point
    o_store = E.LooseEdges.find_triangles_facing_point_and_store_loose_edges
    o_fix = E.Polytope.fix_ccw_normal_direction

    def find(self):
        d, f = o_find(self)
        dists = np.sum(self.faces[:self.n_faces, 0] * self.faces[:self.n_faces, 3], axis=1)
        rec["iters"].append({"faces": self.faces[:self.n_faces].copy(), "min_dist": float(d),
                             "idx": int(np.argmin(dists)), "dists": dists.copy()})
        return d, f

    def store(self, faces, new_point):
        o_store(self, faces, new_point)
        it = rec["iters"][-1]
        it["w"] = np.array(new_point, dtype=float).copy()
        it["kept"] = faces.faces[:faces.n_faces].copy()
        it["loose"] = self.loose_edges[:self.n_loose_edges].copy()

    def ext(self, loose_edges, new_point):
        try:
            o_ext(self, loose_edges, new_point)
        except AssertionError:
            rec["iters"][-1]["assert"] = True
            raise
        rec["iters"][-1]["after"] = self.faces[:self.n_faces].copy()

    def fix(self, face_idx, bias=1e-6):
        before = self.faces[face_idx].copy()
        o_fix(self, face_idx, bias) if bias != 1e-6 else o_fix(self, face_idx)
        if not np.array_equal(before[3], self.faces[face_idx, 3]) or not np.array_equal(before[0], self.faces[face_idx, 0]):
            rec["flips"] += 1
            rec.setdefault("flip_samples", []).append((before, self.faces[face_idx].copy()))

    E.Polytope.find_face_closest_to_origin = find
    E.Polytope.extend_with_point = ext
    E.LooseEdges.find_triangles_facing_point_and_store_loose_edges = store
    E.Polytope.fix_ccw_normal_direction = fix
    pa, pb = RecProxy(A), RecProxy(B)
    try:
        out = run_epa(simplex, pa, pb, **kw)
    finally:
        E.Polytope.find_face_closest_to_origin = o_find
        E.Polytope.extend_with_point = o_ext
        E.LooseEdges.find_triangles_facing_point_and_store_loose_edges = o_store
        E.Polytope.fix_ccw_normal_direction = o_fix
    for k, it in enumerate(rec["iters"]):
        if "w" not in it and k < len(pa.out):
            it["w"] = pa.out[k] - pb.out[k]
    rec["out"] = out
    return rec


# ============================================================================ oracle
def frac_det(s):
    """exact sign of det[s1-s0, s2-s0, s3-s0] (rows are floats = exact rationals)"""
    if not np.all(np.isfinite(np.asarray(s, dtype=float))):
        return 0
    F = [[Fraction(float(x)) for x in row] for row in s]
    a = [F[1][k] - F[0][k] for k in range(3)]
    b = [F[2][k] - F[0][k] for k in range(3)]
    c = [F[3][k] - F[0][k] for k in range(3)]
    det = (a[0] * (b[1] * c[2] - b[2] * c[1]) - a[1] * (b[0] * c[2] - b[2] * c[0]) + a[2] * (b[0] * c[1] - b[1] * c[0]))
    return (det > 0) - (det < 0)


def simplex_class(simplex, n_valid):
    """incomplete (gjk ended with < 4 valid rows) | flat | inward | outward.
    The code's initial faces ABC, ACD, ADB, BDC have outward normals iff <(B-A)x(C-A), D-A> < 0."""
    if n_valid < 4:
        return "incomplete"
    s = frac_det(simplex)
    return {0: "flat", 1: "inward", -1: "outward"}[s]


def md_facets(VA, VB):
    """exact-geometry ground truth: facets (unit outward normal n_f, distance d_f) of A (-) B"""
    from scipy.spatial import ConvexHull
    D = (VA[:, None, :] - VB[None, :, :]).reshape(-1, 3)
    D = np.unique(D, axis=0)
    h = ConvexHull(D)
    eq = h.equations
    return eq[:, :3].copy(), -eq[:, 3].copy(), D


def smooth_upper_bound(sa, sb, rng, extra_dirs=()):
    """min over sampled + locally optimised unit directions of h_A(n) + h_B(-n)  (>= penetration depth)"""
    def h(n):
        n = n / np.linalg.norm(n)
        return hval(sa, n) + hval(sb, -n)
    dirs = [np.array(d, dtype=float) for d in extra_dirs if np.linalg.norm(d) > 0]
    for _ in range(150):
        dirs.append(np.array([rng.gauss(0, 1) for _ in range(3)]))
    for spec in (sa, sb):
        if "pose" in spec:
            R = np.array(spec["pose"])[:3, :3]
            for k in range(3):
                dirs += [R[:, k].copy(), -R[:, k].copy()]
    c = centre(sa) - centre(sb)
    if np.linalg.norm(c) > 0:
        dirs += [c, -c]
    vals = sorted(((h(d), i) for i, d in enumerate(dirs)))
    best_v, best_d = vals[0][0], dirs[vals[0][1]] / np.linalg.norm(dirs[vals[0][1]])
    for v0, i in vals[:4]:
        d = dirs[i] / np.linalg.norm(dirs[i])
        step = 0.3
        v = v0
        while step > 1e-8:
            improved = False
            for _ in range(8):
                cand = d + step * np.array([rng.gauss(0, 1) for _ in range(3)])
                cand /= np.linalg.norm(cand)
                vc = h(cand)
                if vc < v:
                    d, v, improved = cand, vc, True
            if not improved:
                step *= 0.5
        if v < best_v:
            best_v, best_d = v, d
    return best_v, best_d


def closed_form_depth(sa, sb):
    """exact depth where a closed form is known (sphere-sphere; sphere vs axis-aligned/posed box when the
    sphere centre is inside the box: face contact) else None"""
    if sa["kind"] == "sphere" and sb["kind"] == "sphere":
        return sa["radius"] + sb["radius"] - float(np.linalg.norm(np.array(sa["center"]) - np.array(sb["center"])))
    for s, b in ((sa, sb), (sb, sa)):
        if s["kind"] == "sphere" and b["kind"] == "box":
            T = np.array(b["pose"], dtype=float)
            loc = T[:3, :3].T @ (np.array(s["center"], dtype=float) - T[:3, 3])
            half = 0.5 * np.array(b["size"], dtype=float)
            if np.all(np.abs(loc) <= half):
                return float(np.min(half - np.abs(loc)) + s["radius"])
    return None


def check_case(case, out, rng=None):
    """The property oracle. case = {A, B, simplex (explicit 4x3), n_valid}; out = run_epa result.
    Returns list of (what, observed, expected)."""
    sa, sb = case["A"], case["B"]
    L = scene_L(sa, sb)
    tol = TOL * L
    bad = []
    poly = is_poly(sa) and is_poly(sb)
    if out["status"] == "exc":
        return [("epa raised", out["exc"], "a result")]
    if out["status"] == "assert":
        if poly:
            return [("capacity assertion on a polytope pair", "AssertionError (n_faces < max_faces)",
                     "success=True for polytopes with a few dozen vertices")]
        return []
    if not out["success"]:
        if poly:
            return [("success=False on a polytope pair", "success=False", "success=True")]
        return []
    mtv = out["mtv"]
    if not np.all(np.isfinite(mtv)):
        return [("non-finite mtv with success=True", mtv.tolist(), "finite vector")]
    length = float(np.linalg.norm(mtv))
    if poly:
        n_f, d_f, _ = md_facets(world_vertices(sa), world_vertices(sb))
        depth = max(float(d_f.min()), 0.0)
        if abs(length - depth) > tol:
            bad.append(("|mtv| != penetration depth", length, depth))
        d2 = d_f - n_f @ mtv          # facets of (A - (B + mtv))
        residual = float(d2.min())
        gap_lb = float(max(0.0, (-d2).max()))
        if residual > tol:
            bad.append(("residual overlap after translating B by mtv", residual, "<= %g" % tol))
        if gap_lb > tol:
            bad.append(("gap after translating B by mtv (facet lower bound)", gap_lb, "<= %g" % tol))
    else:
        if length <= tol:
            n = None
        else:
            n = mtv / length
        ub, ub_dir = smooth_upper_bound(sa, sb, rng or __import__("random").Random(0),
                                        extra_dirs=[mtv] if n is not None else [])
        ub = max(ub, 0.0)
        if length > ub + tol:
            bad.append(("|mtv| longer than a separating translation found by direction search", length,
                        "<= %.12g (direction %s)" % (ub, ub_dir.tolist())))
        cf = closed_form_depth(sa, sb)
        if cf is not None and abs(length - max(cf, 0.0)) > tol:
            bad.append(("|mtv| != closed-form depth", length, cf))
        if n is not None:
            hn = hval(sa, n) + hval(sb, -n)    # extent of A-B along the returned direction
            if hn - length > tol:
                bad.append(("residual overlap along mtv after translating B by mtv", hn - length, "<= %g" % tol))
            if length - hn > tol:
                bad.append(("mtv overshoots the extent of A-B along its own direction", length - hn, "<= %g" % tol))
    return bad


# ============================================================================ classification of failures
def classify(case, out, flips=None):
    """finding id for a failing case, or None (unclassified = VIOLATION)."""
    cls = simplex_class(case["simplex"], case.get("n_valid", 4))
    if cls in ("incomplete", "flat"):
        return F_DEGENERATE
    # (cls == "inward": rows handed over with <(B-A)x(C-A), D-A> > 0. epa orients them itself since the upstream
    #  repair of F-epa-inward-winding, so a failure in this class is an ordinary violation, not a known finding.)
    if out["status"] == "assert" and is_poly(case["A"]) and is_poly(case["B"]):
        # genuine capacity overflow: with a large face array the same input must give the exact answer
        A, B = make(case["A"]), make(case["B"])
        big = run_epa(case["simplex"], A, B, max_faces=4096, max_loose_edges=1024, max_iter=4096)
        if big["status"] == "ok" and big["success"] and not check_case(case, big):
            return F_CAPACITY
    return None


# ============================================================================ encoding for the driver
def enc_v(v, mode="F"):
    if mode == "F":
        return [f2h(x) for x in v]
    return [q2s(Fraction(float(x))) for x in v]


def enc_faces(faces, mode="F"):
    t = [str(len(faces))]
    for f in faces:
        for row in f:
            t += enc_v(row, mode)
    return t


def dec_scalars(tokens):
    return [h2f(t) for t in tokens]


def dec_faces(tokens, pos):
    n = int(tokens[pos])
    pos += 1
    arr = np.array(dec_scalars(tokens[pos:pos + 12 * n])).reshape(n, 4, 3)
    return arr, pos + 12 * n


def dec_edges(tokens, pos):
    n = int(tokens[pos])
    pos += 1
    arr = np.array(dec_scalars(tokens[pos:pos + 6 * n])).reshape(n, 2, 3)
    return arr, pos + 6 * n


def enc_params(kw):
    if not kw:
        return ["dflt"]
    return [str(kw.get("max_iter", 64)), str(kw.get("max_loose_edges", 32)), str(kw.get("max_faces", 64)),
            f2h(kw.get("epsilon", 1e-8)), f2h(1e-6)]


# ============================================================================ correspondence
def faces_close(a, b, scale):
    """vertices must be identical (they are copied, never recomputed); normals within 1e-12"""
    if a.shape != b.shape:
        return False
    if a.size == 0:
        return True
    return bool(np.array_equal(a[:, :3], b[:, :3]) and np.max(np.abs(a[:, 3] - b[:, 3])) <= 1e-12)


def near_threshold(it, eps, scale):
    """is some decision of this iteration within rounding distance of its threshold?"""
    faces, w = it["faces"], it["w"]
    d = np.sort(it["dists"])
    if len(d) > 1 and d[1] - d[0] <= 1e-12 * scale:
        return True
    n = faces[it["idx"], 3]
    if abs(np.dot(w, n) - it["min_dist"] - eps) <= 1e-12 * scale:
        return True
    vis = np.einsum("ij,ij->i", faces[:, 3], w[None, :] - faces[:, 0]) - eps
    if np.any(np.abs(vis) <= 1e-12 * scale):
        return True
    return False


def correspond_trace(ctx, drv, case, kw, rec, plan):
    """queue one C07.step line per recorded iteration and one C07.run line for the whole run"""
    eps = kw.get("epsilon", 1e-8)
    for k, it in enumerate(rec["iters"]):
        if "w" not in it:
            continue
        cid = drv.add("C07.step", "F", enc_params(kw) + ["cur"] + enc_faces(it["faces"]) + enc_v(it["w"]))
        plan.append(("step", cid, case, kw, it, k == len(rec["iters"]) - 1, rec["out"]))
    ws = [it["w"] for it in rec["iters"] if "w" in it]
    toks = enc_params(kw) + ["cur"]
    for row in case["simplex"]:
        toks += enc_v(row)
    toks += [str(len(ws))]
    for w in ws:
        toks += enc_v(w)
    cid = drv.add("C07.run", "F", toks)
    plan.append(("run", cid, case, kw, rec, None, rec["out"]))


def compare_step(ctx, res, case, kw, it, last, out):
    eps = kw.get("epsilon", 1e-8)
    scale = max(1.0, float(np.abs(it["faces"][:, :3]).max()), float(np.abs(it["w"]).max()))
    tie = near_threshold(it, eps, scale)
    seed = {"case": core.jsonable(case), "kw": kw, "faces": it["faces"].tolist(), "w": it["w"].tolist()}
    parts = res.split()
    if parts[0] == "err":
        ctx.branch("step", "err:" + parts[1])
        if not it.get("assert"):
            if tie:
                ctx.branch("step", "tie")
                return
            ctx.broke("correspondence", "Polytope.extend_with_point", "model: %s, implementation did not raise" % res[:60], seed)
        return
    if parts[0] != "ok":
        ctx.broke("correspondence", "C07.step", "driver said: " + res[:200], seed)
        return
    br, idx, md = int(parts[1]), int(parts[2]), h2f(parts[3])
    ctx.branch("step", "converged" if br == 0 else "grown")
    if idx != it["idx"] or abs(md - it["min_dist"]) > 1e-12 * scale:
        if tie:
            ctx.branch("step", "tie")
            return
        ctx.broke("correspondence", "Polytope.find_face_closest_to_origin",
                  "impl idx=%d min_dist=%r, model idx=%d min_dist=%r" % (it["idx"], it["min_dist"], idx, md), seed)
        return
    impl_converged = last and out["status"] == "ok" and out["success"]
    if it.get("assert"):
        if tie:
            ctx.branch("step", "tie")
            return
        ctx.broke("correspondence", "Polytope.extend_with_point", "implementation raised AssertionError, model: " + res[:60], seed)
        return
    if br == 0:
        if not impl_converged:
            if tie:
                ctx.branch("step", "tie")
                return
            ctx.broke("correspondence", "epa convergence test", "model converged, implementation went on", seed)
            return
        mtv = np.array(dec_scalars(parts[4:7]))
        if np.max(np.abs(mtv - out["mtv"])) > 1e-12 * scale:
            ctx.broke("correspondence", "epa mtv", "impl=%s model=%s" % (out["mtv"].tolist(), mtv.tolist()), seed)
        return
    if impl_converged:
        if tie:
            ctx.branch("step", "tie")
            return
        ctx.broke("correspondence", "epa convergence test", "implementation converged, model went on", seed)
        return
    toks = [t for t in parts[4:]]
    ov = int(toks[0])
    pos = 1
    kept, pos = dec_faces(toks, pos)
    assert toks[pos] == ";"
    loose, pos = dec_edges(toks, pos + 1)
    assert toks[pos] == ";"
    after, pos = dec_faces(toks, pos + 1)
    ctx.branch("scan", "removed=%d" % (len(it["faces"]) - len(kept)))
    ctx.branch("loose", "overflow" if ov else "n<=%d" % (8 * ((len(loose) + 7) // 8)))
    nskip = len(kept) + len(loose) - len(after)
    ctx.branch("extend", "skipped(norm<0.5)=%d" % nskip)
    if any(np.array_equal(f[0], f[1]) for f in after[len(kept):]):
        ctx.branch("fix_ccw", "new face (b,b,c): pre-repair aliasing or duplicate support point")
    if "kept" not in it or "after" not in it:
        return
    ok = (faces_close(kept, it["kept"], scale) and loose.shape == it["loose"].shape
          and np.array_equal(loose, it["loose"]) and faces_close(after, it["after"], scale))
    if not ok:
        if tie:
            ctx.branch("step", "tie")
            return
        what = ("removal/loose edges" if not (faces_close(kept, it["kept"], scale) and loose.shape == it["loose"].shape
                                                and np.array_equal(loose, it["loose"])) else "extend_with_point/fix_ccw")
        ctx.broke("correspondence", "epa expansion step (%s)" % what,
                  "state after the step differs: impl kept=%d loose=%d after=%d, model kept=%d loose=%d after=%d"
                  % (len(it["kept"]), len(it["loose"]), len(it["after"]), len(kept), len(loose), len(after)), seed)


def compare_run(ctx, res, case, kw, rec, out):
    parts = res.split()
    seed = {"case": core.jsonable(case), "kw": kw}
    any_tie = any("w" in it and near_threshold(it, kw.get("epsilon", 1e-8),
                                               max(1.0, float(np.abs(it["faces"][:, :3]).max()))) for it in rec["iters"])
    if out["status"] == "assert":
        ctx.branch("run", "assertFail")
        if not (parts[0] == "err" and parts[1] == "assertFail") and not any_tie:
            ctx.broke("correspondence", "epa (whole run from trace)", "impl AssertionError, model " + res[:80], seed)
        return
    if out["status"] != "ok":
        return
    if parts[0] != "ok":
        if not any_tie:
            ctx.broke("correspondence", "epa (whole run from trace)", "impl ok, model " + res[:80], seed)
        return
    succ, iters = int(parts[1]), int(parts[2])
    ctx.branch("run", "success" if succ else "exhausted")
    if any_tie:
        return
    if bool(succ) != out["success"] or iters != len(rec["iters"]) - (1 if out["success"] else 0):
        ctx.broke("correspondence", "epa (whole run from trace)",
                  "impl success=%s after %d searches, model success=%d iters=%d" % (out["success"], len(rec["iters"]), succ, iters), seed)
        return
    if parts[3] == "stale":
        ctx.branch("run", "exhausted-stale-row")
        pos = 4
    else:
        mtv = np.array(dec_scalars(parts[3:6]))
        pos = 6
        scale = max(1.0, float(np.abs(out["faces"][:, :3]).max()))
        if np.max(np.abs(mtv - out["mtv"])) > 1e-10 * scale:
            ctx.broke("correspondence", "epa mtv (whole run)", "impl=%s model=%s" % (out["mtv"].tolist(), mtv.tolist()), seed)
            return
    faces, _ = dec_faces(parts, pos)
    if not faces_close(faces, out["faces"], 1.0):
        ctx.broke("correspondence", "epa returned faces (whole run)", "impl n=%d model n=%d" % (len(out["faces"]), len(faces)), seed)


def py_certificate(faces, slack):
    """independent re-implementation of the Lean checker in exact fractions (cross-check only)"""
    Fr = [[[Fraction(float(x)) for x in row] for row in f] for f in faces]

    def sub(a, b): return [a[k] - b[k] for k in range(3)]
    def dot(a, b): return sum(a[k] * b[k] for k in range(3))
    def cross(a, b): return [a[1] * b[2] - a[2] * b[1], a[2] * b[0] - a[0] * b[2], a[0] * b[1] - a[1] * b[0]]
    edges = []
    for f in Fr:
        for j in range(3):
            edges.append((tuple(f[j]), tuple(f[(j + 1) % 3])))
    from collections import Counter
    c = Counter(edges)
    closed = all(c[e] == 1 and c.get((e[1], e[0]), 0) == 1 for e in edges)
    verts = [v for f in Fr for v in f[:3]]
    nondeg = nout = orig = vin = True
    for f in Fr:
        N = cross(sub(f[1], f[0]), sub(f[2], f[0]))
        nondeg &= dot(N, N) > 0
        nout &= dot(N, f[3]) > 0
        orig &= dot(N, sub([0, 0, 0], f[0])) <= 0
        vin &= all(dot(N, sub(v, f[0])) <= slack for v in verts)
    return [int(closed and nondeg and nout and orig and vin), int(closed), int(nondeg), int(nout), int(orig), int(vin)]


def shift_spec(spec, t):
    import copy
    sp = copy.deepcopy(spec)
    t = np.asarray(t, dtype=float)
    if sp["kind"] == "hull":
        sp["vertices"] = (np.array(sp["vertices"], dtype=float) + t).tolist()
    elif sp["kind"] == "sphere":
        sp["center"] = (np.array(sp["center"], dtype=float) + t).tolist()
    else:
        T = np.array(sp["pose"], dtype=float)
        T[:3, 3] += t
        sp["pose"] = T.tolist()
    return sp


def make_shallow(rng, sa, sb):
    """b moved along the direction of least penetration until the polytopes overlap by only 1e-8 … 1e-5 of their size
    (resting / grazing contact: every bias and tolerance of the polytope bookkeeping is larger than the answer)"""
    try:
        n, d, _ = md_facets(world_vertices(sa), world_vertices(sb))
    except Exception:  # noqa
        return sb
    if len(d) == 0 or d.min() <= 0:
        return sb
    k = int(np.argmin(d))
    size = max(feature_scale(sa), feature_scale(sb))
    eps = size * 10 ** rng.uniform(-8, -5)
    if d[k] <= eps:
        return sb
    return shift_spec(sb, n[k] * (d[k] - eps))


def gen_case(ctx, stream, own_simplex_p=0.35):
    """-> list of cases for one overlapping pair (gjk's simplex + permutations / own simplices)"""
    rng = ctx.rng
    sa, sb = gen_pair(rng, stream)
    if stream == "G" and is_poly(sa) and is_poly(sb) and rng.random() < 0.12:
        sb = make_shallow(rng, sa, sb)
        ctx.branch("pair-family", "shallow")
    A, B = make(sa), make(sb)
    try:
        dist, simplex, n_valid = run_gjk(A, B)
    except AssertionError:
        ctx.branch("gjk", "sanity-assert")
        return []
    if simplex is None or dist > 0.0:
        ctx.branch("gjk", "separated")
        return []
    ctx.branch("gjk", "overlap n_valid=%d" % n_valid)
    cases = [{"A": sa, "B": sb, "simplex": simplex.tolist(), "n_valid": n_valid, "src": "gjk", "stream": stream}]
    if n_valid == 4 and frac_det(simplex) != 0:
        perms = list(itertools.permutations(range(4)))
        for p in rng.sample(perms[1:], 2):
            cases.append({"A": sa, "B": sb, "simplex": simplex[list(p)].tolist(), "n_valid": 4, "src": "gjk-perm", "stream": stream})
        if frac_det(simplex) > 0:   # make sure the outward class of this pair is exercised too
            cases.append({"A": sa, "B": sb, "simplex": simplex[[1, 0, 2, 3]].tolist(), "n_valid": 4, "src": "gjk-perm", "stream": stream})
    if is_poly(sa) and is_poly(sb) and rng.random() < own_simplex_p:
        VA, VB = world_vertices(sa), world_vertices(sb)
        D = np.unique((VA[:, None, :] - VB[None, :, :]).reshape(-1, 3), axis=0)
        for _ in range(30):
            idx = rng.sample(range(len(D)), 4)
            s = D[idx]
            if frac_det(s) == 0:
                continue
            M = np.vstack([s.T, np.ones(4)])
            try:
                lam = np.linalg.solve(M, np.array([0, 0, 0, 1.0]))
            except np.linalg.LinAlgError:
                continue
            if lam.min() <= 1e-6:
                continue
            cases.append({"A": sa, "B": sb, "simplex": s.tolist(), "n_valid": 4, "src": "own", "stream": stream})
            cases.append({"A": sa, "B": sb, "simplex": s[[1, 0, 2, 3]].tolist(), "n_valid": 4, "src": "own", "stream": stream})
            break
    return cases


def case_key(case):
    return (repr(case["A"]), repr(case["B"]), repr(case["simplex"]))


def report(ctx, case, out, bad, flips=None):
    if not bad:
        return
    fid = classify(case, out, flips)
    ctx.fail("epa.epa", {"A": case["A"], "B": case["B"], "simplex": case["simplex"], "n_valid": case.get("n_valid", 4),
                         "kw": case.get("kw", {})},
             {"what": [b[0] for b in bad], "observed": [b[1] for b in bad],
              "mtv": out.get("mtv").tolist() if out.get("mtv") is not None else None, "status": out["status"],
              "success": out.get("success"), "simplex_class": simplex_class(case["simplex"], case.get("n_valid", 4))},
             [b[2] for b in bad], "Minkowski-difference facets (polytopes) / support-value direction search (smooth)",
             finding=fid)


CORPUS = [
    # upstream regression vector (test_epa)
    {"A": {"kind": "hull", "vertices": [[1.76405235, 0.40015721, 0.97873798], [2.2408932, 1.86755799, -0.97727788],
                                        [0.4105985, 0.14404357, 1.45427351], [0.33367433, 1.49407907, -0.20515826],
                                        [0.3130677, -0.85409574, -2.55298982], [2.26975462, -1.45436567, 0.04575852],
                                        [-0.18718385, 1.53277921, 1.46935877]]},
     "B": {"kind": "hull", "vertices": [[-2.32605299, -0.31242692, 0.07599278], [0.88503416, 1.23786508, -0.467683],
                                        [-0.64755927, -1.01306774, -1.50037412], [-2.05152671, 1.98626062, -0.59000837],
                                        [-0.78333082, -1.21731013, 0.69713417], [-1.95915437, -0.17725505, -0.97582275],
                                        [0.04164598, -0.47531991, -1.26098837], [-0.37343875, 0.4638171, -0.01383896],
                                        [-0.04278462, -0.59883687, -0.44309735]]},
     "simplex": "gjk"},
    # unit cubes overlapping by 1/2 along x, explicit outward simplex from vertices of A-B
    {"A": {"kind": "box", "pose": np.eye(4).tolist(), "size": [1.0, 1.0, 1.0]},
     "B": {"kind": "box", "pose": _pose(np.eye(3), [0.5, 0.0, 0.0]).tolist(), "size": [1.0, 1.0, 1.0]},
     "simplex": [[0.5, 1.0, -1.0], [0.5, -1.0, -1.0], [0.5, 0.0, 1.0], [-1.5, 0.0, 0.0]]},
]


def corpus_cases():
    out = []
    for c in CORPUS:
        c = dict(c)
        if c["simplex"] == "gjk":
            A, B = make(c["A"]), make(c["B"])
            dist, s, nv = run_gjk(A, B)
            c["simplex"], c["n_valid"] = s.tolist(), nv
        else:
            c["n_valid"] = 4
        c["src"] = "corpus"
        c["stream"] = "L"
        out.append(c)
        if c["n_valid"] == 4 and frac_det(np.array(c["simplex"])) != 0:
            c2 = dict(c)                                   # the same four points in the other winding
            c2["simplex"] = np.array(c["simplex"])[[1, 0, 2, 3]].tolist()
            out.append(c2)
    return regression_cases() + out


def regression_cases():
    """witness scenes of findings repaired upstream (known_findings.json, status "fixed", property C07): they run
    first, through the model comparison and through the property oracle; a failure is an ordinary VIOLATION"""
    out = []
    for k in core.load_known():
        w = k.get("witness")
        if k.get("status") == "fixed" and k.get("property") == "C07" and isinstance(w, dict):
            for sc in w.get("scenes", []):
                out.append({"A": sc["A"], "B": sc["B"], "simplex": sc["simplex"], "n_valid": sc.get("n_valid", 4),
                            "src": "regression:" + k["id"], "stream": "R"})
    return out


def correspondence(ctx):
    rng = ctx.rng
    drv = core.Driver("c07-corr")
    plan = []
    cert_plan = []
    n_target = ctx.budget(300, 2500)
    cases = corpus_cases()
    tries = 0
    while len(cases) < n_target and tries < 20 * n_target:
        tries += 1
        stream = "L" if rng.random() < 0.5 else "G"
        cases += gen_case(ctx, stream)
    init_plan = []
    for case in cases:
        A, B = make(case["A"]), make(case["B"])
        kw = {}
        r = rng.random()
        if r < 0.12:
            kw = {"max_loose_edges": rng.choice([3, 4, 5, 6])}          # overflow `break`
        elif r < 0.22:
            kw = {"max_faces": rng.choice([6, 8, 10, 14])}              # capacity assert
        elif r < 0.30:
            kw = {"max_iter": rng.choice([1, 2, 3, 5])}                 # success=False exit
        elif r < 0.36:
            kw = {"epsilon": rng.choice([1e-3, 1e-5, 1e-12])}
        if case.get("src", "").startswith(("regression", "corpus")):
            kw = {}                 # default parameters: the property oracle applies to these
        if kw:
            kw = {"max_iter": 64, "max_loose_edges": 32, "max_faces": 64, "epsilon": 1e-8, **kw}
        rec = traced_epa(case["simplex"], A, B, **kw)
        out = rec["out"]
        cls = simplex_class(case["simplex"], case["n_valid"])
        ctx.count(case["stream"] + ":corr", key=case_key(case) + (repr(kw),),
                  sample={"A": case["A"]["kind"], "B": case["B"]["kind"], "simplex": case["simplex"], "class": cls, "kw": kw})
        ctx.branch("simplex", cls)
        ctx.branch("impl", out["status"] + ("/success" if out.get("success") else ""))
        if out["status"] == "exc":
            continue
        # the property oracle on default-parameter runs of this stream too
        if not kw:
            report(ctx, case, out, check_case(case, out, rng), rec["flips"])
        if not np.all(np.isfinite(np.array(case["simplex"], dtype=float))):
            ctx.branch("simplex", "non-finite garbage rows (NaN not modelled: model comparison skipped)")
            continue
        # --- init
        toks = []
        for row in case["simplex"]:
            toks += enc_v(row)
        cid = drv.add("C07.init", "F", ["cur"] + toks)
        if rec["iters"]:
            init_plan.append((cid, case, rec["iters"][0]["faces"]))
        # --- steps + whole run
        correspond_trace(ctx, drv, case, kw, rec, plan)
        ctx.branch("fix_ccw", "run with flip" if rec["flips"] else "run without flip")
        # --- fix_ccw samples (vertices 0/1 swapped through a copy, normal negated)
        for (before, after) in rec.get("flip_samples", [])[:2]:
            cid = drv.add("C07.fixccw", "F", ["cur", f2h(1e-6)] + enc_faces([before])[1:])
            plan.append(("fix", cid, case, kw, (before, after), None, None))
        # --- Lean certificate on the returned faces, exact rationals
        if out["status"] == "ok" and not kw and np.all(np.isfinite(out["faces"])):
            lattice = _is_lattice(case)
            S = max(1.0, float(np.abs(out["faces"][:, :3]).max()))
            slack = Fraction(0) if lattice else Fraction(1e-9 * S ** 3)
            cid = drv.add("C07.cert", "Q", [q2s(slack)] + enc_faces(out["faces"], "Q"))
            cert_plan.append((cid, case, out, slack, cls, rec["flips"]))
    res = drv.run()
    for cid, case, faces0 in init_plan:
        parts = res.get(cid, "bad").split()
        if parts[0] != "ok":
            ctx.broke("correspondence", "Polytope._initialize_from_simplex", res.get(cid, "")[:200], {"case": core.jsonable(case)})
            continue
        sw, det_model = int(parts[1]), h2f(parts[2])
        faces, _ = dec_faces(parts, 3)
        # python-side mirror of the orientation step, decided in exact rational arithmetic on the float rows
        sx = np.array(case["simplex"], dtype=float)
        exact_sign = frac_det(sx)
        scale = max(1.0, float(np.abs(sx).max()))
        det_float = float(np.dot(np.cross(sx[1] - sx[0], sx[2] - sx[0]), sx[3] - sx[0]))
        tie = abs(det_float) <= 1e-12 * scale ** 3 and exact_sign != (det_float > 0) - (det_float < 0)
        ctx.branch("init", "rows 1,2 exchanged" if sw else ("flat simplex, as it comes" if exact_sign == 0 else "rows as they come"))
        if sw != int(exact_sign > 0) and not tie and abs(det_float) > 1e-12 * scale ** 3:
            ctx.broke("correspondence", "Polytope._initialize_from_simplex (orientation test)",
                      "model exchanged=%d, exact sign of <(B-A)x(C-A),D-A> = %d (float %r, model %r)"
                      % (sw, exact_sign, det_float, det_model), {"case": core.jsonable(case)})
            continue
        if not faces_close(faces, faces0, 1.0):
            if abs(det_float) <= 1e-12 * scale ** 3:
                ctx.branch("init", "tie (orientation test within rounding of 0)")
                continue
            ctx.broke("correspondence", "Polytope._initialize_from_simplex", "initial faces differ (model exchanged=%d)" % sw,
                      {"case": core.jsonable(case)})
    for kind, cid, case, kw, it, last, out in plan:
        r = res.get(cid, "bad missing")
        if kind == "step":
            compare_step(ctx, r, case, kw, it, last, out)
        elif kind == "run":
            compare_run(ctx, r, case, kw, it, out)
        elif kind == "fix":
            before, after = it
            parts = r.split()
            if parts[0] != "ok":
                ctx.broke("correspondence", "fix_ccw_normal_direction", r[:200], {"face": before.tolist()})
                continue
            got = np.array(dec_scalars(parts[2:14])).reshape(4, 3)
            ctx.branch("fix_ccw sample", "a==b (pre-repair aliasing)" if np.array_equal(after[0], after[1]) and
                       not np.array_equal(before[0], before[1]) else "vertices 0,1 swapped, normal negated")
            if not np.array_equal(got, after):
                ctx.broke("correspondence", "fix_ccw_normal_direction",
                          "impl=%s model=%s" % (after.tolist(), got.tolist()), {"face": before.tolist()})
    # ---- certificate results
    hist = {}
    for cid, case, out, slack, cls, flips in cert_plan:
        parts = res.get(cid, "bad").split()
        if parts[0] != "ok":
            ctx.broke("correspondence", "facesCertificate (driver)", res.get(cid, "")[:200], {"case": core.jsonable(case)})
            continue
        got = [int(x) for x in parts[1:7]]
        want = py_certificate(out["faces"], slack) if len(out["faces"]) <= 24 else got
        if got != want:
            ctx.broke("correspondence", "facesCertificate vs exact re-implementation", "lean=%s python=%s" % (got, want),
                      {"faces": out["faces"].tolist()})
        bad = check_case(case, out, ctx.rng) if out["success"] else [("no success",)]
        key = "%s cert=%d%s result=%s" % (cls, got[0], "" if got[0] else "(closed=%d nondeg=%d nout=%d origin=%d verts=%d)" % tuple(got[1:]),
                                           "ok" if not bad else "bad")
        hist[key] = hist.get(key, 0) + 1
        ctx.branch("certificate", "%s cert=%d" % (cls, got[0]))
        # consequence of the theorems: certificate + success on polytopes => |mtv| <= depth + eps (+ rounding)
        if got[0] == 1 and out["success"] and is_poly(case["A"]) and is_poly(case["B"]):
            n_f, d_f, _ = md_facets(world_vertices(case["A"]), world_vertices(case["B"]))
            depth = max(float(d_f.min()), 0.0)
            L = scene_L(case["A"], case["B"])
            verts = out["faces"][:, :3].reshape(-1, 3)
            in_m = bool(np.all(verts @ n_f.T <= d_f[None, :] + 1e-9 * L))   # EpaInv needs the vertices in A-B
            ctx.branch("certificate", "accepted, vertices in A-B" if in_m else "accepted, garbage vertices outside A-B")
            if in_m and np.linalg.norm(out["mtv"]) > depth + lib_epsilon() + TOL * L:
                ctx.broke("correspondence", "facesCertificate accepted a polytope with |mtv| > depth + eps",
                          "certificate holds but |mtv|=%r depth=%r" % (float(np.linalg.norm(out["mtv"])), depth),
                          {"case": core.jsonable(case)})
    ctx.extra["certificate_histogram"] = hist


def lib_epsilon():
    """default `epsilon` of the epa under test"""
    import inspect
    from distance3d import epa as E
    return float(inspect.signature(E.epa).parameters["epsilon"].default)


def _is_lattice(case):
    """all world vertices are small dyadic rationals: differences, cross and dot products are exact in
    binary floating point, so the exact (slack = 0) certificate applies"""
    for s in (case["A"], case["B"]):
        if not is_poly(s):
            return False
        for v in world_vertices(s):
            for x in v:
                if abs(x) >= 64 or float(x) * 1024 != int(float(x) * 1024):
                    return False
    return True


# ============================================================================ failing-input search
def search(ctx):
    rng = ctx.rng
    n = ctx.budget(2400, 30000) * (2 if ctx.extra.get("search_boost") else 1)
    stats = {}
    done = 0
    tries = 0
    # regression scenes of repaired findings first, then the known-finding witnesses (replayed on the implementation)
    for case in regression_cases():
        out = run_epa(case["simplex"], make(case["A"]), make(case["B"]))
        bad = check_case(case, out, rng)
        ctx.count("regression", key=case_key(case))
        key = "%s %s" % (case["src"], "holds" if not bad else "FAILS AGAIN")
        stats[key] = stats.get(key, 0) + 1
        report(ctx, case, out, bad)
    for k in core.load_known():
        if k.get("property") == "C07" and k.get("status") == "known":
            w = k["witness"]
            case = {"A": w["A"], "B": w["B"], "simplex": w["simplex"], "n_valid": w.get("n_valid", 4)}
            out = run_epa(case["simplex"], make(case["A"]), make(case["B"]))
            bad = check_case(case, out, rng)
            ctx.count("known-witness", key=case_key(case))
            stats["witness %s %s" % (k["id"], "reproduces" if bad else "does not reproduce")] = 1
            report(ctx, case, out, bad)
    while done < n and tries < 30 * n:
        tries += 1
        r = rng.random()
        stream = "L" if r < 0.4 else ("G" if r < 0.8 else "S")
        for case in gen_case(ctx, stream, own_simplex_p=0.5):
            A, B = make(case["A"]), make(case["B"])
            out = run_epa(case["simplex"], A, B)
            done += 1
            cls = simplex_class(case["simplex"], case["n_valid"])
            poly = is_poly(case["A"]) and is_poly(case["B"])
            ctx.count(stream + ":search", key=case_key(case),
                      sample={"A": case["A"]["kind"], "B": case["B"]["kind"], "class": cls, "src": case["src"]})
            bad = check_case(case, out, rng)
            key = "%s %s %s -> %s%s" % (stream, "poly" if poly else "smooth", cls, out["status"],
                                       ("/success" if out.get("success") else "/no-success") if out["status"] == "ok" else "")
            key += " BAD" if bad else ""
            stats[key] = stats.get(key, 0) + 1
            ctx.branch("search", key)
            report(ctx, case, out, bad)
    ctx.extra["search_histogram"] = stats


def replay(ctx, payload):
    args = payload.get("args")
    if args is None:
        for b in payload.get("broken", []):
            si = b.get("seed_input") or {}
            if "case" in si:
                args = dict(si["case"])
                args["kw"] = si.get("kw", {})
                break
    if args is None:
        print("replay file names no input:", str(payload.get("broken"))[:500])
        return False
    case = {"A": args["A"], "B": args["B"], "simplex": args["simplex"], "n_valid": args.get("n_valid", 4)}
    kw = args.get("kw") or {}
    out = run_epa(case["simplex"], make(case["A"]), make(case["B"]), **kw)
    bad = check_case(case, out, ctx.rng)
    print("simplex class:", simplex_class(case["simplex"], case["n_valid"]), " status:", out["status"],
          " success:", out.get("success"), " mtv:", None if out.get("mtv") is None else out["mtv"].tolist())
    for b in bad:
        print("FAIL", b[0], "observed", b[1], "expected", b[2])
    return not bad
