"""C02 — boolean narrow-phase tests (gjk_intersection[_jolt], gjk_intersection_libccd, mpr_intersection,
gjk_nesterov_accelerated_intersection, gjk_nesterov_accelerated_primitives_intersection).

Oracle (search): collider pairs of every supported type are CONSTRUCTED at a prescribed signed gap, the ground truth
being established independently of every library test:
  * separated scenes: a unit direction n and the closed-form support values h_A(n), h_B(-n) computed in this module
    (not with the library's support functions) certify  gap_n = -(h_A(n) + h_B(-n)) >= delta  (separating slab);
  * deep scenes: a witness point z and independent inner-depth formulas certify that the ball of radius delta about z
    lies in both colliders.
  Each of the five tests must answer False on the first kind and True on the second, without raising.
Correspondence: the loop-body functions are recorded while the real tests run (module-level functions are wrapped in
recording proxies; the interpreted engine makes that possible) and every recorded (state-in, support points) is fed to
the Lean model's step function; decisions (exit state, branch, n_points) must agree exactly, numbers within 1e-9*scale.
"""
import itertools
import json
import math
import os

import numpy as np

import core
from core import f2h, h2f

# ------------------------------------------------------------------------------------------------ manifest
RULE = ("scenes = (collider A, collider B, kind, factor) drawn from one PRNG: lattice stream (axis-aligned / 3-4-5 "
        "rotations, dyadic sizes, identical shapes, nested, coinciding centres, exactly parallel faces), general stream "
        "(random orthonormal poses, sizes log-uniform in [1e-2,1e2], placed within 1e3 of the origin), constructed at a "
        "prescribed gap g = f*delta or witness depth d = f*delta, f in {1.000001 … 1e3}; a scene is non-trivial if it is "
        "not the identity-pose unit-sphere pair; distinct = distinct canonical scene JSON; correspondence cases are the "
        "recorded loop-body calls of those runs")
EXPLANATION = ("exit-branch theorems (S2) are proved on the Lean step functions with abstract support mappings; this run "
               "ties the step functions to the code by replaying every recorded loop-body call of the real tests through "
               "the Lean driver (exact on decisions), and searches the real code with a ground truth that is constructed, "
               "not computed by any library routine")
PARTIAL = {}
ASSUMPTIONS = []
TRUSTED = []
MANIFEST = dict(text="", note="", technique="", design="§7 C02")

DELTA_K = 1e-3
TESTS = ["jolt", "libccd", "mpr", "nesterov", "nesterov_prim"]
PRIM_TYPES = ("sphere", "capsule", "box", "ellipsoid", "cylinder")
SOLID_TYPES = ("sphere", "ellipsoid", "capsule", "cylinder", "cone", "box", "mesh", "hull")
FLAT_TYPES = ("disk", "ellipse")
ALL_TYPES = SOLID_TYPES + FLAT_TYPES


# ------------------------------------------------------------------------------------------------ small linear algebra
def unit(v):
    v = np.asarray(v, dtype=float)
    return v / np.linalg.norm(v)


def rand_unit(rng):
    while True:
        v = np.array([rng.gauss(0, 1), rng.gauss(0, 1), rng.gauss(0, 1)])
        n = np.linalg.norm(v)
        if n > 1e-3:
            return v / n


def rand_rot(rng):
    a = rand_unit(rng)
    b = rand_unit(rng)
    b = b - a * a.dot(b)
    while np.linalg.norm(b) < 1e-3:
        b = rand_unit(rng)
        b = b - a * a.dot(b)
    b = b / np.linalg.norm(b)
    c = np.cross(a, b)
    return np.column_stack((a, b, c))


_PERMS = list(itertools.permutations(range(3)))


def lattice_rot(rng):
    """signed axis permutation (det +1), optionally composed with a 3-4-5 rotation about a coordinate axis"""
    p = rng.choice(_PERMS)
    R = np.zeros((3, 3))
    for i in range(3):
        R[i, p[i]] = rng.choice([-1.0, 1.0])
    if np.linalg.det(R) < 0:
        R[:, 0] *= -1
    if rng.random() < 0.4:
        c, s = rng.choice([(0.6, 0.8), (0.8, 0.6), (-0.6, 0.8), (0.28, 0.96)])
        k = rng.randrange(3)
        i, j = [(1, 2), (2, 0), (0, 1)][k]
        G = np.eye(3)
        G[i, i] = c
        G[j, j] = c
        G[i, j] = -s
        G[j, i] = s
        R = G.dot(R)
    return R


def pose44(R, t):
    A = np.eye(4)
    A[:3, :3] = np.asarray(R, dtype=float)
    A[:3, 3] = np.asarray(t, dtype=float)
    return A


# ------------------------------------------------------------------------------------------------ collider specs
def _arr(x):
    return np.array(x, dtype=float)


def make_collider(s):
    """fresh library collider from a JSON-able spec (fresh: MeshGraph caches the last support vertex)"""
    from distance3d import colliders as C
    t = s["type"]
    if t == "sphere":
        return C.Sphere(_arr(s["c"]), float(s["r"]))
    if t == "ellipsoid":
        return C.Ellipsoid(pose44(s["R"], s["t"]), _arr(s["radii"]))
    if t == "capsule":
        return C.Capsule(pose44(s["R"], s["t"]), float(s["r"]), float(s["h"]))
    if t == "cylinder":
        return C.Cylinder(pose44(s["R"], s["t"]), float(s["r"]), float(s["l"]))
    if t == "cone":
        return C.Cone(pose44(s["R"], s["t"]), float(s["r"]), float(s["h"]))
    if t == "box":
        return C.Box(pose44(s["R"], s["t"]), _arr(s["size"]))
    if t == "disk":
        return C.Disk(_arr(s["c"]), float(s["r"]), _arr(s["n"]))
    if t == "ellipse":
        return C.Ellipse(_arr(s["c"]), _arr(s["axes"]), _arr(s["radii"]))
    if t == "mesh":
        return C.MeshGraph(pose44(s["R"], s["t"]), _arr(s["vertices"]), np.array(s["triangles"], dtype=int))
    if t == "hull":
        return C.ConvexHullVertices(_arr(s["vertices"]))
    raise ValueError(t)


def translate(s, d):
    s = dict(s)
    d = np.asarray(d, dtype=float)
    if "t" in s:
        s["t"] = (_arr(s["t"]) + d).tolist()
    elif "c" in s:
        s["c"] = (_arr(s["c"]) + d).tolist()
    else:
        s["vertices"] = (_arr(s["vertices"]) + d).tolist()
    return s


def world_vertices(s):
    if s["type"] == "hull":
        return _arr(s["vertices"])
    if s["type"] == "mesh":
        return _arr(s["vertices"]).dot(_arr(s["R"]).T) + _arr(s["t"])
    if s["type"] == "box":
        h = 0.5 * _arr(s["size"])
        corners = np.array([[sx * h[0], sy * h[1], sz * h[2]] for sx in (-1, 1) for sy in (-1, 1) for sz in (-1, 1)])
        return corners.dot(_arr(s["R"]).T) + _arr(s["t"])
    raise ValueError(s["type"])


def centre(s):
    """a point of the collider used for L (what the library's center() returns is not relied upon)"""
    t = s["type"]
    if t in ("sphere", "disk", "ellipse"):
        return _arr(s["c"])
    if t == "hull":
        return _arr(s["vertices"]).mean(axis=0)
    if t == "mesh":
        return _arr(s["R"]).dot(_arr(s["vertices"]).mean(axis=0)) + _arr(s["t"])
    if t == "cone":
        return _arr(s["t"]) + 0.5 * s["h"] * _arr(s["R"])[:, 2]
    return _arr(s["t"])


def feature_size(s):
    t = s["type"]
    if t in ("sphere", "disk"):
        return float(s["r"])
    if t in ("ellipsoid", "ellipse"):
        return float(max(s["radii"]))
    if t in ("capsule", "cone"):
        return float(max(s["r"], s["h"]))
    if t == "cylinder":
        return float(max(s["r"], s["l"]))
    if t == "box":
        return float(max(s["size"]))
    v = _arr(s["vertices"])
    return float(np.max(v.max(axis=0) - v.min(axis=0)))


def scene_L(a, b):
    return max(1.0, feature_size(a), feature_size(b), float(np.linalg.norm(centre(a) - centre(b))))


# ------------------------------------------------------------------------------------------------ independent geometry
def support_value(s, u):
    """h_K(u) = max_{x in K} <u, x>, closed forms written here (no library call)"""
    u = np.asarray(u, dtype=float)
    t = s["type"]
    if t == "sphere":
        return float(u.dot(_arr(s["c"])) + s["r"] * np.linalg.norm(u))
    if t == "disk":
        n = _arr(s["n"])
        w = u - u.dot(n) * n
        return float(u.dot(_arr(s["c"])) + s["r"] * np.linalg.norm(w))
    if t == "ellipse":
        ax = _arr(s["axes"])
        return float(u.dot(_arr(s["c"])) + math.hypot(s["radii"][0] * ax[0].dot(u), s["radii"][1] * ax[1].dot(u)))
    if t in ("hull", "mesh"):
        return float(np.max(world_vertices(s).dot(u)))
    R = _arr(s["R"])
    w = R.T.dot(u)
    base = float(u.dot(_arr(s["t"])))
    if t == "ellipsoid":
        return base + float(np.linalg.norm(_arr(s["radii"]) * w))
    if t == "capsule":
        return base + 0.5 * s["h"] * abs(w[2]) + s["r"] * float(np.linalg.norm(w))
    if t == "cylinder":
        return base + 0.5 * s["l"] * abs(w[2]) + s["r"] * math.hypot(w[0], w[1])
    if t == "cone":
        return base + max(s["h"] * w[2], s["r"] * math.hypot(w[0], w[1]))
    if t == "box":
        return base + float(np.sum(0.5 * _arr(s["size"]) * np.abs(w)))
    raise ValueError(t)


def support_point(s, u):
    """some maximiser of <u, x> over K (closed forms; only used to steer constructions, never as truth)"""
    u = np.asarray(u, dtype=float)
    t = s["type"]
    nu = np.linalg.norm(u)
    if t == "sphere":
        return _arr(s["c"]) + s["r"] * u / nu
    if t == "disk":
        n = _arr(s["n"])
        w = u - u.dot(n) * n
        nw = np.linalg.norm(w)
        return _arr(s["c"]) + (s["r"] * w / nw if nw > 0 else 0.0)
    if t == "ellipse":
        ax = _arr(s["axes"])
        r = _arr(s["radii"])
        g = np.array([r[0] * ax[0].dot(u), r[1] * ax[1].dot(u)])
        ng = np.linalg.norm(g)
        if ng == 0:
            return _arr(s["c"])
        return _arr(s["c"]) + (r[0] * g[0] / ng) * ax[0] + (r[1] * g[1] / ng) * ax[1]
    if t in ("hull", "mesh"):
        V = world_vertices(s)
        return V[int(np.argmax(V.dot(u)))]
    R = _arr(s["R"])
    w = R.T.dot(u)
    if t == "ellipsoid":
        r = _arr(s["radii"])
        g = r * w
        loc = r * g / np.linalg.norm(g)
    elif t == "capsule":
        loc = s["r"] * w / np.linalg.norm(w) + np.array([0, 0, 0.5 * s["h"] * (1 if w[2] > 0 else -1)])
    elif t == "cylinder":
        rho = math.hypot(w[0], w[1])
        loc = np.array([0.0, 0.0, 0.5 * s["l"] * (1 if w[2] > 0 else -1)])
        if rho > 0:
            loc[:2] = s["r"] * w[:2] / rho
    elif t == "cone":
        rho = math.hypot(w[0], w[1])
        if s["r"] * rho >= s["h"] * w[2]:
            loc = np.zeros(3)
            if rho > 0:
                loc[:2] = s["r"] * w[:2] / rho
        else:
            loc = np.array([0.0, 0.0, s["h"]])
    elif t == "box":
        loc = 0.5 * _arr(s["size"]) * np.where(w > 0, 1.0, -1.0)
    else:
        raise ValueError(t)
    return R.dot(loc) + _arr(s["t"])


_HULL_CACHE = {}


def hull_facets(s):
    """(normals, offsets) with  n.x <= off  for x in the polytope; scipy qhull on the world vertices"""
    key = json.dumps(s, sort_keys=True)
    if key not in _HULL_CACHE:
        from scipy.spatial import ConvexHull
        V = world_vertices(s)
        ch = ConvexHull(V)
        eq = ch.equations
        if len(_HULL_CACHE) > 2000:
            _HULL_CACHE.clear()
        _HULL_CACHE[key] = (eq[:, :3].copy(), -eq[:, 3].copy())
    return _HULL_CACHE[key]


def inner_depth(s, z):
    """a LOWER bound of  dist(z, complement of K)  (exact for all types but the ellipsoid); negative/-inf if
    z is not certified inside"""
    z = np.asarray(z, dtype=float)
    t = s["type"]
    if t in FLAT_TYPES:
        return -math.inf
    if t == "sphere":
        return float(s["r"] - np.linalg.norm(z - _arr(s["c"])))
    if t in ("hull", "mesh"):
        n, off = hull_facets(s)
        # qhull normals are unit; tolerance of qhull's facet merging is not an issue for small generic point sets,
        # and the vertex check below makes the bound independent of it
        d1 = float(np.min(off - n.dot(z)))
        V = world_vertices(s)
        slack = float(np.max(V.dot(n.T) - off))   # > 0 if some vertex lies outside a reported facet plane
        return d1 - max(slack, 0.0) if slack < 1e-9 * (1 + np.abs(V).max()) else -math.inf
    R = _arr(s["R"])
    w = R.T.dot(z - _arr(s["t"]))
    if t == "box":
        return float(np.min(0.5 * _arr(s["size"]) - np.abs(w)))
    if t == "capsule":
        zc = min(max(w[2], -0.5 * s["h"]), 0.5 * s["h"])
        return float(s["r"] - math.sqrt(w[0] ** 2 + w[1] ** 2 + (w[2] - zc) ** 2))
    if t == "cylinder":
        return float(min(s["r"] - math.hypot(w[0], w[1]), 0.5 * s["l"] - abs(w[2])))
    if t == "cone":
        rho = math.hypot(w[0], w[1])
        cosa = s["h"] / math.hypot(s["h"], s["r"])
        return float(min(w[2], (s["r"] * (1.0 - w[2] / s["h"]) - rho) * cosa))
    if t == "ellipsoid":
        r = _arr(s["radii"])
        lev = float(np.linalg.norm(w / r))
        return float((1.0 - lev) * np.min(r))
    raise ValueError(t)


def inball(s):
    """(c0, rho0): a ball contained in K (used to steer witness points; the claim is re-checked by inner_depth)"""
    t = s["type"]
    if t == "sphere":
        return _arr(s["c"]), float(s["r"])
    if t in ("hull", "mesh"):
        c0 = world_vertices(s).mean(axis=0)
        return c0, inner_depth(s, c0)
    R = _arr(s["R"])
    tt = _arr(s["t"])
    if t == "box":
        return tt, 0.5 * float(min(s["size"]))
    if t == "capsule":
        return tt, float(s["r"])
    if t == "cylinder":
        return tt, float(min(s["r"], 0.5 * s["l"]))
    if t == "ellipsoid":
        return tt, float(min(s["radii"]))
    if t == "cone":
        # largest ball centred on the axis: height rho with rho = (r (1 - rho/h)) cos(alpha)
        cosa = s["h"] / math.hypot(s["h"], s["r"])
        rho = s["r"] * cosa / (1.0 + s["r"] * cosa / s["h"])
        return tt + rho * R[:, 2], float(rho)
    return None, -math.inf


def certify_gap(a, b, n):
    """separating-slab certificate along the unit vector n:  min_B <n,.> - max_A <n,.>"""
    n = unit(n)
    return -(support_value(a, n) + support_value(b, -n))


def certify_deep(a, b, z):
    return min(inner_depth(a, z), inner_depth(b, z))


def sampled_margin(s, z, dirs):
    """upper bound of the depth of z in K by direction sampling (sanity cross-check of inner_depth)"""
    return min(support_value(s, u) - float(np.dot(u, z)) for u in dirs)


# ------------------------------------------------------------------------------------------------ generators
def _size(rng, stream):
    if stream == "L":
        return rng.choice([0.25, 0.5, 1.0, 1.0, 2.0, 4.0])
    r = rng.random()
    if r < 0.6:
        return 10 ** rng.uniform(-0.7, 0.7)
    return 10 ** rng.uniform(-2, 2)


def _rot(rng, stream):
    return lattice_rot(rng) if stream == "L" else rand_rot(rng)


def _pos(rng, stream):
    if stream == "L":
        return np.array([rng.choice([-2.0, -1.0, -0.5, 0.0, 0.0, 0.5, 1.0, 2.0]) for _ in range(3)])
    r = rng.random()
    scale = 1.0 if r < 0.5 else (30.0 if r < 0.85 else 550.0)
    return np.array([rng.uniform(-1, 1) * scale for _ in range(3)])


def _poly_vertices(rng, stream, n=None):
    """vertices of a small convex polytope in general position (or a lattice solid)"""
    if stream == "L":
        kind = rng.choice(["cube", "octa", "tetra", "prism"])
        s = rng.choice([0.5, 1.0, 2.0])
        if kind == "cube":
            V = np.array([[x, y, z] for x in (-s, s) for y in (-s, s) for z in (-s, s)])
        elif kind == "octa":
            V = np.array([[s, 0, 0], [-s, 0, 0], [0, s, 0], [0, -s, 0], [0, 0, s], [0, 0, -s]])
        elif kind == "tetra":
            V = np.array([[s, s, s], [s, -s, -s], [-s, s, -s], [-s, -s, s]])
        else:
            V = np.array([[s, 0, -s], [-s, s, -s], [-s, -s, -s], [s, 0, s], [-s, s, s], [-s, -s, s]])
        return V.astype(float)
    n = n or rng.choice([4, 5, 6, 8, 12, 20])
    r = np.array([_size(rng, stream) for _ in range(3)])
    r = np.clip(r, 0.05 * r.max(), None)      # keep qhull happy: aspect ratio <= 20 for meshes
    V = np.array([rand_unit(rng) for _ in range(n)]) * r * 0.5
    return V


def gen_collider(rng, stream, typ):
    """a well-formed collider of the given type near the origin (placement is done by the scene builder)"""
    R = _rot(rng, stream)
    t = _pos(rng, stream)
    sz = lambda: _size(rng, stream)  # noqa
    if typ == "sphere":
        return {"type": typ, "c": t.tolist(), "r": sz()}
    if typ == "ellipsoid":
        return {"type": typ, "R": R.tolist(), "t": t.tolist(), "radii": [sz(), sz(), sz()]}
    if typ == "capsule":
        return {"type": typ, "R": R.tolist(), "t": t.tolist(), "r": sz(), "h": sz()}
    if typ == "cylinder":
        return {"type": typ, "R": R.tolist(), "t": t.tolist(), "r": sz(), "l": sz()}
    if typ == "cone":
        return {"type": typ, "R": R.tolist(), "t": t.tolist(), "r": sz(), "h": sz()}
    if typ == "box":
        return {"type": typ, "R": R.tolist(), "t": t.tolist(), "size": [sz(), sz(), sz()]}
    if typ == "disk":
        return {"type": typ, "c": t.tolist(), "r": sz(), "n": R[:, 2].tolist()}
    if typ == "ellipse":
        return {"type": typ, "c": t.tolist(), "axes": [R[:, 0].tolist(), R[:, 1].tolist()], "radii": [sz(), sz()]}
    if typ in ("mesh", "hull"):
        from scipy.spatial import ConvexHull
        for _ in range(20):
            V = _poly_vertices(rng, stream)
            try:
                ch = ConvexHull(V)
            except Exception:
                continue
            if len(ch.vertices) == len(V):
                break
        else:
            V = np.array([[1.0, 1, 1], [1, -1, -1], [-1, 1, -1], [-1, -1, 1]])
            ch = ConvexHull(V)
        if typ == "hull":
            W = V.dot(R.T) + t
            return {"type": typ, "vertices": W.tolist()}
        tri = ch.simplices.copy()
        # outward orientation (as make_convex_mesh produces)
        c = V.mean(axis=0)
        for k in range(len(tri)):
            a, b, cc = V[tri[k]]
            if np.cross(b - a, cc - a).dot(a - c) < 0:
                tri[k] = tri[k][::-1]
        return {"type": typ, "R": R.tolist(), "t": t.tolist(), "vertices": V.tolist(), "triangles": tri.tolist()}
    raise ValueError(typ)


FACTORS = [1.000001, 1.001, 1.1, 1.5, 2.0, 5.0, 20.0, 100.0, 1000.0]


def build_separated(rng, a, b, n, f, align=True):
    """translate b along/onto n so that the slab gap along n is g = f*delta (delta from the final scene).
    Returns (scene, None) or (None, reason)."""
    n = unit(n)
    pa = support_point(a, n)
    pb = support_point(b, -n)
    g = f * DELTA_K * scene_L(a, b)
    for _ in range(6):
        if align:
            shift = pa + g * n - pb
        else:
            shift = (support_value(a, n) + support_value(b, -n) + g) * n
        b2 = translate(b, shift)
        L = scene_L(a, b2)
        delta = DELTA_K * L
        gap = certify_gap(a, b2, n)
        if gap >= delta * (1 + 1e-9) and gap <= max(f * delta * 1.05, delta * 1.0001):
            return {"a": a, "b": b2, "kind": "sep", "n": n.tolist(), "f": f, "L": L, "delta": delta,
                    "cert": gap}, None
        g = max(f * delta, delta * (1 + 2e-9)) * (1.0 + 1e-12) + max(0.0, delta * (1 + 1e-9) - gap if gap < delta else 0.0)
    return None, "no-convergence"


def witness_point(rng, s, d, u=None):
    """a point of K with inner depth >= d, pushed towards the boundary in direction u"""
    c0, rho0 = inball(s)
    if c0 is None or not (rho0 >= d):
        return None
    if u is None:
        u = rand_unit(rng)
    k = support_point(s, u)
    lam = 1.0 - d / rho0
    return c0 + lam * (k - c0)


def build_deep(rng, a, b, f, ua=None, ub=None, centre_mode=False):
    """translate b so that a witness point lies >= f*delta inside both."""
    d = f * DELTA_K * scene_L(a, b)
    for _ in range(8):
        if centre_mode:
            za, _ = inball(a)
            zb, _ = inball(b)
        else:
            za = witness_point(rng, a, d, ua)
            zb = witness_point(rng, b, d, ub)
        if za is None or zb is None:
            return None, "too-thin"
        b2 = translate(b, za - zb)
        L = scene_L(a, b2)
        delta = DELTA_K * L
        dep = certify_deep(a, b2, za)
        if dep >= delta * (1 + 1e-9):
            return {"a": a, "b": b2, "kind": "deep", "z": np.asarray(za).tolist(), "f": f, "L": L, "delta": delta,
                    "cert": dep}, None
        if centre_mode:
            return None, "too-thin"
        d = max(d * 1.05, f * delta * 1.02)
    return None, "no-convergence"


def certified_deep_scene(a, b, z, f=None):
    """scene dict if z is certified >= delta inside both (placement already done), else None"""
    L = scene_L(a, b)
    delta = DELTA_K * L
    dep = certify_deep(a, b, z)
    if dep >= delta * (1 + 1e-9):
        return {"a": a, "b": b, "kind": "deep", "z": np.asarray(z).tolist(), "f": f if f else dep / delta, "L": L,
                "delta": delta, "cert": dep}
    return None


def gen_scene(rng, stream, types=None, kind=None, f=None, placement=None):
    """placement classes: sep: 'aligned' (support points of A and B face each other at distance g), 'slab' (moved along
    n only); deep: 'witness' (boundary-near witness), 'incentre' (in-ball centres coincide), 'same' (B is a copy of A),
    'concentric' (library centres coincide: MPR's portals_center_is_origin branch)"""
    types = types or (rng.choice(ALL_TYPES), rng.choice(ALL_TYPES))
    a = gen_collider(rng, stream, types[0])
    b = gen_collider(rng, stream, types[1])
    kind = kind or rng.choice(["sep", "deep"])
    f = f or rng.choice(FACTORS)
    if kind == "deep" and (types[0] in FLAT_TYPES or types[1] in FLAT_TYPES):
        kind = "sep"
    if kind == "sep":
        placement = placement or ("aligned" if rng.random() < 0.75 else "slab")
        if stream == "L":
            n = np.zeros(3)
            n[rng.randrange(3)] = rng.choice([-1.0, 1.0])
            if rng.random() < 0.25:
                n = unit(rng.choice([[1, 1, 0], [1, 0, 1], [0, 1, 1], [1, 1, 1], [3, 4, 0], [0, -3, 4]]))
        else:
            n = rand_unit(rng)
        sc, why = build_separated(rng, a, b, n, f, align=(placement == "aligned"))
    else:
        if placement is None:
            r = rng.random()
            lat = stream == "L"
            placement = ("witness" if r < (0.4 if lat else 0.8) else
                         "incentre" if r < (0.55 if lat else 0.87) else
                         "same" if r < (0.75 if lat else 0.92) else "concentric")
        if placement == "same":
            b = json.loads(json.dumps(a))
            z, _ = inball(a)
            sc, why = certified_deep_scene(a, b, z), "too-thin"
        elif placement == "concentric":
            b = translate(b, centre(a) - centre(b))
            sc, why = certified_deep_scene(a, b, centre(a)), "too-thin"
            if sc is None:
                # the common centre need not be deep in both (cone / mesh centroids): try the in-ball centre of a
                sc = certified_deep_scene(a, b, inball(a)[0])
        elif placement == "incentre":
            sc, why = build_deep(rng, a, b, f, centre_mode=True)
        else:
            sc, why = build_deep(rng, a, b, f)
    if sc is not None:
        sc["stream"] = stream
        sc["placement"] = placement
    return sc, why


def in_domain(sc):
    for s in (sc["a"], sc["b"]):
        if np.linalg.norm(centre(s)) > 1e3:
            return False
        fs = feature_size(s)
        if not (1e-2 <= fs <= 1e2):
            return False
    return True


# ------------------------------------------------------------------------------------------------ running the tests
def supported(test, sc):
    ta, tb = sc["a"]["type"], sc["b"]["type"]
    if test == "nesterov_prim":
        return ta in PRIM_TYPES and tb in PRIM_TYPES
    return True


def run_test(test, sc):
    """returns True/False or the string 'exc:<Type>:<msg>'; fresh colliders for every call"""
    from distance3d import gjk, mpr
    A = make_collider(sc["a"])
    B = make_collider(sc["b"])
    try:
        if test == "jolt":
            return bool(gjk.gjk_intersection(A, B))
        if test == "libccd":
            return bool(gjk.gjk_intersection_libccd(A, B))
        if test == "mpr":
            return bool(mpr.mpr_intersection(A, B))
        if test == "nesterov":
            return bool(gjk.gjk_nesterov_accelerated_intersection(A, B))
        if test == "nesterov_prim":
            return bool(gjk.gjk_nesterov_accelerated_primitives_intersection(A, B))
    except Exception as e:  # noqa
        return "exc:%s:%s" % (type(e).__name__, str(e)[:120])
    raise ValueError(test)


def expected(sc):
    return sc["kind"] == "deep"


def recheck_truth(sc):
    """re-derive the certificate from the scene alone (used by replay and before any report)"""
    L = scene_L(sc["a"], sc["b"])
    delta = DELTA_K * L
    if sc["kind"] == "sep":
        cert = certify_gap(sc["a"], sc["b"], sc["n"])
    else:
        cert = certify_deep(sc["a"], sc["b"], sc["z"])
    return cert >= delta, cert, delta


# ------------------------------------------------------------------------------------------------ recording proxies
class Recorder:
    """wraps module-level loop-body functions of the real implementation (interpreted engine) and records every
    call: inputs are copied BEFORE the call (the functions mutate their array arguments in place)"""

    def __init__(self):
        self.rec = {}
        self._undo = []

    def log(self, name, item):
        self.rec.setdefault(name, []).append(item)

    def _patch(self, mod, name, make):
        orig = getattr(mod, name)
        setattr(mod, name, make(orig))
        self._undo.append((mod, name, orig))

    def __enter__(self):
        from distance3d.gjk import _gjk_jolt as J, _gjk_libccd as Lc
        from distance3d import mpr as M
        rec = self

        def w_jolt(orig):
            def f(p, q, Y, n_points, tolerance_sq, prev, d):
                inp = (np.array(p), np.array(q), np.array(Y), int(n_points), float(tolerance_sq), float(prev), np.array(d))
                out = orig(p, q, Y, n_points, tolerance_sq, prev, d)
                rec.log("jolt.step", (inp, (out[0].value, int(out[1]), float(out[2]), np.array(Y), np.array(d))))
                return out
            return f

        def w_refine(orig):
            def f(v, v1, v2, n):
                inp = (np.array(v), int(n))
                out = orig(v, v1, v2, n)
                d = None if out[1] is None else np.array(out[1], dtype=float)
                rec.log("libccd.refine", (inp, (out[0].value, d, int(out[2]), np.array(v))))
                return out
            return f

        def w_support(tag):
            def mk(orig):
                def f(c1, c2, d):
                    out = orig(c1, c2, d)
                    rec.log(tag, (np.array(d, dtype=float), np.array(out[0], dtype=float)))
                    return out
                return f
            return mk

        def w_iterate(orig):
            def f(v, v1, v2, d, size):
                inp = (np.array(v), np.array(d), int(size))
                out = orig(v, v1, v2, d, size)
                rec.log("mpr.iterate", (inp, (np.array(out[0]), int(out[1]), np.array(v))))
                return out
            return f

        def w_searchdir(orig):
            def f(v, v1, v2):
                inp = (np.array(v),)
                out = orig(v, v1, v2)
                rec.log("mpr.searchdir", (inp, (np.array(out), np.array(v))))
                return out
            return f

        def w_expand(orig):
            def f(v, v1, v2, v4, v14, v24):
                inp = (np.array(v), np.array(v4))
                out = orig(v, v1, v2, v4, v14, v24)
                rec.log("mpr.expand", (inp, (np.array(v),)))
                return out
            return f

        def w_pdir(orig):
            def f(v):
                out = orig(v)
                rec.log("mpr.portaldir", ((np.array(v),), (np.array(out),)))
                return out
            return f

        def w_encaps(orig):
            def f(v, d):
                out = orig(v, d)
                rec.log("mpr.encaps", ((np.array(v), np.array(d)), (bool(out),)))
                return out
            return f

        def w_reach(orig):
            def f(v, v4, d, tol):
                out = orig(v, v4, d, tol)
                rec.log("mpr.reach", ((np.array(v), np.array(v4), np.array(d), float(tol)), (bool(out),)))
                return out
            return f

        def w_discover(orig):
            def f(c1, c2, max_it):
                out = orig(c1, c2, max_it)
                rec.log("mpr.discover", ((np.array(c1.center(), dtype=float), np.array(c2.center(), dtype=float), int(max_it)),
                                         (out[0].value, np.array(out[1].v))))
                return out
            return f

        self._patch(J, "_intersection_loop", w_jolt)
        self._patch(Lc, "_refine_simplex", w_refine)
        self._patch(Lc, "support_function", w_support("libccd.support"))
        self._patch(M, "support_function", w_support("mpr.support"))
        self._patch(M, "_iterate_discover_portal", w_iterate)
        self._patch(M, "_search_direction_perpendicular_to_plane_containing_v012", w_searchdir)
        self._patch(M, "_expand_portal", w_expand)
        self._patch(M, "_portal_direction", w_pdir)
        self._patch(M, "_encapsulates_origin", w_encaps)
        self._patch(M, "_portal_reach_tolerance", w_reach)
        self._patch(M, "_discover_portal", w_discover)
        return self

    def __exit__(self, *a):
        for mod, name, orig in reversed(self._undo):
            setattr(mod, name, orig)
        self._undo = []


def record_scene(sc, tests=("jolt", "libccd", "mpr")):
    """run the real tests on the scene with the recorders installed → {test: (result, records)}"""
    out = {}
    for t in tests:
        with Recorder() as r:
            res = run_test(t, sc)
        out[t] = (res, r.rec)
    return out


# ------------------------------------------------------------------------------------------------ encoding
def ev(v):
    return [f2h(x) for x in np.asarray(v, dtype=float).ravel()]


def dv(tokens):
    return np.array([h2f(t) for t in tokens])


def enc_trace(tr):
    t = [str(len(tr))]
    for d, w in tr:
        t += ev(d) + ev(w)
    return t


def close(a, b, atol, rtol=1e-9):
    a = np.asarray(a, dtype=float)
    b = np.asarray(b, dtype=float)
    if a.shape != b.shape:
        return False
    return bool(np.all(np.abs(a - b) <= atol + rtol * np.maximum(np.abs(a), np.abs(b))))


def unit_cross_amp(a, b):
    """conditioning of norm_vector(cross(a, b))"""
    c = np.linalg.norm(np.cross(a, b))
    if c == 0:
        return 1e30
    return float(np.linalg.norm(a) * np.linalg.norm(b) / c)


# ------------------------------------------------------------------------------------------------ step comparisons
def _zero_rows(M, n):
    M = np.array(M, dtype=float)
    M[n:] = 0.0
    return M


def _scale(*arrs):
    m = 1.0
    for a in arrs:
        a = np.asarray(a, dtype=float)
        if a.size:
            f = np.abs(a[np.isfinite(a)])
            if f.size:
                m = max(m, float(f.max()))
    return m


class StepCase:
    """one call of a loop-body function: how to send it to the Lean driver, how to call the implementation again
    (for tie detection by perturbation) and how to compare"""

    def __init__(self, fn, tokens, py_out, compare, origin, redo=None):
        self.fn = fn
        self.tokens = tokens
        self.py_out = py_out
        self.compare = compare      # (lean_output_string) -> (ok, message, branch)
        self.origin = origin        # JSON-able description for the replay
        self.redo = redo            # (eps) -> decision tuple of the implementation on perturbed inputs


def case_jolt_step(inp, out, origin):
    p, q, Y, n, tolsq, prev, d = inp
    state, n_out, prev_out, Y_out, d_out = out
    Yz = _zero_rows(Y, n)
    tokens = ev(p) + ev(q) + ev(Yz) + [str(n), f2h(tolsq), f2h(prev)] + ev(d)
    S = _scale(p, q, Yz)

    def compare(s):
        parts = s.split()
        if parts[0] == "err":
            return (state == "exc:" + parts[1]), "model %s, implementation %s" % (s, state), "err:" + parts[1]
        br = int(parts[1])
        m_state, m_n = int(parts[2]), int(parts[3])
        m_prev = h2f(parts[4])
        m_d = dv(parts[5:8])
        m_Y = dv(parts[8:20]).reshape(4, 3)
        if isinstance(state, str):
            return False, "implementation raised %s, model ok branch %d" % (state, br), br
        if (m_state, m_n) != (state, n_out):
            return False, "decision differs: model (state %d, n %d, br %d) vs implementation (state %d, n %d)" % (
                m_state, m_n, br, state, n_out), br
        if not close(m_prev, prev_out, 0.0, 1e-9):
            return False, "prev_v_len_sq differs: %r vs %r" % (m_prev, prev_out), br
        if not close(m_Y[:n_out], Y_out[:n_out], 1e-9 * S):
            return False, "Y differs", br
        if state == 2 and not close(m_d, d_out, 1e-9 * S):
            return False, "search direction differs: %r vs %r" % (m_d, d_out), br
        return True, "", br

    def redo(eps, rng):
        from distance3d.gjk import _gjk_jolt as J
        pp = p * (1 + eps * rng.uniform(-1, 1))
        Yc, dc = np.array(Y), np.array(d)
        try:
            o = J._intersection_loop(pp, np.array(q), Yc, n, tolsq, prev, dc)
            return (o[0].value, int(o[1]))
        except AssertionError:
            return ("exc:assertFail",)
    return StepCase("C02.jolt.step", tokens, out, compare, origin, redo)


def call_jolt_step(inp):
    """call the real _intersection_loop on synthetic inputs"""
    from distance3d.gjk import _gjk_jolt as J
    p, q, Y, n, tolsq, prev, d = inp
    Yc, dc = np.array(Y), np.array(d)
    try:
        with np.errstate(all="ignore"):
            o = J._intersection_loop(np.array(p), np.array(q), Yc, n, tolsq, prev, dc)
        return (o[0].value, int(o[1]), float(o[2]), Yc, dc)
    except AssertionError:
        return ("exc:assertFail", n, prev, Yc, dc)
    except ZeroDivisionError:
        return ("exc:divZero", n, prev, Yc, dc)
    except IndexError:
        return ("exc:indexOOB", n, prev, Yc, dc)


def case_libccd_refine(inp, out, origin):
    v, n = inp
    state, d_out, n_out, v_out = out
    vz = _zero_rows(v, n)
    tokens = ev(vz) + [str(n)]
    S = _scale(vz)

    def compare(s):
        parts = s.split()
        if parts[0] == "err":
            return (state == "exc:" + parts[1]), "model %s, implementation %s" % (s, state), "err:" + parts[1]
        br = int(parts[1])
        m_state, m_n = int(parts[2]), int(parts[3])
        m_d = dv(parts[4:7])
        m_v = dv(parts[7:19]).reshape(4, 3)
        if isinstance(state, str):
            return False, "implementation raised %s, model ok branch %d" % (state, br), br
        if (m_state, m_n) != (state, n_out):
            return False, "decision differs: model (state %d, n %d, br %d) vs implementation (state %d, n %d)" % (
                m_state, m_n, br, state, n_out), br
        if state == 0:
            if not close(m_d, d_out, 1e-9 * S ** 3):
                return False, "search direction differs: %r vs %r" % (m_d, d_out), br
            if not close(m_v[:n_out], v_out[:n_out], 1e-12 * S):
                return False, "simplex differs", br
        return True, "", br

    def redo(eps, rng):
        vp = np.array(vz) * (1 + eps * np.array([[rng.uniform(-1, 1) for _ in range(3)] for _ in range(4)]))
        o = call_libccd_refine((vp, n))
        return (o[0], o[2])
    return StepCase("C02.libccd.refine", tokens, out, compare, origin, redo)


def call_libccd_refine(inp):
    from distance3d.gjk import _gjk_libccd as Lc
    v, n = inp
    vc = np.array(v, dtype=float)
    z = np.zeros((4, 3))
    try:
        with np.errstate(all="ignore"):
            o = Lc._refine_simplex(vc, z.copy(), z.copy(), n)
        d = None if o[1] is None else np.array(o[1], dtype=float)
        if o[0].value != 1 and o[0].value != -1 and d is not None and not np.all(np.isfinite(d)):
            return ("exc:divZero", None, int(o[2]), vc)
        return (o[0].value, d, int(o[2]), vc)
    except ZeroDivisionError:
        return ("exc:divZero", None, n, vc)


def case_mpr_iterate(inp, out, origin):
    v, d, size = inp
    d_out, size_out, v_out = out
    tokens = ev(v) + ev(d) + [str(size)]
    S = _scale(v)

    def compare(s):
        parts = s.split()
        br = int(parts[1])
        m_size = int(parts[2])
        m_d = dv(parts[3:6])
        m_v = dv(parts[6:18]).reshape(4, 3)
        if m_size != size_out or not np.array_equal(m_v, v_out):
            return False, "decision differs: model (size %d, br %d) vs implementation size %d / portal rows" % (
                m_size, br, size_out), br
        amp = unit_cross_amp(v_out[1] - v_out[0], v_out[2] - v_out[0]) if br != 2 else 1.0
        if not close(m_d, d_out, 1e-9 + 1e-13 * amp):
            return False, "direction differs: %r vs %r (amp %.1e)" % (m_d, d_out, amp), br
        return True, "", br

    def redo(eps, rng):
        from distance3d import mpr as M
        vp = np.array(v) * (1 + eps * np.array([[rng.uniform(-1, 1) for _ in range(3)] for _ in range(4)]))
        z = np.zeros((4, 3))
        with np.errstate(all="ignore"):
            o = M._iterate_discover_portal(vp, z.copy(), z.copy(), np.array(d), size)
        which = 0 if np.array_equal(vp[2], vp[3]) else (1 if np.array_equal(vp[1], vp[3]) else 2)
        return (int(o[1]), which)
    return StepCase("C02.mpr.iterate", tokens, out, compare, origin, redo)


def call_mpr_iterate(inp):
    from distance3d import mpr as M
    v, d, size = inp
    vc = np.array(v, dtype=float)
    z = np.zeros((4, 3))
    with np.errstate(all="ignore"):
        o = M._iterate_discover_portal(vc, z.copy(), z.copy(), np.array(d, dtype=float), size)
    return (np.array(o[0]), int(o[1]), vc)


def case_mpr_searchdir(inp, out, origin):
    (v,) = inp
    d_out, v_out = out
    vz = _zero_rows(v, 3)
    tokens = ev(vz)

    def compare(s):
        parts = s.split()
        br = int(parts[1])
        m_d = dv(parts[2:5])
        m_v = dv(parts[5:17]).reshape(4, 3)
        if not np.array_equal(m_v[:3], v_out[:3]):
            return False, "portal rows differ after the (view) swap: model branch %d" % br, br
        amp = unit_cross_amp(vz[1] - vz[0], vz[2] - vz[0])
        if not close(m_d, d_out, 1e-9 + 1e-13 * amp):
            return False, "direction differs: %r vs %r" % (m_d, d_out), br
        return True, "", br

    def redo(eps, rng):
        vp = np.array(vz) * (1 + eps * np.array([[rng.uniform(-1, 1) for _ in range(3)] for _ in range(4)]))
        o = call_mpr_searchdir((vp,))
        return (bool(np.array_equal(o[1][1], o[1][2])),)
    return StepCase("C02.mpr.searchdir", tokens, out, compare, origin, redo)


def call_mpr_searchdir(inp):
    from distance3d import mpr as M
    (v,) = inp
    vc = np.array(v, dtype=float)
    z = np.zeros((4, 3))
    with np.errstate(all="ignore"):
        o = M._search_direction_perpendicular_to_plane_containing_v012(vc, z.copy(), z.copy())
    return (np.array(o), vc)


def case_mpr_expand(inp, out, origin):
    v, v4 = inp
    (v_out,) = out
    tokens = ev(v) + ev(v4)

    def compare(s):
        parts = s.split()
        br = int(parts[1])
        m_v = dv(parts[2:14]).reshape(4, 3)
        if not np.array_equal(m_v, v_out):
            return False, "a different portal vertex was replaced (model branch %d)" % br, br
        return True, "", br

    def redo(eps, rng):
        vp = np.array(v) * (1 + eps * np.array([[rng.uniform(-1, 1) for _ in range(3)] for _ in range(4)]))
        o = call_mpr_expand((vp, v4))
        return tuple(int(np.array_equal(o[0][i], v4)) for i in range(4))
    return StepCase("C02.mpr.expand", tokens, out, compare, origin, redo)


def call_mpr_expand(inp):
    from distance3d import mpr as M
    v, v4 = inp
    vc = np.array(v, dtype=float)
    z = np.zeros((4, 3))
    v4 = np.array(v4, dtype=float)
    M._expand_portal(vc, z.copy(), z.copy(), v4, v4, v4)
    return (vc,)


def case_mpr_portaldir(inp, out, origin):
    (v,) = inp
    (d_out,) = out
    tokens = ev(v)

    def compare(s):
        parts = s.split()
        m_d = dv(parts[2:5])
        amp = unit_cross_amp(v[2] - v[1], v[3] - v[1])
        if not close(m_d, d_out, 1e-9 + 1e-13 * amp):
            return False, "direction differs: %r vs %r (amp %.1e)" % (m_d, d_out, amp), 0
        return True, "", 0
    return StepCase("C02.mpr.portaldir", tokens, out, compare, origin)


def case_mpr_encaps(inp, out, origin):
    v, d = inp
    (b,) = out
    tokens = ev(v) + ev(d)

    def compare(s):
        m = int(s.split()[1])
        return (m == int(b)), "decision differs: model %d vs implementation %d" % (m, int(b)), m

    def redo(eps, rng):
        from distance3d import mpr as M
        return (bool(M._encapsulates_origin(np.array(v) * (1 + eps * rng.uniform(-1, 1)) + eps * 1e-3 * rng.uniform(-1, 1),
                                            np.array(d))),)
    return StepCase("C02.mpr.encaps", tokens, out, compare, origin, redo)


def case_mpr_reach(inp, out, origin):
    v, v4, d, tol = inp
    (b,) = out
    tokens = ev(v) + ev(v4) + ev(d) + [f2h(tol)]

    def compare(s):
        m = int(s.split()[1])
        return (m == int(b)), "decision differs: model %d vs implementation %d" % (m, int(b)), m

    def redo(eps, rng):
        from distance3d import mpr as M
        return (bool(M._portal_reach_tolerance(np.array(v), np.array(v4) * (1 + eps * rng.uniform(-1, 1)), np.array(d), tol)),)
    return StepCase("C02.mpr.reach", tokens, out, compare, origin, redo)


STEP_BUILDERS = {"jolt.step": case_jolt_step, "libccd.refine": case_libccd_refine, "mpr.iterate": case_mpr_iterate,
                 "mpr.searchdir": case_mpr_searchdir, "mpr.expand": case_mpr_expand, "mpr.portaldir": case_mpr_portaldir,
                 "mpr.encaps": case_mpr_encaps, "mpr.reach": case_mpr_reach}
