"""C02 — boolean narrow-phase tests (gjk_intersection[_jolt], gjk_intersection_libccd, mpr_intersection,
gjk_nesterov_accelerated_intersection, gjk_nesterov_accelerated_primitives_intersection).

Oracle (search): collider pairs of every supported type are CONSTRUCTED at a prescribed signed gap, the ground truth
being established independently of every library test:
  * separated scenes: a unit direction n and the closed-form support values h_A(n), h_B(-n) computed in this module
    (not with the library's support functions) certify  gap_n = -(h_A(n) + h_B(-n)) >= delta  (separating slab);
  * deep scenes: a witness point z and independent inner-depth formulas certify that the ball of radius delta about z
    lies in both colliders.
  Each of the five tests must answer False on the first kind and True on the second, without raising.
Correspondence: the loop-body functions are recorded while the real tests run (module-level functions are wrapped in
recording proxies; the interpreted engine makes that possible) and every recorded (state-in, support points) is fed to
the Lean model's step function; decisions (exit state, branch, n_points) must agree exactly, numbers within 1e-9*scale.
"""
import itertools
import json
import math
import os
import warnings

import numpy as np

import core
from core import f2h, h2f

warnings.filterwarnings("ignore", category=RuntimeWarning)   # numpy nan/inf warnings of the code under test

# ------------------------------------------------------------------------------------------------ manifest
RULE = ("scenes = (collider A, collider B, kind, factor) drawn from one PRNG: lattice stream (axis-aligned / 3-4-5 "
        "rotations, dyadic sizes, identical shapes, nested, coinciding centres, exactly parallel faces), general stream "
        "(random orthonormal poses, sizes log-uniform in [1e-2,1e2], placed within 1e3 of the origin), constructed at a "
        "prescribed gap g = f*delta or witness depth d = f*delta, f in {1.000001 … 1e3}; a scene is non-trivial if it is "
        "not the identity-pose unit-sphere pair; distinct = distinct canonical scene JSON; correspondence cases are the "
        "recorded loop-body calls of those runs")
EXPLANATION = ("exit-branch theorems (S2) are proved on the Lean step functions with abstract support mappings; this run "
               "ties the step functions to the code by replaying every recorded loop-body call of the real tests through "
               "the Lean driver (exact on decisions), and searches the real code with a ground truth that is constructed, "
               "not computed by any library routine")
PARTIAL = {
    "jolt_true_sound (closed on JoltGood)":
        "proved at three levels: step level with the solver facts as hypothesis (jolt_true_sound) and with the REAL "
        "solver (jolt_true_sound_real: SolverInHull is a theorem for Simplex.getClosestPointToOrigin on JoltGood "
        "simplices, jolt_solverInHull); every reachable loop state (jolt_reach_true_sound; the invariant 'n <= 3, all "
        "Y[i] in A-B, dir = -v, prev = |v|^2 > 0, v in hull(Y[:n])' is proved through update_simplex_y: "
        "jolt_inv_preserved, jolt_inv_reachable); function level (jolt_fn_true_sound, jolt_fn_true_dist: True => "
        "dist(A,B) <= max(tol, sqrt(eps) R); jolt_fn_gap_false / jolt_fn_gap_answers_false). Remaining hypothesis: "
        "VisitedGood JoltGood = every simplex the run hands to the solver is outside the C18 degeneracy bands (decidable "
        "per simplex: driver C02.jolt.good = joltGoodB at Rat; dischargeable from a property of A-B: "
        "jolt_visitedGood_of_mdiff; fully discharged for two points and for two cubes). Nothing is claimed for runs that "
        "visit a simplex inside the bands (C18 finding F-C18-jolt-abs-eps)",
    "jolt_false_stall_not_deep (closed on JoltGood)":
        "SolverBeatsSegment is a theorem for the real solver on JoltGood simplices (jolt_solverBeatsSegment, "
        "jolt_false_stall_not_deep_real); the loop invariant dir = -v_prev, prev = |v_prev|^2 is proved "
        "(jolt_inv_reachable) and the first iteration is covered (prev = MAX_FLOAT: needs |w0|^2 < (1-eps) MAX_FLOAT, the "
        "same finiteness hypothesis as C01). Function level: jolt_fn_deep_true (a delta-deep pair with eps diam(A-B)^2 < "
        "4 delta^2 is never answered False: none of the exits 0/1/5 can be taken in any iteration) and, with "
        "jolt_fn_terminates (tol != 0), jolt_fn_deep_answers_true (returns True for every sufficiently large fuel). "
        "Remaining hypothesis: VisitedGood JoltGood, as above",
    "mpr_outside_portal_sound": "the degenerate zero search direction (v0, v1, v2 collinear inside the discover loop) is not excluded: "
                                "the theorem concludes that a False on a delta-deep pair can only come from that case",
    "mpr_refine_true_sound_under_portal_invariant": "PortalInv (origin ray through the portal, non-degenerate) is a hypothesis; it is NOT "
                                                    "preserved by the code (view-based _swap_vertices, `< EPSILON` ties): see "
                                                    "mpr_refine_true_flat_portal_asIs_counterexample and finding F-mpr-origin-on-portal-side-plane",
    "mpr_iteration_cap_exit (closed)":
        "proved (C02Link): if _discover_portal leaves through `it >= max_iterations` with an unfinished portal (discover "
        "branch 6), the portal has a repeated vertex (the last _iterate_discover_portal copied v3 over v1 or v2), "
        "_portal_direction is norm_vector(0) = 0 and mpr_intersection answers True in the first refinement pass, for "
        "every pair of colliders (answer by fiat, no geometric content). Reachability from the top of mpr_intersection is "
        "shown for max_iterations = 1 with an explicit mapping (capSup_discover_br6). A collider pair reaching the cap "
        "with the DEFAULT max_iterations = 100 is known since the thorough C08 search: the exactly touching box / "
        "4-vertex mesh of the fixed finding F-mpr-degenerate-portal-nan (known_findings.json; box size (0.076, 0.033, "
        "0.047) at the origin, regression scene of harness/props/c08.py and c19.py) makes _discover_portal run 100 "
        "passes of _iterate_discover_portal and declare a portal with v[1] == v[3] built; mpr_intersection answers True "
        "on it (correct there: the pair touches), mpr_penetration returned a NaN position before /repo 045c18e",
    "mpr_refine_termination": "_refine_portal has no iteration cap; termination is not proved (model: fuel, Err.fuel)",
    "libccd_contact_origin_in_tetra_nondegenerate": "non-zero volume and 'origin on the newest point's side of the oldest face' are "
                                                    "hypotheses; zero-volume simplices make the three sign tests compare 0 == 0",
    "libccd_degenerate_exits":
        "no theorem for touching_contact (point_to_triangle < sqrt(eps)), degenerated_triangle / degenerated_tetrahedron "
        "(NO_CONTACT), origin_lies_on_tetrahedrons_face, |dir|^2 < EPSILON and the iteration-cap exit (all answer by "
        "fiat); they are compared step-wise and searched by the oracle only. origin_on_AB_segment now has a step-level "
        "theorem (libccd_origin_on_segment_near: the CONTACT answer of _line_segment with both simplex points in A-B "
        "yields a in A, b in B with |a-b|^2 |AB|^2 < EPSILON under the side condition A.B <= |B|^2, which the code does "
        "not test); no function-level form (the invariant 'simplex points in A-B' is not proved for the libccd loop)",
    "nesterov": "gjk_nesterov_accelerated(_primitives)_intersection are not modelled; oracle only (finding "
                "F-nesterov-project-tetra-outside-simplex; the inflation defect found by this oracle was repaired upstream, 78b7577)",
}
ASSUMPTIONS = [
    "support mappings are abstract: IsSupport A d (sA d) for every d (property C03 supplies it for the concrete colliders)",
    "C18 solver specification enters Jolt's solver-dependent exits as hypotheses (SolverInHull, SolverBeatsSegment)",
    "gap_support assumes the closest pair is attained (minimum-norm point of A-B exists: compact colliders)",
    "exact real arithmetic in the theorems; the harness compares the same model at Float with the code step by step",
]
TRUSTED = [
    "modelled: _gjk_jolt._intersection_loop + driver loop (solver imported from the C18 model), mpr._discover_portal and all its helpers "
    "incl. _swap_vertices as it behaves on numpy views, _refine_portal, _portal_*, _expand_portal, _gjk_libccd._gjk, _refine_simplex, "
    "_line_segment, _triangle, _triangle_ab, _tetrahedron, _rearrange_simplex_to_triangle, distance.point_to_triangle (distance only); "
    "per-collider arrays v1/v2 are not modelled (never read by the boolean tests)",
    "ground truth of the oracle: closed-form support values / inner-depth formulas written in harness/props/c02.py, scipy qhull facets "
    "for polytopes (cross-checked against the vertices)",
]
MANIFEST = dict(
    text=("Lean exit-branch theorems (S2, abstract support mappings, all convex sets, all loop states) for the Jolt, MPR and libccd "
          "boolean tests: separating-axis / before-origin / refine-false exits imply disjointness, MPR outside-portal and tolerance "
          "exits imply 'not delta-deep' via deep_support_margin, Jolt's True exits imply dist <= max(tol, sqrt(eps) max|Y|) and its "
          "stall exits are impossible for deep pairs; Jolt's theorems hold for the model of the real simplex solver on JoltGood "
          "simplices (C18 link) at step, reachable-state and function level, including termination and no-failure of the loop; "
          "MPR's True exit is sound under the portal invariant "
          "and provably unsound without it. The loop-body models are tied to the code by replaying every recorded loop-body call of "
          "real runs (and synthetic inputs around every branch) through the Lean driver, exact on decisions. The oracle constructs "
          "collider pairs of all types at a prescribed gap / witness depth (truth independent of any library test) and requires "
          "False / True from all five tests."),
    note=("trusted: Lean kernel + Mathlib, axioms propext/Classical.choice/Quot.sound; exact-real semantics; C18 solver spec and C03 "
          "support contract as hypotheses; Nesterov loops oracle-only; partial exits named in PARTIAL; known findings: "
          "F-nesterov-project-tetra-outside-simplex, F-mpr-origin-on-portal-side-plane (F-nesterov-inflation-generic-support was "
          "repaired upstream by 78b7577; its witness is a regression input)"),
    technique="Lean 4 exit-branch proofs on hand-written model + step-wise trace correspondence + constructed-truth oracle",
    design="§7 C02")

DELTA_K = 1e-3
TESTS = ["jolt", "libccd", "mpr", "nesterov", "nesterov_prim"]
PRIM_TYPES = ("sphere", "capsule", "box", "ellipsoid", "cylinder")
SOLID_TYPES = ("sphere", "ellipsoid", "capsule", "cylinder", "cone", "box", "mesh", "hull")
FLAT_TYPES = ("disk", "ellipse")
ALL_TYPES = SOLID_TYPES + FLAT_TYPES


# ------------------------------------------------------------------------------------------------ small linear algebra
def unit(v):
    v = np.asarray(v, dtype=float)
    return v / np.linalg.norm(v)


def rand_unit(rng):
    while True:
        v = np.array([rng.gauss(0, 1), rng.gauss(0, 1), rng.gauss(0, 1)])
        n = np.linalg.norm(v)
        if n > 1e-3:
            return v / n


def rand_rot(rng):
    a = rand_unit(rng)
    b = rand_unit(rng)
    b = b - a * a.dot(b)
    while np.linalg.norm(b) < 1e-3:
        b = rand_unit(rng)
        b = b - a * a.dot(b)
    b = b / np.linalg.norm(b)
    c = np.cross(a, b)
    return np.column_stack((a, b, c))


_PERMS = list(itertools.permutations(range(3)))


def lattice_rot(rng):
    """signed axis permutation (det +1), optionally composed with a 3-4-5 rotation about a coordinate axis"""
    p = rng.choice(_PERMS)
    R = np.zeros((3, 3))
    for i in range(3):
        R[i, p[i]] = rng.choice([-1.0, 1.0])
    if np.linalg.det(R) < 0:
        R[:, 0] *= -1
    if rng.random() < 0.4:
        c, s = rng.choice([(0.6, 0.8), (0.8, 0.6), (-0.6, 0.8), (0.28, 0.96)])
        k = rng.randrange(3)
        i, j = [(1, 2), (2, 0), (0, 1)][k]
        G = np.eye(3)
        G[i, i] = c
        G[j, j] = c
        G[i, j] = -s
        G[j, i] = s
        R = G.dot(R)
    return R


def pose44(R, t):
    A = np.eye(4)
    A[:3, :3] = np.asarray(R, dtype=float)
    A[:3, 3] = np.asarray(t, dtype=float)
    return A


# ------------------------------------------------------------------------------------------------ collider specs
def _arr(x):
    return np.array(x, dtype=float)


def make_collider(s):
    """fresh library collider from a JSON-able spec (fresh: MeshGraph caches the last support vertex)"""
    from distance3d import colliders as C
    t = s["type"]
    if t == "sphere":
        return C.Sphere(_arr(s["c"]), float(s["r"]))
    if t == "ellipsoid":
        return C.Ellipsoid(pose44(s["R"], s["t"]), _arr(s["radii"]))
    if t == "capsule":
        return C.Capsule(pose44(s["R"], s["t"]), float(s["r"]), float(s["h"]))
    if t == "cylinder":
        return C.Cylinder(pose44(s["R"], s["t"]), float(s["r"]), float(s["l"]))
    if t == "cone":
        return C.Cone(pose44(s["R"], s["t"]), float(s["r"]), float(s["h"]))
    if t == "box":
        return C.Box(pose44(s["R"], s["t"]), _arr(s["size"]))
    if t == "disk":
        return C.Disk(_arr(s["c"]), float(s["r"]), _arr(s["n"]))
    if t == "ellipse":
        return C.Ellipse(_arr(s["c"]), _arr(s["axes"]), _arr(s["radii"]))
    if t == "mesh":
        return C.MeshGraph(pose44(s["R"], s["t"]), _arr(s["vertices"]), np.array(s["triangles"], dtype=int))
    if t == "hull":
        return C.ConvexHullVertices(_arr(s["vertices"]))
    raise ValueError(t)


def translate(s, d):
    s = dict(s)
    d = np.asarray(d, dtype=float)
    if "t" in s:
        s["t"] = (_arr(s["t"]) + d).tolist()
    elif "c" in s:
        s["c"] = (_arr(s["c"]) + d).tolist()
    else:
        s["vertices"] = (_arr(s["vertices"]) + d).tolist()
    return s


def world_vertices(s):
    if s["type"] == "hull":
        return _arr(s["vertices"])
    if s["type"] == "mesh":
        return _arr(s["vertices"]).dot(_arr(s["R"]).T) + _arr(s["t"])
    if s["type"] == "box":
        h = 0.5 * _arr(s["size"])
        corners = np.array([[sx * h[0], sy * h[1], sz * h[2]] for sx in (-1, 1) for sy in (-1, 1) for sz in (-1, 1)])
        return corners.dot(_arr(s["R"]).T) + _arr(s["t"])
    raise ValueError(s["type"])


def centre(s):
    """a point of the collider used for L (what the library's center() returns is not relied upon)"""
    t = s["type"]
    if t in ("sphere", "disk", "ellipse"):
        return _arr(s["c"])
    if t == "hull":
        return _arr(s["vertices"]).mean(axis=0)
    if t == "mesh":
        return _arr(s["R"]).dot(_arr(s["vertices"]).mean(axis=0)) + _arr(s["t"])
    if t == "cone":
        return _arr(s["t"]) + 0.5 * s["h"] * _arr(s["R"])[:, 2]
    return _arr(s["t"])


def feature_size(s):
    t = s["type"]
    if t in ("sphere", "disk"):
        return float(s["r"])
    if t in ("ellipsoid", "ellipse"):
        return float(max(s["radii"]))
    if t in ("capsule", "cone"):
        return float(max(s["r"], s["h"]))
    if t == "cylinder":
        return float(max(s["r"], s["l"]))
    if t == "box":
        return float(max(s["size"]))
    v = _arr(s["vertices"])
    return float(np.max(v.max(axis=0) - v.min(axis=0)))


def scene_L(a, b):
    return max(1.0, feature_size(a), feature_size(b), float(np.linalg.norm(centre(a) - centre(b))))


# ------------------------------------------------------------------------------------------------ independent geometry
def support_value(s, u):
    """h_K(u) = max_{x in K} <u, x>, closed forms written here (no library call)"""
    u = np.asarray(u, dtype=float)
    t = s["type"]
    if t == "sphere":
        return float(u.dot(_arr(s["c"])) + s["r"] * np.linalg.norm(u))
    if t == "disk":
        n = _arr(s["n"])
        w = u - u.dot(n) * n
        return float(u.dot(_arr(s["c"])) + s["r"] * np.linalg.norm(w))
    if t == "ellipse":
        ax = _arr(s["axes"])
        return float(u.dot(_arr(s["c"])) + math.hypot(s["radii"][0] * ax[0].dot(u), s["radii"][1] * ax[1].dot(u)))
    if t in ("hull", "mesh"):
        return float(np.max(world_vertices(s).dot(u)))
    R = _arr(s["R"])
    w = R.T.dot(u)
    base = float(u.dot(_arr(s["t"])))
    if t == "ellipsoid":
        return base + float(np.linalg.norm(_arr(s["radii"]) * w))
    if t == "capsule":
        return base + 0.5 * s["h"] * abs(w[2]) + s["r"] * float(np.linalg.norm(w))
    if t == "cylinder":
        return base + 0.5 * s["l"] * abs(w[2]) + s["r"] * math.hypot(w[0], w[1])
    if t == "cone":
        return base + max(s["h"] * w[2], s["r"] * math.hypot(w[0], w[1]))
    if t == "box":
        return base + float(np.sum(0.5 * _arr(s["size"]) * np.abs(w)))
    raise ValueError(t)


def support_point(s, u):
    """some maximiser of <u, x> over K (closed forms; only used to steer constructions, never as truth)"""
    u = np.asarray(u, dtype=float)
    t = s["type"]
    nu = np.linalg.norm(u)
    if t == "sphere":
        return _arr(s["c"]) + s["r"] * u / nu
    if t == "disk":
        n = _arr(s["n"])
        w = u - u.dot(n) * n
        nw = np.linalg.norm(w)
        return _arr(s["c"]) + (s["r"] * w / nw if nw > 0 else 0.0)
    if t == "ellipse":
        ax = _arr(s["axes"])
        r = _arr(s["radii"])
        g = np.array([r[0] * ax[0].dot(u), r[1] * ax[1].dot(u)])
        ng = np.linalg.norm(g)
        if ng == 0:
            return _arr(s["c"])
        return _arr(s["c"]) + (r[0] * g[0] / ng) * ax[0] + (r[1] * g[1] / ng) * ax[1]
    if t in ("hull", "mesh"):
        V = world_vertices(s)
        return V[int(np.argmax(V.dot(u)))]
    R = _arr(s["R"])
    w = R.T.dot(u)
    if t == "ellipsoid":
        r = _arr(s["radii"])
        g = r * w
        loc = r * g / np.linalg.norm(g)
    elif t == "capsule":
        loc = s["r"] * w / np.linalg.norm(w) + np.array([0, 0, 0.5 * s["h"] * (1 if w[2] > 0 else -1)])
    elif t == "cylinder":
        rho = math.hypot(w[0], w[1])
        loc = np.array([0.0, 0.0, 0.5 * s["l"] * (1 if w[2] > 0 else -1)])
        if rho > 0:
            loc[:2] = s["r"] * w[:2] / rho
    elif t == "cone":
        rho = math.hypot(w[0], w[1])
        if s["r"] * rho >= s["h"] * w[2]:
            loc = np.zeros(3)
            if rho > 0:
                loc[:2] = s["r"] * w[:2] / rho
        else:
            loc = np.array([0.0, 0.0, s["h"]])
    elif t == "box":
        loc = 0.5 * _arr(s["size"]) * np.where(w > 0, 1.0, -1.0)
    else:
        raise ValueError(t)
    return R.dot(loc) + _arr(s["t"])


_HULL_CACHE = {}


def hull_facets(s):
    """(normals, offsets) with  n.x <= off  for x in the polytope; scipy qhull on the world vertices"""
    key = json.dumps(s, sort_keys=True)
    if key not in _HULL_CACHE:
        from scipy.spatial import ConvexHull
        V = world_vertices(s)
        ch = ConvexHull(V)
        eq = ch.equations
        if len(_HULL_CACHE) > 2000:
            _HULL_CACHE.clear()
        _HULL_CACHE[key] = (eq[:, :3].copy(), -eq[:, 3].copy())
    return _HULL_CACHE[key]


def inner_depth(s, z):
    """a LOWER bound of  dist(z, complement of K)  (exact for all types but the ellipsoid); negative/-inf if
    z is not certified inside"""
    z = np.asarray(z, dtype=float)
    t = s["type"]
    if t in FLAT_TYPES:
        return -math.inf
    if t == "sphere":
        return float(s["r"] - np.linalg.norm(z - _arr(s["c"])))
    if t in ("hull", "mesh"):
        n, off = hull_facets(s)
        # qhull normals are unit; tolerance of qhull's facet merging is not an issue for small generic point sets,
        # and the vertex check below makes the bound independent of it
        d1 = float(np.min(off - n.dot(z)))
        V = world_vertices(s)
        slack = float(np.max(V.dot(n.T) - off))   # > 0 if some vertex lies outside a reported facet plane
        return d1 - max(slack, 0.0) if slack < 1e-9 * (1 + np.abs(V).max()) else -math.inf
    R = _arr(s["R"])
    w = R.T.dot(z - _arr(s["t"]))
    if t == "box":
        return float(np.min(0.5 * _arr(s["size"]) - np.abs(w)))
    if t == "capsule":
        zc = min(max(w[2], -0.5 * s["h"]), 0.5 * s["h"])
        return float(s["r"] - math.sqrt(w[0] ** 2 + w[1] ** 2 + (w[2] - zc) ** 2))
    if t == "cylinder":
        return float(min(s["r"] - math.hypot(w[0], w[1]), 0.5 * s["l"] - abs(w[2])))
    if t == "cone":
        rho = math.hypot(w[0], w[1])
        cosa = s["h"] / math.hypot(s["h"], s["r"])
        return float(min(w[2], (s["r"] * (1.0 - w[2] / s["h"]) - rho) * cosa))
    if t == "ellipsoid":
        r = _arr(s["radii"])
        lev = float(np.linalg.norm(w / r))
        return float((1.0 - lev) * np.min(r))
    raise ValueError(t)


def inball(s):
    """(c0, rho0): a ball contained in K (used to steer witness points; the claim is re-checked by inner_depth)"""
    t = s["type"]
    if t == "sphere":
        return _arr(s["c"]), float(s["r"])
    if t in ("hull", "mesh"):
        c0 = world_vertices(s).mean(axis=0)
        return c0, inner_depth(s, c0)
    R = _arr(s["R"])
    tt = _arr(s["t"])
    if t == "box":
        return tt, 0.5 * float(min(s["size"]))
    if t == "capsule":
        return tt, float(s["r"])
    if t == "cylinder":
        return tt, float(min(s["r"], 0.5 * s["l"]))
    if t == "ellipsoid":
        return tt, float(min(s["radii"]))
    if t == "cone":
        # largest ball centred on the axis: height rho with rho = (r (1 - rho/h)) cos(alpha)
        cosa = s["h"] / math.hypot(s["h"], s["r"])
        rho = s["r"] * cosa / (1.0 + s["r"] * cosa / s["h"])
        return tt + rho * R[:, 2], float(rho)
    return None, -math.inf


def certify_gap(a, b, n):
    """separating-slab certificate along the unit vector n:  min_B <n,.> - max_A <n,.>"""
    n = unit(n)
    return -(support_value(a, n) + support_value(b, -n))


def certify_deep(a, b, z):
    return min(inner_depth(a, z), inner_depth(b, z))


def sampled_margin(s, z, dirs):
    """upper bound of the depth of z in K by direction sampling (sanity cross-check of inner_depth)"""
    return min(support_value(s, u) - float(np.dot(u, z)) for u in dirs)


# ------------------------------------------------------------------------------------------------ generators
def _size(rng, stream):
    if stream == "L":
        return rng.choice([0.25, 0.5, 1.0, 1.0, 2.0, 4.0])
    r = rng.random()
    if r < 0.6:
        return 10 ** rng.uniform(-0.7, 0.7)
    return 10 ** rng.uniform(-2, 2)


def _rot(rng, stream):
    return lattice_rot(rng) if stream == "L" else rand_rot(rng)


def _pos(rng, stream):
    if stream == "L":
        return np.array([rng.choice([-2.0, -1.0, -0.5, 0.0, 0.0, 0.5, 1.0, 2.0]) for _ in range(3)])
    r = rng.random()
    scale = 1.0 if r < 0.5 else (30.0 if r < 0.85 else 550.0)
    return np.array([rng.uniform(-1, 1) * scale for _ in range(3)])


def _poly_vertices(rng, stream, n=None):
    """vertices of a small convex polytope in general position (or a lattice solid)"""
    if stream == "L":
        kind = rng.choice(["cube", "octa", "tetra", "prism"])
        s = rng.choice([0.5, 1.0, 2.0])
        if kind == "cube":
            V = np.array([[x, y, z] for x in (-s, s) for y in (-s, s) for z in (-s, s)])
        elif kind == "octa":
            V = np.array([[s, 0, 0], [-s, 0, 0], [0, s, 0], [0, -s, 0], [0, 0, s], [0, 0, -s]])
        elif kind == "tetra":
            V = np.array([[s, s, s], [s, -s, -s], [-s, s, -s], [-s, -s, s]])
        else:
            V = np.array([[s, 0, -s], [-s, s, -s], [-s, -s, -s], [s, 0, s], [-s, s, s], [-s, -s, s]])
        return V.astype(float)
    n = n or rng.choice([4, 5, 6, 8, 12, 20])
    r = np.array([_size(rng, stream) for _ in range(3)])
    r = np.clip(r, 0.05 * r.max(), None)      # keep qhull happy: aspect ratio <= 20 for meshes
    V = np.array([rand_unit(rng) for _ in range(n)]) * r * 0.5
    return V


def gen_collider(rng, stream, typ):
    """a well-formed collider of the given type near the origin (placement is done by the scene builder)"""
    R = _rot(rng, stream)
    t = _pos(rng, stream)
    sz = lambda: _size(rng, stream)  # noqa
    if typ == "sphere":
        return {"type": typ, "c": t.tolist(), "r": sz()}
    if typ == "ellipsoid":
        return {"type": typ, "R": R.tolist(), "t": t.tolist(), "radii": [sz(), sz(), sz()]}
    if typ == "capsule":
        return {"type": typ, "R": R.tolist(), "t": t.tolist(), "r": sz(), "h": sz()}
    if typ == "cylinder":
        return {"type": typ, "R": R.tolist(), "t": t.tolist(), "r": sz(), "l": sz()}
    if typ == "cone":
        return {"type": typ, "R": R.tolist(), "t": t.tolist(), "r": sz(), "h": sz()}
    if typ == "box":
        return {"type": typ, "R": R.tolist(), "t": t.tolist(), "size": [sz(), sz(), sz()]}
    if typ == "disk":
        return {"type": typ, "c": t.tolist(), "r": sz(), "n": R[:, 2].tolist()}
    if typ == "ellipse":
        return {"type": typ, "c": t.tolist(), "axes": [R[:, 0].tolist(), R[:, 1].tolist()], "radii": [sz(), sz()]}
    if typ in ("mesh", "hull"):
        from scipy.spatial import ConvexHull
        for _ in range(20):
            V = _poly_vertices(rng, stream)
            try:
                ch = ConvexHull(V)
            except Exception:
                continue
            if len(ch.vertices) == len(V):
                break
        else:
            V = np.array([[1.0, 1, 1], [1, -1, -1], [-1, 1, -1], [-1, -1, 1]])
            ch = ConvexHull(V)
        if typ == "hull":
            W = V.dot(R.T) + t
            return {"type": typ, "vertices": W.tolist()}
        tri = ch.simplices.copy()
        # outward orientation (as make_convex_mesh produces) — or, for a third of the meshes, the triangle list as a
        # hull routine hands it out: every triangle in whichever winding it happens to have
        c = V.mean(axis=0)
        mixed = rng.random() < 0.33
        for k in range(len(tri)):
            a, b, cc = V[tri[k]]
            if np.cross(b - a, cc - a).dot(a - c) < 0 and not mixed:
                tri[k] = tri[k][::-1]
            elif mixed and rng.random() < 0.5:
                tri[k] = tri[k][::-1]
        return {"type": typ, "R": R.tolist(), "t": t.tolist(), "vertices": V.tolist(), "triangles": tri.tolist()}
    raise ValueError(typ)


FACTORS = [1.000001, 1.001, 1.1, 1.5, 2.0, 5.0, 20.0, 100.0, 1000.0]


def build_separated(rng, a, b, n, f, align=True):
    """translate b along/onto n so that the slab gap along n is g = f*delta (delta from the final scene).
    Returns (scene, None) or (None, reason)."""
    n = unit(n)
    pa = support_point(a, n)
    pb = support_point(b, -n)
    g = f * DELTA_K * scene_L(a, b)
    for _ in range(6):
        if align:
            shift = pa + g * n - pb
        else:
            shift = (support_value(a, n) + support_value(b, -n) + g) * n
        b2 = translate(b, shift)
        L = scene_L(a, b2)
        delta = DELTA_K * L
        gap = certify_gap(a, b2, n)
        if gap >= delta * (1 + 1e-9) and gap <= max(f * delta * 1.05, delta * 1.0001):
            return {"a": a, "b": b2, "kind": "sep", "n": n.tolist(), "f": f, "L": L, "delta": delta,
                    "cert": gap}, None
        g = max(f * delta, delta * (1 + 2e-9)) * (1.0 + 1e-12) + max(0.0, delta * (1 + 1e-9) - gap if gap < delta else 0.0)
    return None, "no-convergence"


def witness_point(rng, s, d, u=None):
    """a point of K with inner depth >= d, pushed towards the boundary in direction u"""
    c0, rho0 = inball(s)
    if c0 is None or not (rho0 >= d):
        return None
    if u is None:
        u = rand_unit(rng)
    k = support_point(s, u)
    lam = 1.0 - d / rho0
    return c0 + lam * (k - c0)


def build_deep(rng, a, b, f, ua=None, ub=None, centre_mode=False):
    """translate b so that a witness point lies >= f*delta inside both."""
    d = f * DELTA_K * scene_L(a, b)
    for _ in range(8):
        if centre_mode:
            za, _ = inball(a)
            zb, _ = inball(b)
        else:
            za = witness_point(rng, a, d, ua)
            zb = witness_point(rng, b, d, ub)
        if za is None or zb is None:
            return None, "too-thin"
        b2 = translate(b, za - zb)
        L = scene_L(a, b2)
        delta = DELTA_K * L
        dep = certify_deep(a, b2, za)
        if dep >= delta * (1 + 1e-9):
            return {"a": a, "b": b2, "kind": "deep", "z": np.asarray(za).tolist(), "f": f, "L": L, "delta": delta,
                    "cert": dep}, None
        if centre_mode:
            return None, "too-thin"
        d = max(d * 1.05, f * delta * 1.02)
    return None, "no-convergence"


def certified_deep_scene(a, b, z, f=None):
    """scene dict if z is certified >= delta inside both (placement already done), else None"""
    L = scene_L(a, b)
    delta = DELTA_K * L
    dep = certify_deep(a, b, z)
    if dep >= delta * (1 + 1e-9):
        return {"a": a, "b": b, "kind": "deep", "z": np.asarray(z).tolist(), "f": f if f else dep / delta, "L": L,
                "delta": delta, "cert": dep}
    return None


def gen_scene(rng, stream, types=None, kind=None, f=None, placement=None):
    """placement classes: sep: 'aligned' (support points of A and B face each other at distance g), 'slab' (moved along
    n only); deep: 'witness' (boundary-near witness), 'incentre' (in-ball centres coincide), 'same' (B is a copy of A),
    'concentric' (library centres coincide: MPR's portals_center_is_origin branch)"""
    types = types or (rng.choice(ALL_TYPES), rng.choice(ALL_TYPES))
    a = gen_collider(rng, stream, types[0])
    b = gen_collider(rng, stream, types[1])
    kind = kind or rng.choice(["sep", "deep"])
    f = f or rng.choice(FACTORS)
    if kind == "deep" and (types[0] in FLAT_TYPES or types[1] in FLAT_TYPES):
        kind = "sep"
    if kind == "sep":
        placement = placement or ("aligned" if rng.random() < 0.75 else "slab")
        if stream == "L":
            n = np.zeros(3)
            n[rng.randrange(3)] = rng.choice([-1.0, 1.0])
            if rng.random() < 0.25:
                n = unit(rng.choice([[1, 1, 0], [1, 0, 1], [0, 1, 1], [1, 1, 1], [3, 4, 0], [0, -3, 4]]))
        else:
            n = rand_unit(rng)
            axial = [x for x in (a, b) if x["type"] in ("cylinder", "capsule", "cone", "disk", "ellipse", "box")]
            if axial and rng.random() < 0.5:
                # face-on / coaxial placement under a general rotation: the separation direction is a feature axis of one
                # of the shapes (cylinder, capsule and cone axis, box face normal, disk normal, ellipse axis) — the
                # search direction then reaches the support function parallel to that axis up to rounding
                who = rng.choice(axial)
                if "R" in who:
                    ax = np.array(who["R"], dtype=float)[:, rng.choice([2, 2, 0, 1])]
                elif "n" in who:
                    ax = np.array(who["n"], dtype=float)
                elif "axes" in who:
                    ax = np.array(who["axes"][rng.randrange(2)], dtype=float)
                else:
                    ax = None
                if ax is not None and np.linalg.norm(ax) > 0:
                    n = unit(ax) * rng.choice([-1.0, 1.0])
        sc, why = build_separated(rng, a, b, n, f, align=(placement == "aligned"))
    else:
        if placement is None:
            r = rng.random()
            lat = stream == "L"
            placement = ("witness" if r < (0.4 if lat else 0.8) else
                         "incentre" if r < (0.55 if lat else 0.87) else
                         "same" if r < (0.75 if lat else 0.92) else "concentric")
        if placement == "same":
            b = json.loads(json.dumps(a))
            z, _ = inball(a)
            sc, why = certified_deep_scene(a, b, z), "too-thin"
        elif placement == "concentric":
            b = translate(b, centre(a) - centre(b))
            sc, why = certified_deep_scene(a, b, centre(a)), "too-thin"
            if sc is None:
                # the common centre need not be deep in both (cone / mesh centroids): try the in-ball centre of a
                sc = certified_deep_scene(a, b, inball(a)[0])
        elif placement == "incentre":
            sc, why = build_deep(rng, a, b, f, centre_mode=True)
        else:
            sc, why = build_deep(rng, a, b, f)
    if sc is not None:
        sc["stream"] = stream
        sc["placement"] = placement
    return sc, why


def in_domain(sc):
    for s in (sc["a"], sc["b"]):
        if np.linalg.norm(centre(s)) > 1e3:
            return False
        fs = feature_size(s)
        if not (1e-2 <= fs <= 1e2):
            return False
    return True


# ------------------------------------------------------------------------------------------------ running the tests
def supported(test, sc):
    ta, tb = sc["a"]["type"], sc["b"]["type"]
    if test == "nesterov_prim":
        return ta in PRIM_TYPES and tb in PRIM_TYPES
    return True


def pose_of_spec(s):
    """4x4 pose that update_pose() needs to place a collider of this spec (None: the class has no update_pose)"""
    t = s["type"]
    if t == "hull":
        return None
    if "R" in s:
        return pose44(s["R"], s["t"])
    P = np.eye(4)
    P[:3, 3] = _arr(s["c"])
    if t == "disk":
        n = _arr(s["n"])
        a = np.eye(3)[int(np.argmin(np.abs(n)))]
        x = np.cross(n, a)
        x /= np.linalg.norm(x)
        P[:3, :3] = np.column_stack((x, np.cross(n, x), n))
    elif t == "ellipse":
        ax = _arr(s["axes"]).reshape(2, 3)
        P[:3, :3] = np.column_stack((ax[0], ax[1], np.cross(ax[0], ax[1])))
    return P


def can_move(sc):
    return pose_of_spec(sc["a"]) is not None and pose_of_spec(sc["b"]) is not None


def run_test(test, sc, moved=False):
    """returns True/False or the string 'exc:<Type>:<msg>'; fresh colliders for every call.
    moved=True: the two collider OBJECTS are first built somewhere else (translated copies), queried once with the
    same test (so that anything memoised per object pair is filled), then brought to the scene's poses with
    update_pose() and queried again; the second answer is returned."""
    from distance3d import gjk, mpr
    if moved:
        A = make_collider(translate(sc["a"], [7.0, -3.0, 2.0]))
        B = make_collider(translate(sc["b"], [-4.0, 5.0, 1.5]))
    else:
        A = make_collider(sc["a"])
        B = make_collider(sc["b"])

    def _q():
        if test == "jolt":
            return bool(gjk.gjk_intersection(A, B))
        if test == "libccd":
            return bool(gjk.gjk_intersection_libccd(A, B))
        if test == "mpr":
            return bool(mpr.mpr_intersection(A, B))
        if test == "nesterov":
            return bool(gjk.gjk_nesterov_accelerated_intersection(A, B))
        if test == "nesterov_prim":
            return bool(gjk.gjk_nesterov_accelerated_primitives_intersection(A, B))
        raise ValueError(test)
    if moved:
        try:
            _q()
            A.update_pose(pose_of_spec(sc["a"]))
            B.update_pose(pose_of_spec(sc["b"]))
            return _q()
        except Exception as e:  # noqa
            return "exc:%s:%s" % (type(e).__name__, str(e)[:120])
    try:
        if test == "jolt":
            return bool(gjk.gjk_intersection(A, B))
        if test == "libccd":
            return bool(gjk.gjk_intersection_libccd(A, B))
        if test == "mpr":
            return bool(mpr.mpr_intersection(A, B))
        if test == "nesterov":
            return bool(gjk.gjk_nesterov_accelerated_intersection(A, B))
        if test == "nesterov_prim":
            return bool(gjk.gjk_nesterov_accelerated_primitives_intersection(A, B))
    except Exception as e:  # noqa
        return "exc:%s:%s" % (type(e).__name__, str(e)[:120])
    raise ValueError(test)


def expected(sc):
    return sc["kind"] == "deep"


def recheck_truth(sc):
    """re-derive the certificate from the scene alone (used by replay and before any report)"""
    L = scene_L(sc["a"], sc["b"])
    delta = DELTA_K * L
    if sc["kind"] == "sep":
        cert = certify_gap(sc["a"], sc["b"], sc["n"])
    else:
        cert = certify_deep(sc["a"], sc["b"], sc["z"])
    return cert >= delta, cert, delta


# ------------------------------------------------------------------------------------------------ recording proxies
class Recorder:
    """wraps module-level loop-body functions of the real implementation (interpreted engine) and records every
    call: inputs are copied BEFORE the call (the functions mutate their array arguments in place)"""

    def __init__(self):
        self.rec = {}
        self._undo = []

    def log(self, name, item):
        self.rec.setdefault(name, []).append(item)

    def _patch(self, mod, name, make):
        orig = getattr(mod, name)
        setattr(mod, name, make(orig))
        self._undo.append((mod, name, orig))

    def __enter__(self):
        from distance3d.gjk import _gjk_jolt as J, _gjk_libccd as Lc
        from distance3d import mpr as M
        rec = self

        def w_jolt(orig):
            def f(p, q, Y, n_points, tolerance_sq, prev, d):
                inp = (np.array(p), np.array(q), np.array(Y), int(n_points), float(tolerance_sq), float(prev), np.array(d))
                out = orig(p, q, Y, n_points, tolerance_sq, prev, d)
                rec.log("jolt.step", (inp, (out[0].value, int(out[1]), float(out[2]), np.array(Y), np.array(d))))
                return out
            return f

        def w_refine(orig):
            def f(v, v1, v2, n):
                inp = (np.array(v), int(n))
                out = orig(v, v1, v2, n)
                d = None if out[1] is None else np.array(out[1], dtype=float)
                rec.log("libccd.refine", (inp, (out[0].value, d, int(out[2]), np.array(v))))
                return out
            return f

        def w_support(tag):
            def mk(orig):
                def f(c1, c2, d):
                    out = orig(c1, c2, d)
                    rec.log(tag, (np.array(d, dtype=float), np.array(out[0], dtype=float)))
                    return out
                return f
            return mk

        def w_iterate(orig):
            def f(v, v1, v2, d, size):
                inp = (np.array(v), np.array(d), int(size))
                out = orig(v, v1, v2, d, size)
                rec.log("mpr.iterate", (inp, (np.array(out[0]), int(out[1]), np.array(v))))
                return out
            return f

        def w_searchdir(orig):
            def f(v, v1, v2):
                inp = (np.array(v),)
                out = orig(v, v1, v2)
                rec.log("mpr.searchdir", (inp, (np.array(out), np.array(v))))
                return out
            return f

        def w_expand(orig):
            def f(v, v1, v2, v4, v14, v24):
                inp = (np.array(v), np.array(v4))
                out = orig(v, v1, v2, v4, v14, v24)
                rec.log("mpr.expand", (inp, (np.array(v),)))
                return out
            return f

        def w_pdir(orig):
            def f(v):
                out = orig(v)
                rec.log("mpr.portaldir", ((np.array(v),), (np.array(out),)))
                return out
            return f

        def w_encaps(orig):
            def f(v, d):
                out = orig(v, d)
                rec.log("mpr.encaps", ((np.array(v), np.array(d)), (bool(out),)))
                return out
            return f

        def w_reach(orig):
            def f(v, v4, d, tol):
                out = orig(v, v4, d, tol)
                rec.log("mpr.reach", ((np.array(v), np.array(v4), np.array(d), float(tol)), (bool(out),)))
                return out
            return f

        def w_discover(orig):
            def f(c1, c2, max_it):
                out = orig(c1, c2, max_it)
                rec.log("mpr.discover", ((np.array(c1.center(), dtype=float), np.array(c2.center(), dtype=float), int(max_it)),
                                         (out[0].value, np.array(out[1].v))))
                return out
            return f

        self._patch(J, "_intersection_loop", w_jolt)
        self._patch(Lc, "_refine_simplex", w_refine)
        self._patch(Lc, "support_function", w_support("libccd.support"))
        self._patch(M, "support_function", w_support("mpr.support"))
        self._patch(M, "_iterate_discover_portal", w_iterate)
        self._patch(M, "_search_direction_perpendicular_to_plane_containing_v012", w_searchdir)
        self._patch(M, "_expand_portal", w_expand)
        self._patch(M, "_portal_direction", w_pdir)
        self._patch(M, "_encapsulates_origin", w_encaps)
        self._patch(M, "_portal_reach_tolerance", w_reach)
        self._patch(M, "_discover_portal", w_discover)
        return self

    def __exit__(self, *a):
        for mod, name, orig in reversed(self._undo):
            setattr(mod, name, orig)
        self._undo = []


def record_scene(sc, tests=("jolt", "libccd", "mpr")):
    """run the real tests on the scene with the recorders installed → {test: (result, records)}"""
    out = {}
    for t in tests:
        with Recorder() as r:
            res = run_test(t, sc)
        out[t] = (res, r.rec)
    return out


# ------------------------------------------------------------------------------------------------ encoding
def ev(v):
    return [f2h(x) for x in np.asarray(v, dtype=float).ravel()]


def dv(tokens):
    return np.array([h2f(t) for t in tokens])


def enc_trace(tr):
    t = [str(len(tr))]
    for d, w in tr:
        t += ev(d) + ev(w)
    return t


def close(a, b, atol, rtol=1e-9):
    a = np.asarray(a, dtype=float)
    b = np.asarray(b, dtype=float)
    if a.shape != b.shape:
        return False
    return bool(np.all(np.abs(a - b) <= atol + rtol * np.maximum(np.abs(a), np.abs(b))))


def unit_cross_amp(a, b):
    """conditioning of norm_vector(cross(a, b))"""
    c = np.linalg.norm(np.cross(a, b))
    if c == 0:
        return 1e30
    return float(np.linalg.norm(a) * np.linalg.norm(b) / c)


# ------------------------------------------------------------------------------------------------ step comparisons
def _zero_rows(M, n):
    M = np.array(M, dtype=float)
    M[n:] = 0.0
    return M


def _scale(*arrs):
    m = 1.0
    for a in arrs:
        a = np.asarray(a, dtype=float)
        if a.size:
            f = np.abs(a[np.isfinite(a)])
            if f.size:
                m = max(m, float(f.max()))
    return m


class StepCase:
    """one call of a loop-body function: how to send it to the Lean driver, how to call the implementation again
    (for tie detection by perturbation) and how to compare"""

    def __init__(self, fn, tokens, py_out, compare, origin, redo=None):
        self.fn = fn
        self.tokens = tokens
        self.py_out = py_out
        self.compare = compare      # (lean_output_string) -> (ok, message, branch)
        self.origin = origin        # JSON-able description for the replay
        self.redo = redo            # (eps) -> decision tuple of the implementation on perturbed inputs


def case_jolt_step(inp, out, origin):
    p, q, Y, n, tolsq, prev, d = inp
    state, n_out, prev_out, Y_out, d_out = out
    Yz = _zero_rows(Y, n)
    tokens = ev(p) + ev(q) + ev(Yz) + [str(n), f2h(tolsq), f2h(prev)] + ev(d)
    S = _scale(p, q, Yz)

    def compare(s):
        parts = s.split()
        if parts[0] == "err":
            st = state
            if parts[1] == "divZero" and not isinstance(st, str):
                st = call_jolt_step((p, q, Yz, n, tolsq, prev, d))[0]
            return (st == "exc:" + parts[1]), "model %s, implementation %s" % (s, state), "err:" + parts[1]
        br = int(parts[1])
        m_state, m_n = int(parts[2]), int(parts[3])
        m_prev = h2f(parts[4])
        m_d = dv(parts[5:8])
        m_Y = dv(parts[8:20]).reshape(4, 3)
        if isinstance(state, str):
            return False, "implementation raised %s, model ok branch %d" % (state, br), br
        if (m_state, m_n) != (state, n_out):
            return False, "decision differs: model (state %d, n %d, br %d) vs implementation (state %d, n %d)" % (
                m_state, m_n, br, state, n_out), br
        if not close(m_prev, prev_out, 1e-9 * S * S * (0.0 if prev_out > 1e300 else 1.0), 1e-9):
            return False, "prev_v_len_sq differs: %r vs %r" % (m_prev, prev_out), br
        if not close(m_Y[:n_out], Y_out[:n_out], 1e-9 * S):
            return False, "Y differs", br
        if state == 2 and not close(m_d, d_out, 1e-9 * S):
            return False, "search direction differs: %r vs %r" % (m_d, d_out), br
        return True, "", br

    def redo(eps, rng):
        from distance3d.gjk import _gjk_jolt as J
        pp = p * (1 + eps * np.array([rng.uniform(-1, 1) for _ in range(3)]))
        Yc = np.array(Yz) * (1 + eps * np.array([[rng.uniform(-1, 1) for _ in range(3)] for _ in range(4)]))
        dc = np.array(d)
        try:
            with np.errstate(all="ignore"):
                o = J._intersection_loop(pp, np.array(q), Yc, n, tolsq, prev, dc)
            return (o[0].value, int(o[1]))
        except AssertionError:
            return ("exc:assertFail",)
    return StepCase("C02.jolt.step", tokens, out, compare, origin, redo)


def call_jolt_step(inp):
    """call the real _intersection_loop on synthetic inputs"""
    from distance3d.gjk import _gjk_jolt as J
    p, q, Y, n, tolsq, prev, d = inp
    Yc, dc = np.array(Y), np.array(d)
    try:
        with np.errstate(divide="raise", invalid="raise", over="ignore", under="ignore"):
            o = J._intersection_loop(np.array(p), np.array(q), Yc, n, tolsq, prev, dc)
        return (o[0].value, int(o[1]), float(o[2]), Yc, dc)
    except FloatingPointError:
        return ("exc:divZero", n, prev, Yc, dc)
    except AssertionError:
        return ("exc:assertFail", n, prev, Yc, dc)
    except ZeroDivisionError:
        return ("exc:divZero", n, prev, Yc, dc)
    except IndexError:
        return ("exc:indexOOB", n, prev, Yc, dc)


def case_libccd_refine(inp, out, origin):
    v, n = inp
    state, d_out, n_out, v_out = out
    vz = _zero_rows(v, n)
    tokens = ev(vz) + [str(n)]
    S = _scale(vz)

    def compare(s):
        parts = s.split()
        if parts[0] == "err":
            st = state
            if parts[1] == "divZero" and not isinstance(st, str):
                st = call_libccd_refine((vz, n))[0]     # numpy yields nan silently; numba raises: same input class
            return (st == "exc:" + parts[1]), "model %s, implementation %s" % (s, state), "err:" + parts[1]
        br = int(parts[1])
        m_state, m_n = int(parts[2]), int(parts[3])
        m_d = dv(parts[4:7])
        m_v = dv(parts[7:19]).reshape(4, 3)
        if isinstance(state, str):
            return False, "implementation raised %s, model ok branch %d" % (state, br), br
        if (m_state, m_n) != (state, n_out):
            return False, "decision differs: model (state %d, n %d, br %d) vs implementation (state %d, n %d)" % (
                m_state, m_n, br, state, n_out), br
        if state == 0:
            if not close(m_d, d_out, 1e-9 * S ** 3):
                return False, "search direction differs: %r vs %r" % (m_d, d_out), br
            if not close(m_v[:n_out], v_out[:n_out], 1e-12 * S):
                return False, "simplex differs", br
        return True, "", br

    def redo(eps, rng):
        vp = np.array(vz) * (1 + eps * np.array([[rng.uniform(-1, 1) for _ in range(3)] for _ in range(4)]))
        o = call_libccd_refine((vp, n))
        rows = tuple(int(np.argmin(np.abs(vp[:n] - o[3][i]).sum(axis=1))) for i in range(min(o[2], 4))) if not isinstance(o[0], str) else ()
        return (o[0], o[2], rows)
    return StepCase("C02.libccd.refine", tokens, out, compare, origin, redo)


def call_libccd_refine(inp):
    from distance3d.gjk import _gjk_libccd as Lc
    v, n = inp
    vc = np.array(v, dtype=float)
    z = np.zeros((4, 3))
    try:
        with np.errstate(divide="raise", invalid="raise", over="ignore", under="ignore"):
            o = Lc._refine_simplex(vc, z.copy(), z.copy(), n)
        d = None if o[1] is None else np.array(o[1], dtype=float)
        return (o[0].value, d, int(o[2]), vc)
    except (ZeroDivisionError, FloatingPointError):
        return ("exc:divZero", None, n, vc)


def case_mpr_iterate(inp, out, origin):
    v, d, size = inp
    d_out, size_out, v_out = out
    tokens = ev(v) + ev(d) + [str(size)]
    S = _scale(v)

    def compare(s):
        parts = s.split()
        br = int(parts[1])
        m_size = int(parts[2])
        m_d = dv(parts[3:6])
        m_v = dv(parts[6:18]).reshape(4, 3)
        if m_size != size_out or not np.array_equal(m_v, v_out):
            return False, "decision differs: model (size %d, br %d) vs implementation size %d / portal rows" % (
                m_size, br, size_out), br
        amp = unit_cross_amp(v_out[1] - v_out[0], v_out[2] - v_out[0]) if br != 2 else 1.0
        if not close(m_d, d_out, 1e-9 + 1e-13 * amp):
            return False, "direction differs: %r vs %r (amp %.1e)" % (m_d, d_out, amp), br
        return True, "", br

    def redo(eps, rng):
        from distance3d import mpr as M
        vp = np.array(v) * (1 + eps * np.array([[rng.uniform(-1, 1) for _ in range(3)] for _ in range(4)]))
        z = np.zeros((4, 3))
        with np.errstate(all="ignore"):
            o = M._iterate_discover_portal(vp, z.copy(), z.copy(), np.array(d), size)
        which = 0 if np.array_equal(vp[2], vp[3]) else (1 if np.array_equal(vp[1], vp[3]) else 2)
        return (int(o[1]), which)
    return StepCase("C02.mpr.iterate", tokens, out, compare, origin, redo)


def call_mpr_iterate(inp):
    from distance3d import mpr as M
    v, d, size = inp
    vc = np.array(v, dtype=float)
    z = np.zeros((4, 3))
    with np.errstate(all="ignore"):
        o = M._iterate_discover_portal(vc, z.copy(), z.copy(), np.array(d, dtype=float), size)
    return (np.array(o[0]), int(o[1]), vc)


def case_mpr_searchdir(inp, out, origin):
    (v,) = inp
    d_out, v_out = out
    vz = _zero_rows(v, 3)
    tokens = ev(vz)

    def compare(s):
        parts = s.split()
        br = int(parts[1])
        m_d = dv(parts[2:5])
        m_v = dv(parts[5:17]).reshape(4, 3)
        if not np.array_equal(m_v[:3], v_out[:3]):
            return False, "portal rows differ after the (view) swap: model branch %d" % br, br
        amp = unit_cross_amp(vz[1] - vz[0], vz[2] - vz[0])
        if not close(m_d, d_out, 1e-9 + 1e-13 * amp):
            return False, "direction differs: %r vs %r" % (m_d, d_out), br
        return True, "", br

    def redo(eps, rng):
        vp = np.array(vz) * (1 + eps * np.array([[rng.uniform(-1, 1) for _ in range(3)] for _ in range(4)]))
        o = call_mpr_searchdir((vp,))
        return (bool(np.array_equal(o[1][1], o[1][2])),)
    return StepCase("C02.mpr.searchdir", tokens, out, compare, origin, redo)


def call_mpr_searchdir(inp):
    from distance3d import mpr as M
    (v,) = inp
    vc = np.array(v, dtype=float)
    z = np.zeros((4, 3))
    with np.errstate(all="ignore"):
        o = M._search_direction_perpendicular_to_plane_containing_v012(vc, z.copy(), z.copy())
    return (np.array(o), vc)


def case_mpr_expand(inp, out, origin):
    v, v4 = inp
    (v_out,) = out
    tokens = ev(v) + ev(v4)

    def compare(s):
        parts = s.split()
        br = int(parts[1])
        m_v = dv(parts[2:14]).reshape(4, 3)
        if not np.array_equal(m_v, v_out):
            return False, "a different portal vertex was replaced (model branch %d)" % br, br
        return True, "", br

    def redo(eps, rng):
        vp = np.array(v) * (1 + eps * np.array([[rng.uniform(-1, 1) for _ in range(3)] for _ in range(4)]))
        o = call_mpr_expand((vp, v4))
        return tuple(int(np.array_equal(o[0][i], v4)) for i in range(4))
    return StepCase("C02.mpr.expand", tokens, out, compare, origin, redo)


def call_mpr_expand(inp):
    from distance3d import mpr as M
    v, v4 = inp
    vc = np.array(v, dtype=float)
    z = np.zeros((4, 3))
    v4 = np.array(v4, dtype=float)
    M._expand_portal(vc, z.copy(), z.copy(), v4, v4, v4)
    return (vc,)


def case_mpr_portaldir(inp, out, origin):
    (v,) = inp
    (d_out,) = out
    tokens = ev(v)

    def compare(s):
        parts = s.split()
        m_d = dv(parts[2:5])
        amp = unit_cross_amp(v[2] - v[1], v[3] - v[1])
        if not close(m_d, d_out, 1e-9 + 1e-13 * amp):
            return False, "direction differs: %r vs %r (amp %.1e)" % (m_d, d_out, amp), 0
        return True, "", 0
    return StepCase("C02.mpr.portaldir", tokens, out, compare, origin)


def case_mpr_encaps(inp, out, origin):
    v, d = inp
    (b,) = out
    tokens = ev(v) + ev(d)

    def compare(s):
        m = int(s.split()[1])
        return (m == int(b)), "decision differs: model %d vs implementation %d" % (m, int(b)), m

    def redo(eps, rng):
        from distance3d import mpr as M
        return (bool(M._encapsulates_origin(np.array(v) * (1 + eps * rng.uniform(-1, 1)) + eps * 1e-3 * rng.uniform(-1, 1),
                                            np.array(d))),)
    return StepCase("C02.mpr.encaps", tokens, out, compare, origin, redo)


def case_mpr_reach(inp, out, origin):
    v, v4, d, tol = inp
    (b,) = out
    tokens = ev(v) + ev(v4) + ev(d) + [f2h(tol)]

    def compare(s):
        m = int(s.split()[1])
        return (m == int(b)), "decision differs: model %d vs implementation %d" % (m, int(b)), m

    def redo(eps, rng):
        from distance3d import mpr as M
        return (bool(M._portal_reach_tolerance(np.array(v), np.array(v4) * (1 + eps * rng.uniform(-1, 1)), np.array(d), tol)),)
    return StepCase("C02.mpr.reach", tokens, out, compare, origin, redo)


STEP_BUILDERS = {"jolt.step": case_jolt_step, "libccd.refine": case_libccd_refine, "mpr.iterate": case_mpr_iterate,
                 "mpr.searchdir": case_mpr_searchdir, "mpr.expand": case_mpr_expand, "mpr.portaldir": case_mpr_portaldir,
                 "mpr.encaps": case_mpr_encaps, "mpr.reach": case_mpr_reach}


# ------------------------------------------------------------------------------------------------ run-level cases
def divides_by_zero(test, sc):
    """does the implementation divide by zero on this scene? (numpy yields nan silently, numba raises; the model
    reports `err divZero`)"""
    from distance3d import gjk, mpr
    A, B = make_collider(sc["a"]), make_collider(sc["b"])
    try:
        with np.errstate(divide="raise", invalid="raise", over="ignore", under="ignore"):
            {"jolt": gjk.gjk_intersection, "libccd": gjk.gjk_intersection_libccd, "mpr": mpr.mpr_intersection}[test](A, B)
    except (FloatingPointError, ZeroDivisionError):
        return True
    except Exception:  # noqa
        return False
    return False


def run_redo(sc, test, key):
    """tie detection for end-to-end cases: the implementation's own (answer, iteration count) on the scene with B
    moved by eps*L in a random direction"""
    def redo(eps, rng):
        s2 = dict(sc)
        s2["b"] = translate(sc["b"], eps * sc.get("L", 1.0) * rand_unit(rng)) if eps else sc["b"]
        with Recorder() as r:
            res = run_test(test, s2)
        return (res if isinstance(res, bool) else "exc", len(r.rec.get(key, [])))
    return redo


def run_cases(sc, recs):
    """end-to-end cases for one recorded scene: the model is run with its support queries answered from the
    recorded trace; compared on the boolean, the iteration count and the exit class"""
    cases = []
    origin = {"scene": sc}
    # Jolt
    res, rec = recs.get("jolt", (None, {}))
    steps = rec.get("jolt.step", [])
    if isinstance(res, bool) and steps:
        tr = [(i[6], i[0] - i[1]) for i, _ in steps]
        tokens = [f2h(1e-10), "400"] + enc_trace(tr)

        def cmp_j(s, res=res, n=len(steps)):
            parts = s.split()
            if parts[0] != "ok":
                if s.strip() == "err divZero" and divides_by_zero("jolt", sc):
                    return True, "", "err:divZero"
                return False, "model %s, implementation %s" % (s, res), s
            ok = (int(parts[1]) == int(res)) and int(parts[2]) == n
            return ok, "model (bool %s, its %s, br %s) vs implementation (bool %d, its %d)" % (
                parts[1], parts[2], parts[3], int(res), n), int(parts[3])
        cases.append(StepCase("C02.jolt.run", tokens, res, cmp_j, dict(origin, test="jolt"), run_redo(sc, "jolt", "jolt.step")))
    # libccd
    res, rec = recs.get("libccd", (None, {}))
    sup = rec.get("libccd.support", [])
    if isinstance(res, bool):
        A, B = make_collider(sc["a"]), make_collider(sc["b"])
        f1, f2 = np.array(A.first_vertex(), dtype=float), np.array(B.first_vertex(), dtype=float)
        tokens = ev(f1) + ev(f2) + ["100"] + enc_trace(sup)

        def cmp_l(s, res=res, n=len(sup)):
            parts = s.split()
            if parts[0] != "ok":
                if s.strip() == "err divZero" and divides_by_zero("libccd", sc):
                    return True, "", "err:divZero"
                return False, "model %s, implementation %s" % (s, res), s
            ok = (int(parts[1]) == int(res)) and int(parts[2]) == n
            return ok, "model (bool %s, its %s, br %s) vs implementation (bool %d, its %d)" % (
                parts[1], parts[2], parts[3], int(res), n), int(parts[3])
        cases.append(StepCase("C02.libccd.run", tokens, res, cmp_l, dict(origin, test="libccd"), run_redo(sc, "libccd", "libccd.support")))
    # MPR
    res, rec = recs.get("mpr", (None, {}))
    sup = rec.get("mpr.support", [])
    disc = rec.get("mpr.discover", [])
    if isinstance(res, bool) and disc:
        (c1, c2, max_it), (dstate, _) = disc[0]
        tokens = ev(c1) + ev(c2) + [f2h(1e-4), str(max_it), "2000"] + enc_trace(sup)

        def cmp_m(s, res=res, dstate=dstate):
            parts = s.split()
            if parts[0] != "ok":
                return False, "model %s, implementation %s" % (s, res), s
            dbr, rbr = int(parts[2]), int(parts[3])
            m_state = {0: -1, 3: -1, 4: -1, 1: 1, 2: 2, 5: 0, 6: 0}[dbr]
            ok = (int(parts[1]) == int(res)) and m_state == dstate
            return ok, "model (bool %s, discover br %d, refine br %d) vs implementation (bool %d, portal state %d)" % (
                parts[1], dbr, rbr, int(res), dstate), "%d/%d" % (dbr, rbr)
        cases.append(StepCase("C02.mpr.run", tokens, res, cmp_m, dict(origin, test="mpr"), run_redo(sc, "mpr", "mpr.support")))
    return cases


def scene_step_cases(sc, recs, cap=40):
    cases = []
    for t, (res, rec) in recs.items():
        for name, build in STEP_BUILDERS.items():
            for k, (inp, out) in enumerate(rec.get(name, [])[:cap]):
                cases.append(build(inp, out, {"scene": sc, "test": t, "call": name, "index": k}))
    return cases


def run_cases_through_driver(ctx, cases, tag, stream):
    """send all cases to the Lean driver, compare, arbitrate ties. Returns number of disagreements."""
    if not cases:
        return 0
    drv = core.Driver("c02-" + tag)
    ids = [drv.add(c.fn, "F", c.tokens) for c in cases]
    out = drv.run()
    bad = 0
    rng = ctx.rng
    pending = []
    for c, cid in zip(cases, ids):
        s = out.get(cid, "bad missing")
        if s.startswith("bad"):
            ctx.broke("correspondence", c.fn, "driver: " + s[:200], _origin_json(c))
            bad += 1
            continue
        ok, msg, br = c.compare(s)
        ctx.branch(c.fn, br)
        ctx.count("corr:%s:%s" % (stream, c.fn.split(".", 1)[1]), key=(c.fn, tuple(c.tokens)))
        if ok:
            continue
        # tie arbitration: is the implementation's own decision unstable under a 1e-12 relative perturbation?
        tie = False
        if c.redo is not None:
            base = None
            try:
                base = c.redo(0.0, rng)
                for _ in range(12):
                    if c.redo(1e-12, rng) != base:
                        tie = True
                        break
            except Exception:  # noqa
                tie = False
        if tie:
            ctx.extra["ties"] = ctx.extra.get("ties", 0) + 1
            continue
        pending.append((c, msg, s))
    # second tie test: is the MODEL's own decision (Float) unstable under a 1e-12 relative perturbation of the inputs?
    # (exactly degenerate inputs such as coplanar simplices, where the sign of a rounding residue decides)
    if pending:
        drv2 = core.Driver("c02-" + tag + "-tie")
        pids = []
        for c, msg, s in pending:
            ids2 = []
            for _ in range(8):
                toks = [f2h(h2f(t) * (1 + 1e-12 * rng.uniform(-1, 1))) if (len(t) == 16 and _is_hex(t)) else t for t in c.tokens]
                ids2.append(drv2.add(c.fn, "F", toks))
            pids.append(ids2)
        out2 = drv2.run()
        for (c, msg, s), ids2 in zip(pending, pids):
            k = DECISION_TOKENS.get(c.fn, 1)
            base = tuple(s.split()[:1 + k])
            if any(tuple(out2.get(i, "").split()[:1 + k]) != base for i in ids2):
                ctx.extra["ties"] = ctx.extra.get("ties", 0) + 1
                ctx.extra["ties_model_side"] = ctx.extra.get("ties_model_side", 0) + 1
                continue
            bad += 1
            ctx.broke("correspondence", c.fn, msg, _origin_json(c))
    return bad


DECISION_TOKENS = {"C02.jolt.step": 3, "C02.libccd.refine": 3, "C02.mpr.iterate": 2, "C02.mpr.searchdir": 1,
                   "C02.mpr.expand": 1, "C02.mpr.encaps": 1, "C02.mpr.reach": 1, "C02.mpr.portaldir": 1,
                   "C02.jolt.run": 3, "C02.libccd.run": 3, "C02.mpr.run": 3}


def _is_hex(t):
    try:
        int(t, 16)
        return True
    except ValueError:
        return False


def _origin_json(c):
    o = dict(c.origin)
    o["fn"] = c.fn
    o["tokens"] = c.tokens if len(c.tokens) < 200 else c.tokens[:200]
    return core.jsonable(o)


# ------------------------------------------------------------------------------------------------ synthetic step inputs
MAXF = float(np.finfo(float).max)
EPS = float(np.finfo(float).eps)


def _pt(rng, stream):
    if stream == "L":
        return np.array([rng.choice([-2.0, -1.0, -0.5, 0.0, 0.0, 0.5, 1.0, 2.0]) for _ in range(3)])
    s = 10 ** rng.uniform(-2, 2) if rng.random() < 0.3 else 1.0
    return np.array([rng.uniform(-1, 1) * s for _ in range(3)])


def synth_jolt(rng, stream):
    """synthetic `_intersection_loop` inputs steered (with the real solver, steering only) to every exit"""
    from distance3d.gjk import _gjk_jolt as J
    n = rng.choice([0, 1, 1, 2, 2, 3, 3])
    Y = np.zeros((4, 3))
    for i in range(n):
        Y[i] = _pt(rng, stream)
    target = rng.choice(["free", "sep", "fail", "tol", "rel", "stall", "inside", "cont"])
    q = _pt(rng, stream) if rng.random() < 0.5 else np.zeros(3)
    w = _pt(rng, stream)
    if target == "inside" and n == 3:
        # fourth point opposite to the centroid: origin inside the tetrahedron
        w = -(Y[0] + Y[1] + Y[2]) * rng.choice([0.5, 1.0, 2.0])
    if target == "rel" and n >= 1:
        # segment/triangle passing within ~1e-9 of the origin
        w = -Y[0] * rng.choice([0.5, 1.0, 3.0]) + 1e-9 * _pt(rng, "G")
    d = rand_unit(rng) if stream == "G" else _pt(rng, "L")
    if target != "sep" and d.dot(w) < 0:
        d = -d
    p = w + q
    w = p - q
    prev, tolsq = MAXF, 1e-20
    Yt = Y.copy()
    Yt[n] = w
    try:
        with np.errstate(all="ignore"):
            ok, v, vls, simplex = J.get_closest_point_to_origin(Yt, n + 1, MAXF)
    except Exception:  # noqa
        ok = False
    if ok and np.isfinite(vls):
        if target == "fail":
            prev = rng.choice([vls, vls * 0.5, np.nextafter(vls, 0.0)])
        elif target == "tol":
            tolsq = rng.choice([vls, vls * 2, np.nextafter(vls, np.inf)])
            prev = rng.choice([MAXF, 2 * vls + 1.0])
        elif target == "stall":
            prev = rng.choice([np.nextafter(vls, np.inf), vls * (1 + EPS), vls * (1 + 0.5 * EPS), vls * (1 + 3 * EPS),
                               vls / (1 - EPS), vls / (1 - 2 * EPS)])
        elif target == "cont":
            prev = rng.choice([MAXF, 2 * vls + 1e-3, vls * (1 + 1e-6) + 1e-300])
    return (p, q, Y, n, float(tolsq), float(prev), d)


def synth_simplex(rng, stream, n):
    v = np.zeros((4, 3))
    mode = rng.random()
    for i in range(n):
        v[i] = _pt(rng, stream)
    if mode < 0.15 and n >= 2:
        v[n - 1] = v[rng.randrange(n - 1)]                 # duplicate vertex
    elif mode < 0.3 and n >= 3:
        t = rng.choice([0.0, 0.25, 0.5, 1.0, 2.0])
        v[n - 1] = v[0] + t * (v[1] - v[0])                  # collinear
    elif mode < 0.4 and n == 4:
        a, b = rng.choice([0.0, 0.25, 0.5]), rng.choice([0.0, 0.25, 0.5])
        v[3] = v[0] + a * (v[1] - v[0]) + b * (v[2] - v[0])  # coplanar
    elif mode < 0.55:
        c = v[:n].mean(axis=0)
        v[:n] -= c * rng.choice([1.0, 1.0, 0.5])           # origin at / near the centroid
    elif mode < 0.62 and n >= 2:
        t = rng.choice([0.25, 0.5, 0.75])
        v[:n] -= (1 - t) * v[0] + t * v[1]                   # origin on the edge v0 v1
    return v


def synth_cases(rng, stream, k):
    """k synthetic calls per loop-body function: the implementation is called directly on the same inputs"""
    cases = []
    for i in range(k):
        inp = synth_jolt(rng, stream)
        cases.append(case_jolt_step(inp, call_jolt_step(inp), {"synthetic": "jolt.step", "inp": core.jsonable(inp)}))
        n = rng.choice([2, 3, 3, 4, 4, 4])
        inp = (synth_simplex(rng, stream, n), n)
        cases.append(case_libccd_refine(inp, call_libccd_refine(inp), {"synthetic": "libccd.refine", "inp": core.jsonable(inp)}))
        v = synth_simplex(rng, stream, 4)
        d = _pt(rng, stream)
        inp = (v, d, 3)
        cases.append(case_mpr_iterate(inp, call_mpr_iterate(inp), {"synthetic": "mpr.iterate", "inp": core.jsonable(inp)}))
        inp = (synth_simplex(rng, stream, 3),)
        cases.append(case_mpr_searchdir(inp, call_mpr_searchdir(inp), {"synthetic": "mpr.searchdir", "inp": core.jsonable(inp)}))
        inp = (synth_simplex(rng, stream, 4), _pt(rng, stream))
        cases.append(case_mpr_expand(inp, call_mpr_expand(inp), {"synthetic": "mpr.expand", "inp": core.jsonable(inp)}))
        from distance3d import mpr as M
        vv, dd = _pt(rng, stream), _pt(rng, stream)
        if rng.random() < 0.4:
            # around the threshold -10 EPSILON
            dd = np.array([1.0, 0.0, 0.0])
            vv = np.array([rng.choice([-10 * EPS, -9 * EPS, -11 * EPS, 0.0, -EPS, np.nextafter(-10 * EPS, 0), np.nextafter(-10 * EPS, -1)]),
                           rng.uniform(-1, 1), 0.0])
        cases.append(case_mpr_encaps((vv, dd), (bool(M._encapsulates_origin(vv, dd)),), {"synthetic": "mpr.encaps", "inp": core.jsonable((vv, dd))}))
        v = synth_simplex(rng, stream, 4)
        v4, dd = _pt(rng, stream), _pt(rng, stream)
        tol = 1e-4
        if rng.random() < 0.4:
            dd = np.array([0.0, 0.0, 1.0])
            v4 = np.array([0.3, 0.2, float(v[1:, 2].max()) + rng.choice([1e-4, 1e-4 + EPS, 1e-4 + 2 * EPS, 9e-5, 2e-4, 0.0])])
        cases.append(case_mpr_reach((v, v4, dd, tol), (bool(M._portal_reach_tolerance(v, v4, dd, tol)),),
                                    {"synthetic": "mpr.reach", "inp": core.jsonable((v, v4, dd, tol))}))
        with np.errstate(all="ignore"):
            pd = M._portal_direction(v)
        if np.all(np.isfinite(pd)) and np.linalg.norm(np.cross(v[2] - v[1], v[3] - v[1])) > 0:
            cases.append(case_mpr_portaldir((v,), (np.array(pd),), {"synthetic": "mpr.portaldir", "inp": core.jsonable((v,))}))
    return cases


# ------------------------------------------------------------------------------------------------ band scenes (no truth)
BAND_FACTORS = [0.0, 1e-9, -1e-9, 1e-6, -1e-6, 1e-3, -1e-3, 0.05, -0.05, 0.5, -0.5, -0.9]


def gen_band_scene(rng, stream):
    """grazing placements (|gap| < delta): used for correspondence only, no ground truth is asserted"""
    types = (rng.choice(ALL_TYPES), rng.choice(ALL_TYPES))
    if stream == "L" and rng.random() < 0.4:
        types = (rng.choice(["sphere", "box", "capsule", "cylinder"]),) * 2
    a = gen_collider(rng, stream, types[0])
    b = gen_collider(rng, stream, types[1])
    if stream == "L" and rng.random() < 0.3 and types[0] == types[1]:
        b = translate(json.loads(json.dumps(a)), [0, 0, 0])      # identical shape, about to be shifted
    if stream == "L":
        n = np.zeros(3)
        n[rng.randrange(3)] = rng.choice([-1.0, 1.0])
    else:
        n = rand_unit(rng)
    f = rng.choice(BAND_FACTORS)
    g = f * DELTA_K * scene_L(a, b)
    if rng.random() < 0.6:
        shift = support_point(a, n) + g * n - support_point(b, -n)
    else:
        shift = (support_value(a, n) + support_value(b, -n) + g) * n
    b2 = translate(b, shift)
    return {"a": a, "b": b2, "kind": "band", "n": n.tolist(), "f": f, "stream": stream, "placement": "band",
            "L": scene_L(a, b2)}


# ------------------------------------------------------------------------------------------------ findings
# repaired in /repo by 78b7577 ("fix: Nesterov GJK subtracted sphere/capsule radii although the generic support functions
# already include them"); formerly known finding F-nesterov-inflation-generic-support.  The witness stays as a regression input.
REGRESSION_SCENES = [
    ("nesterov", {"a": {"type": "sphere", "c": [1.0, -1.0, 0.0], "r": 1.0}, "b": {"type": "cone", "R": [[1.0, 0.0, 0.0], [0.0, 1.0, 0.0], [0.0, 0.0, 1.0]], "t": [1.0, -1.0, -3.5], "r": 1.0, "h": 2.0}, "kind": "sep", "n": [0.0, 0.0, -1.0], "f": 250.0, "stream": "L", "placement": "aligned", "L": 2.5, "delta": 0.0025, "cert": 0.5}),
]


def classify(test, sc, res):
    """finding id for a failing (test, scene) or None.  Narrow: the function, the scene kind and the numerical MECHANISM
    (checked by re-running the implementation with a probe) must all match."""
    if test == "mpr":
        return classify_mpr(sc, res)
    if test in ("nesterov", "nesterov_prim") and sc["kind"] == "sep" and res is True:
        if nesterov_tetra_defect(test, sc):
            return F_NESTEROV_TETRA
    return None


F_MPR_SIDE = "F-mpr-origin-on-portal-side-plane"


def mpr_true_exit_portal(sc):
    """re-run mpr_intersection with the recorders: the portal from which `_refine_portal` answered True (or None)"""
    recs = record_scene(sc, tests=("mpr",))
    res, rec = recs["mpr"]
    enc = rec.get("mpr.encaps", [])
    pd = rec.get("mpr.portaldir", [])
    if res is True and pd and enc and enc[-1][1][0] is True:
        return pd[-1][0][0], pd[-1][1][0]
    return None


def classify_mpr(sc, res):
    """F-mpr-origin-on-portal-side-plane: `_refine_portal` answered True from a portal one of whose side faces
    (v0, vi, vj) is exactly coplanar with the origin (triple product 0: a tie of the `< EPSILON` / `> 0` side tests of
    `_iterate_discover_portal` / `_expand_portal`), which includes the completely flat portal (v0..v3 and the origin
    coplanar, `v1 . dir = 0 > -10 EPSILON` vacuously).  Only exactly symmetric (lattice) placements produce it."""
    if not (sc["kind"] == "sep" and res is True):
        return None
    pe = mpr_true_exit_portal(sc)
    if pe is None:
        return None
    v, d = pe
    S = _scale(v)
    dets = [abs(float(np.dot(np.cross(v[0], v[i]), v[j]))) for i, j in ((1, 2), (2, 3), (3, 1))]
    if min(dets) <= 1e-12 * S ** 3:
        return F_MPR_SIDE
    return None


F_NESTEROV_TETRA = "F-nesterov-project-tetra-outside-simplex"


def min_norm_hull(P):
    """minimum-norm point of the hull of <= 4 points by enumeration of faces (independent of the library)"""
    P = np.asarray(P, dtype=float)
    best = None
    for r in range(1, len(P) + 1):
        for idx in itertools.combinations(range(len(P)), r):
            Q = P[list(idx)]
            if r == 1:
                x = Q[0]
            else:
                M = (Q[1:] - Q[0]).T
                t = np.linalg.lstsq(M, -Q[0], rcond=None)[0]
                lam = np.concatenate(([1.0 - t.sum()], t))
                if np.any(lam < -1e-12):
                    continue
                x = lam @ Q
            if best is None or np.linalg.norm(x) < np.linalg.norm(best):
                best = x
    return best


def nesterov_tetra_defect(test, sc):
    """mechanism check for F-nesterov-project-tetra-outside-simplex: during the run some call of
    `project_tetra_to_origin` returns a `ray` that is SHORTER than the minimum-norm point of the tetrahedron it was given
    (i.e. a point outside the simplex: the region logic extrapolates along an edge)"""
    from distance3d.gjk import _gjk_nesterov_accelerated as N1, _gjk_nesterov_accelerated_primitives as N2
    mod = N1 if test == "nesterov" else N2
    orig = mod.project_tetra_to_origin
    flagged = []

    def f(simplex):
        inp = np.array(simplex[:4])
        out = orig(simplex)
        if not out[2]:
            tc = min_norm_hull(inp)
            if np.linalg.norm(out[0]) < np.linalg.norm(tc) - 1e-9 * _scale(inp):
                flagged.append((inp, np.array(out[0])))
        return out
    mod.project_tetra_to_origin = f
    try:
        run_test(test, sc)
    finally:
        mod.project_tetra_to_origin = orig
    return flagged


def still_fails(test, sc):
    ok, cert, delta = recheck_truth(sc)
    if not ok:
        return False
    return run_test(test, sc) != expected(sc)


def minimise(test, sc):
    """greedy simplification of a failing scene keeping (a) the independent certificate and (b) the failure"""
    import copy
    cur = copy.deepcopy(sc)

    def attempt(mut):
        nonlocal cur
        cand = copy.deepcopy(cur)
        try:
            mut(cand)
            cand["L"] = scene_L(cand["a"], cand["b"])
            cand["delta"] = DELTA_K * cand["L"]
            ok, cert, delta = recheck_truth(cand)
            if ok and run_test(test, cand) != expected(cand):
                cand["cert"] = cert
                cur = cand
                return True
        except Exception:  # noqa
            pass
        return False

    def shift_all(c, d):
        c["a"] = translate(c["a"], d)
        c["b"] = translate(c["b"], d)
        if "z" in c:
            c["z"] = (np.array(c["z"]) + d).tolist()

    attempt(lambda c: shift_all(c, -centre(c["a"])))
    for key in ("a", "b"):
        if "R" in cur[key]:
            def ident(c, key=key):
                # rotate the whole scene by R^T of this collider: only possible exactly for pose-type partners; try the
                # cheap variant: replace this collider's rotation by the identity
                c[key]["R"] = np.eye(3).tolist()
            attempt(ident)

    def rnd(c, digits):
        def r(x):
            if isinstance(x, list):
                return [r(y) for y in x]
            if isinstance(x, float):
                return float("%.*g" % (digits, x))
            return x
        for key in ("a", "b"):
            for f in list(c[key].keys()):
                if f in ("R", "axes", "n", "triangles", "type"):
                    continue
                c[key][f] = r(c[key][f])
        if "z" in c:
            c["z"] = r(c["z"])
    for digits in (3, 6, 9, 12):
        if attempt(lambda c, digits=digits: rnd(c, digits)):
            break
    return cur


# ------------------------------------------------------------------------------------------------ oracle run
def check_scene(ctx, sc, tests=TESTS, stream_tag="search"):
    """run the tests on a certified scene and report violations. Returns list of (test, result)."""
    bad = []
    moved = can_move(sc) and (__import__("zlib").crc32(json.dumps([sc["a"], sc["b"]], sort_keys=True).encode()) % 4 == 0)
    for t in tests:
        if not supported(t, sc):
            continue
        res = run_test(t, sc)
        ctx.branch("oracle:" + t, "%s:%s" % (sc["kind"], "ok" if res == expected(sc) else ("exc" if isinstance(res, str) else "WRONG")))
        if res != expected(sc):
            bad.append((t, res))
        elif moved:
            # the same question asked of collider objects that were built elsewhere, queried, and then moved here
            res2 = run_test(t, sc, moved=True)
            ctx.branch("oracle-moved:" + t, "ok" if res2 == res else "DIFFERS")
            if res2 != res:
                ctx.fail(FUNCTION_NAMES[t] + " after update_pose", {"test": t, "scene": core.jsonable(sc), "moved": True},
                         res2 if isinstance(res2, str) else bool(res2), expected(sc),
                         "the same certified scene reached through update_pose() on existing collider objects "
                         "(fresh objects at the same poses answer %r)" % (res,))
    key = json.dumps([sc["a"], sc["b"]], sort_keys=True)
    trivial = (sc["a"]["type"] == "sphere" and sc["b"]["type"] == "sphere" and sc["a"]["r"] == 1.0 and sc["b"]["r"] == 1.0)
    ctx.count("%s:%s:%s" % (stream_tag, sc.get("stream", "?"), sc["kind"]), key=key, nontrivial=not trivial,
              sample={"a": sc["a"]["type"], "b": sc["b"]["type"], "kind": sc["kind"], "placement": sc.get("placement"),
                      "f": sc["f"], "cert": sc["cert"], "delta": sc["delta"]})
    for t, res in bad:
        ok, cert, delta = recheck_truth(sc)
        if not ok:
            ctx.notes.append("scene lost its certificate on re-check (not reported): %s" % sc.get("placement"))
            continue
        fid = classify(t, sc, res)
        rep = sc
        if fid is None:
            k = ctx.extra.setdefault("minimised", {})
            if k.get(t, 0) < 3:             # minimise the first few failing scenes of each test only (time box)
                k[t] = k.get(t, 0) + 1
                rep = minimise(t, sc)
        ctx.fail(FUNCTION_NAMES[t], {"test": t, "scene": core.jsonable(rep)},
                 res if isinstance(res, str) else bool(res), expected(sc),
                 ("separating slab along n with closed-form support values: gap %.6g >= delta %.6g" % (cert, delta))
                 if sc["kind"] == "sep" else
                 ("witness point z with independent inner depth %.6g >= delta %.6g in both colliders" % (cert, delta)),
                 finding=fid)
    return bad


FUNCTION_NAMES = {"jolt": "gjk.gjk_intersection (gjk_intersection_jolt)", "libccd": "gjk.gjk_intersection_libccd",
                  "mpr": "mpr.mpr_intersection", "nesterov": "gjk.gjk_nesterov_accelerated_intersection",
                  "nesterov_prim": "gjk.gjk_nesterov_accelerated_primitives_intersection",
                  "distance": "gjk.gjk (distance query, consistency with the boolean tests)"}


def distance_consistent(sc):
    """the distance query must be positive on certified-separated scenes and (numerically) zero on deep ones"""
    from distance3d import gjk
    A, B = make_collider(sc["a"]), make_collider(sc["b"])
    try:
        d = gjk.gjk(A, B)[0]
    except Exception as e:  # noqa
        return "exc:%s:%s" % (type(e).__name__, str(e)[:100])
    if sc["kind"] == "sep":
        return bool(d > 0.0)
    return bool(d <= 1e-5 * sc["L"])


# ------------------------------------------------------------------------------------------------ entry points
def known_witnesses():
    path = os.path.join(core.VERIF, "known_findings.d", "C02.json")
    if not os.path.exists(path):
        return []
    return json.load(open(path))


def correspondence(ctx):
    t0 = __import__("time").time()
    # (1) synthetic loop-body inputs around every branch, implementation called directly
    k = ctx.budget(250, 6000)
    for stream in ("L", "G"):
        run_cases_through_driver(ctx, synth_cases(ctx.rng, stream, k), "syn" + stream, stream)
    # (2) recorded traces of real runs: certified scenes + grazing (band) scenes
    n = ctx.budget(260, 8000)
    cases = []
    results = {}
    for i in range(n):
        stream = "L" if ctx.rng.random() < 0.5 else "G"
        if ctx.rng.random() < 0.35:
            sc = gen_band_scene(ctx.rng, stream)
        else:
            sc, _ = gen_scene(ctx.rng, stream)
            if sc is None or not in_domain(sc):
                continue
        recs = record_scene(sc)
        cases += scene_step_cases(sc, recs, cap=12) + run_cases(sc, recs)
        for t, (res, _) in recs.items():
            ctx.branch("recorded:" + t, "%s:%s" % (sc["kind"], res if isinstance(res, bool) else "exc"))
        if len(cases) > 6000:
            run_cases_through_driver(ctx, cases, "rec", "R")
            cases = []
    run_cases_through_driver(ctx, cases, "rec", "R")
    # (3) steering: grazing lattice scenes until the rare exits of the real runs have been replayed through the model
    steer_rare_exits(ctx)
    ctx.extra["correspondence_wall_s"] = round(__import__("time").time() - t0, 1)
    # exits never reached by a recorded run (reported, not hidden)
    want = {"C02.jolt.run": [0, 1, 2, 3, 4, 5], "C02.libccd.run": [0, 1, 2, 3, 4, 5],
            "C02.jolt.step": list(range(7)), "C02.mpr.iterate": [0, 1, 2], "C02.mpr.expand": [0, 1, 2, 3],
            "C02.mpr.searchdir": [0, 1], "C02.libccd.refine": [0, 1, 2, 3, 4, 5, 6, 7, 8]}
    unreached = {}
    for fn, ids in want.items():
        miss = [b for b in ids if str(b) not in ctx.branches.get(fn, {})]
        if miss:
            unreached[fn] = miss
    mp = ctx.branches.get("C02.mpr.run", {})
    miss = [d for d in range(7) if not any(k.split("/")[0] == str(d) for k in mp)]
    miss_r = [r for r in range(3) if not any(k.split("/")[1] == str(r) for k in mp)]
    if miss or miss_r:
        unreached["C02.mpr.run"] = {"discover": miss, "refine": miss_r}
    ctx.extra["unreached_branches"] = unreached


def rare_exit_signature(recs):
    """exit classes of a recorded run that the plain streams seldom reach (derived from the implementation's own
    records, not from the model)"""
    sig = []
    res, rec = recs.get("jolt", (None, {}))
    st = rec.get("jolt.step", [])
    if st:
        inp, out = st[-1]
        if out[0] == 0 and out[1] == inp[3] + 1:
            sig.append("jolt:stall" if np.all(np.isfinite(out[4])) else "jolt:noimprove")
    res, rec = recs.get("libccd", (None, {}))
    rf, sp = rec.get("libccd.refine", []), rec.get("libccd.support", [])
    if rf and len(rf) == len(sp):
        if rf[-1][1][0] == -1:
            sig.append("libccd:no_contact")
        elif len(sp) >= 100 and rf[-1][1][0] == 0:
            sig.append("libccd:cap")
        elif rf[-1][1][0] == 0 and res is False:
            sig.append("libccd:zero_dir")
    elif sp and res is True and len(rf) == len(sp) - 1:
        sig.append("libccd:support_is_origin")
    res, rec = recs.get("mpr", (None, {}))
    sp, d = rec.get("mpr.support", []), rec.get("mpr.discover", [])
    if d:
        if d[0][1][0] == -1 and len(sp) == 2:
            sig.append("mpr:outside_v2")
        if d[0][1][0] == 1:
            sig.append("mpr:origin_on_v1")
        if len(rec.get("mpr.iterate", [])) >= 100:
            sig.append("mpr:discover_cap")
    if rec.get("mpr.reach") and rec["mpr.reach"][-1][1][0] is True:
        sig.append("mpr:tolerance")
    return sig


RARE_EXITS = ["jolt:stall", "jolt:noimprove", "libccd:no_contact", "libccd:cap", "libccd:zero_dir",
              "libccd:support_is_origin", "mpr:outside_v2", "mpr:origin_on_v1", "mpr:discover_cap", "mpr:tolerance"]


def steer_rare_exits(ctx):
    import time
    t0 = time.time()
    got = {k: 0 for k in RARE_EXITS}
    cases = []
    tried = 0
    limit = ctx.budget(1500, 40000)
    while tried < limit and time.time() - t0 < ctx.budget(12, 300) and min(got.values()) < 2:
        tried += 1
        sc = gen_band_scene(ctx.rng, "L" if ctx.rng.random() < 0.8 else "G")
        recs = record_scene(sc)
        sig = rare_exit_signature(recs)
        fresh = [k for k in sig if got[k] < 3]
        if not fresh:
            continue
        for k in fresh:
            got[k] += 1
        cases += scene_step_cases(sc, recs, cap=12) + run_cases(sc, recs)
    run_cases_through_driver(ctx, cases, "steer", "S")
    ctx.extra["steering"] = {"scenes_tried": tried, "rare_exits_replayed": got,
                             "never_seen": [k for k, v in got.items() if v == 0]}


def systematic_scenes(rng):
    """every ordered type pair x {sep, deep} x placement class x both streams, a few factors each"""
    for stream in ("L", "G"):
        for ta in ALL_TYPES:
            for tb in ALL_TYPES:
                for kind, placements in (("sep", ["aligned", "slab"]), ("deep", ["witness", "incentre", "same", "concentric"])):
                    if kind == "deep" and (ta in FLAT_TYPES or tb in FLAT_TYPES):
                        continue
                    for pl in placements:
                        if pl == "same" and ta != tb:
                            continue
                        yield stream, (ta, tb), kind, pl, rng.choice(FACTORS[:4])


def search(ctx):
    import time
    t0 = time.time()
    boost = 3 if ctx.extra.get("search_boost") else 1
    # (0a) regression inputs (witnesses of defects repaired in /repo): must pass
    for t, sc in REGRESSION_SCENES:
        ok, cert, delta = recheck_truth(sc)
        res = run_test(t, sc)
        ctx.count("regression", key=json.dumps(sc, sort_keys=True))
        ctx.branch("oracle:regression", "ok" if res == expected(sc) else "WRONG")
        if ok and res != expected(sc):
            ctx.fail(FUNCTION_NAMES[t], {"test": t, "scene": sc}, res, expected(sc),
                     "regression input of a repaired defect (certificate %.6g >= delta %.6g)" % (cert, delta))
    # (0) known-finding witnesses are replayed first
    for k in known_witnesses():
        for w in [k.get("witness", {})] + list(k.get("more_witnesses", [])):
            if "scene" not in w:
                continue
            sc = w["scene"]
            ok, cert, delta = recheck_truth(sc)
            res = run_test(w["test"], sc)
            ctx.count("known-witness", key=json.dumps(sc, sort_keys=True))
            # the finding id is attached only if the mechanism check of `classify` recognises the failure
            if ok and res != expected(sc) and classify(w["test"], sc, res) == k["id"]:
                ctx.fail(FUNCTION_NAMES[w["test"]], {"test": w["test"], "scene": sc}, res, expected(sc),
                         "known-finding witness replay (certificate %.6g >= delta %.6g)" % (cert, delta), finding=k["id"])
            elif ok and res != expected(sc):
                ctx.fail(FUNCTION_NAMES[w["test"]], {"test": w["test"], "scene": sc}, res, expected(sc),
                         "known-finding witness fails in a way its finding does not describe")
            else:
                ctx.notes.append("known finding %s no longer reproduces on a listed witness" % k["id"])
    # (1) systematic sweep over type pairs / placement classes
    n_sys = 0
    for stream, types, kind, pl, f in systematic_scenes(ctx.rng):
        sc, why = gen_scene(ctx.rng, stream, types=types, kind=kind, f=f, placement=pl)
        if sc is None or not in_domain(sc):
            ctx.branch("search:skipped", why or "domain")
            continue
        check_scene(ctx, sc, stream_tag="sys")
        n_sys += 1
    # (2) random scenes
    n = ctx.budget(13000, 150000) * boost
    wide = 0
    for i in range(n):
        stream = "L" if ctx.rng.random() < 0.4 else "G"
        sc, why = gen_scene(ctx.rng, stream)
        if sc is None or not in_domain(sc):
            ctx.branch("search:skipped", why or "domain")
            continue
        check_scene(ctx, sc)
        if i % 10 == 0:
            r = distance_consistent(sc)
            ctx.branch("oracle:distance", "%s:%s" % (sc["kind"], "ok" if r is True else "WRONG"))
            if r is not True:
                ok, cert, delta = recheck_truth(sc)
                if ok:
                    ctx.fail(FUNCTION_NAMES["distance"], {"test": "distance", "scene": core.jsonable(sc)}, r, True,
                             "distance query vs independent certificate (cert %.6g, delta %.6g)" % (cert, delta))
        if time.time() - t0 > ctx.budget(60, 800):
            ctx.notes.append("search stopped by its time box after %d random scenes" % i)
            break
    ctx.extra["search_wall_s"] = round(time.time() - t0, 1)
    ctx.extra["systematic_scenes"] = n_sys


def replay(ctx, payload):
    args = payload.get("args") or {}
    if "scene" not in args:
        for b in payload.get("broken", []):
            si = b.get("seed_input") or {}
            if "scene" in si:
                sc = si["scene"]
                print("correspondence replay: scene of kind %s (%s vs %s); re-recording" % (sc["kind"], sc["a"]["type"], sc["b"]["type"]))
                recs = record_scene(sc)
                cases = scene_step_cases(sc, recs) + (run_cases(sc, recs) if sc["kind"] != "band" or True else [])
                c2 = core.Ctx(ctx.prop, ctx.tier, ctx.seed)
                nb = run_cases_through_driver(c2, cases, "replay", "R")
                for bb in c2.broken[:5]:
                    print("DISAGREE", bb["name"], bb["message"][:300])
                return nb == 0
            if "synthetic" in si:
                print("synthetic loop-body input of %s: %s" % (si["synthetic"], json.dumps(si.get("inp"))[:600]))
                print("model vs implementation:", b.get("message"))
                return False
        print("replay file names no input:", str(payload.get("broken"))[:500])
        return False
    sc, t = args["scene"], args["test"]
    ok, cert, delta = recheck_truth(sc)
    print("scene: %s vs %s, kind=%s placement=%s; independent certificate %.9g (delta %.9g) -> %s" % (
        sc["a"]["type"], sc["b"]["type"], sc["kind"], sc.get("placement"), cert, delta, "certified" if ok else "NOT certified"))
    if t == "distance":
        res = distance_consistent(sc)
        print("distance query consistent:", res)
        return res is True
    res = run_test(t, sc)
    print("%s returned %r, expected %r" % (FUNCTION_NAMES[t], res, expected(sc)))
    return ok and res == expected(sc)
