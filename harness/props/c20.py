"""C20 — compiled (numba) vs interpreted execution: two-engine differential over a call list covering
the jitted public functions, plus the Lean obligations under which numba's documented deviations from
Python (no bounds checks, typed signatures, frozen globals) are unobservable (D3/Properties/C20.lean)."""
import inspect
import math

import numpy as np

import core
import scenes

MANIFEST = dict(
    text=("numba's deviations from Python semantics are: unchecked array indices, typed signatures (dtype/layout), "
          "globals frozen at compile time. Lean theorems (re-exported in D3/Properties/C20.lean) discharge the "
          "obligations under which these are unobservable for the modelled kernels: every array access of the AABB "
          "tree is in range for every insertion history and every query (insert_index_safe, query_index_safe, from C05), "
          "the empty tree is handled (empty_tree_no_read), the half-plane buffer of intersect_halfplanes is never "
          "indexed out of range and its assert never fires, for every list of half-planes "
          "(halfplane_buffer_index_safe, from C15), the write index n_points into the four-row simplex arrays of the "
          "Jolt GJK kernels is < 4 in every reachable loop state, for every input "
          "(jolt_simplex_index_safe_every_input for gjk_intersection_jolt, jolt_distance_simplex_index_safe_every_input "
          "for gjk_distance_jolt, via jolt_gcp_set_lt: the solver's set bits are < 2^n on every input), and for runs whose "
          "visited simplices are outside the C18 bands the whole next call performs no out-of-range access and returns "
          "at most four points (jolt_simplex_index_safe, jolt_simplex_step_index_safe from the C02 loop invariant; "
          "jolt_distance_simplex_index_safe, jolt_distance_step_index_safe from the C01 invariant), "
          "gjk_intersection_libccd never indexes its simplex arrays out of range, no hypothesis "
          "(libccd_step_index_safe, libccd_loop_index_safe, libccd_simplex_index_safe), the only variable row index of "
          "the MPR kernels is 1, 2 or 3 (mpr_closest_row_index_safe), the typed support kernels never see a non-contiguous array "
          "for contiguous poses (typed_signatures_ok, from C14), constants read by the model equal the module constants "
          "(regenerated D3/Gen/Constants). "
          "Everything else is decided by a two-engine differential: the same call list (distance primitives, supports, "
          "AABBs, containment, GJK/EPA/MPR flavours, AABB-tree histories incl. empty trees, half-plane kernels, "
          "hydroelastic contact) is executed in two interpreter processes (JIT on as installed / NUMBA_DISABLE_JIT=1) "
          "and the serialised outputs are compared with the tolerances the property states."),
    note=("the proof part covers index safety of the AABB-tree kernels, of the half-plane buffer and of the GJK (Jolt, "
          "libccd) / MPR simplex arrays only; numba's code "
          "generation itself is trusted "
          "to implement the documented semantics; the differential is sampling (labelled so in the evidence)"),
    technique="Lean 4 proof of semantic-gap obligations (index safety) + two-engine differential correspondence",
    design="§7 C20")
RULE = ("call list drawn from one PRNG: 34 distance functions x lattice/general placements, collider supports/aabbs, "
        "all narrow-phase entry points on collider pairs, containment predicates, AABB-tree histories (incl. empty), "
        "half-plane kernels, utils; each call executed in both engines; non-trivial = call with non-degenerate "
        "arguments that returned (not raised) in the interpreted engine; distinct = distinct (function, arguments)")
EXPLANATION = ("two processes (JIT / interpreted) execute the identical pickled call list; outputs are compared: closed "
               "forms 1e-9 relative, iterative solvers within the accuracy of C01/C07-C09, booleans/index sets/exception "
               "types identical away from decision boundaries")
PARTIAL = {
    "numba_codegen": "numba's code generation is not verified; only the obligations that make its documented "
                     "deviations unobservable are (AABB tree index safety for every history and query, typed "
                     "signatures of the collider support kernels, the empty-tree reads)",
    "other_kernels_index_safety": "proved in D3/Properties/C20.lean: the half-plane buffer (halfplane_buffer_index_safe, "
                                  "after the repair F-C15-halfplane-buffer); the simplex arrays Y / Y,P,Q of the Jolt GJK "
                                  "kernels: n_points < 4 at every store in every reachable loop state, for every input "
                                  "(jolt_simplex_index_safe_every_input, jolt_distance_simplex_index_safe_every_input); that "
                                  "every checked access of the whole next call succeeds and the returned count is <= 4 "
                                  "(jolt_simplex_step_index_safe, jolt_distance_step_index_safe) only for runs whose visited "
                                  "simplices are all outside the C18 bands (VisitedGood JoltGood, the hypothesis of C01/C02; "
                                  "inside the bands the call may raise ZeroDivisionError, which is C18's finding, not an "
                                  "index error); the libccd simplex (libccd_simplex_index_safe: no IndexError for any input, "
                                  "n_points stays in 1..3, unconditional); the one variable row index of mpr.py "
                                  "(mpr_closest_row_index_safe; all other MPR and libccd kernel indices are literals 0..3 "
                                  "into four-row arrays). Not proved: the Nesterov-accelerated GJK (no index-safety "
                                  "theorem) and any kernel without a model — these are covered by the differential only. "
                                  "epa.py and gjk/_gjk_original.py contain no numba-compiled code (both engines interpret "
                                  "them), so their face / loose-edge / vertex-cache arrays carry no C20 obligation; their "
                                  "capacity guards belong to C07/C19",
}
ASSUMPTIONS = ["numba implements its documented semantics (negative-index wraparound, no bounds checks, assert supported)",
               "both engines run the same numpy/BLAS build"]
TRUSTED = ["the differential part is sampling: strength = the call list (distribution in coverage.streams)"]
LEAN_TARGETS = ["D3.Driver.C05"]

DIST_TOL = 1e-9


# ------------------------------------------------------------------ call list
def gen_cases(ctx, n_scale=1.0):
    rng = ctx.rng
    cases = []
    from distance3d import distance
    # 1. distance functions
    per_fn = max(2, int(ctx.budget(6, 60) * n_scale))
    for name in distance.__all__:
        f = getattr(distance, name)
        names = list(inspect.signature(getattr(f, "py_func", f)).parameters)
        for k in range(per_fn):
            lattice = (k % 2 == 0)
            try:
                args = scenes.dist_args(rng, names, lattice)
            except KeyError:
                continue
            cases.append({"kind": "dist", "fn": name, "args": args, "lattice": lattice})
            if k % 3 == 2:
                # the same call with the first point-like argument moved ONTO THE AXIS of the other primitive (centre +
                # h * normal, or the z axis of its pose): reformulations that cancel there (sqrt of a difference of
                # squares, division by an in-plane length) raise in one engine and return NaN in the other
                nm = [n.rstrip("12") for n in names[:len(args)]]
                pi = next((i for i, n in enumerate(nm) if n in ("point", "line_point", "segment_start")), None)
                ax = None
                if "center" in nm and "normal" in nm:
                    ax = (args[nm.index("center")], args[nm.index("normal")])
                else:
                    for key in ("cylinder2origin", "ellipsoid2origin", "box2origin"):
                        if key in nm:
                            A = args[nm.index(key)]
                            ax = (A[:3, 3], A[:3, 2])
                if pi is not None and ax is not None:
                    args2 = [np.array(a, copy=True) if isinstance(a, np.ndarray) else a for a in args]
                    args2[pi] = np.ascontiguousarray(ax[0] + rng.choice([0.5, -1.25, 2.0]) * ax[1])
                    cases.append({"kind": "dist", "fn": name, "args": args2, "lattice": lattice, "on_axis": True})
    # 2. colliders: support / aabb / center / first_vertex
    for k in range(int(ctx.budget(80, 800) * n_scale)):
        lattice = (k % 2 == 0)
        spec = scenes.collider_spec(rng, lattice, margin_prob=0.15)
        d = scenes.unit(rng, lattice) if rng.random() < 0.7 else scenes.vec(rng, True, 1.0) + np.array([0, 0, 1.0])
        case = {"kind": "collider", "spec": spec, "dir": np.ascontiguousarray(d, dtype=float), "lattice": lattice}
        if k % 3 == 0 and spec[0] not in ("ConvexHullVertices",) and not (spec[0] == "Margin" and spec[1][0] == "ConvexHullVertices"):
            # moved collider: update_pose with one matrix out of a C-contiguous pose stack before the queries
            case["move_to"] = scenes.pose(rng, lattice, 2.0)
        cases.append(case)
    # 3. narrow phase on pairs
    pair_fns = ["gjk", "gjk_intersection", "gjk_intersection_libccd", "gjk_distance_original",
                "gjk_nesterov_accelerated_distance", "gjk_nesterov_accelerated_intersection",
                "mpr_intersection", "mpr_penetration", "epa"]
    for k in range(int(ctx.budget(60, 800) * n_scale)):
        lattice = (k % 3 == 0)
        s1 = scenes.collider_spec(rng, lattice, margin_prob=0.05)
        s2 = scenes.collider_spec(rng, lattice, margin_prob=0.05)
        if rng.random() < 0.5:
            s2 = scenes.translate(s2, scenes.vec(rng, lattice, 2.0))
        for fn in pair_fns:
            cases.append({"kind": "pair", "fn": fn, "c1": s1, "c2": s2, "lattice": lattice})
    prim_types = ["Sphere", "Capsule", "Box", "Ellipsoid", "Cylinder"]
    for k in range(int(ctx.budget(20, 300) * n_scale)):
        lattice = (k % 3 == 0)
        s1 = scenes.collider_spec(rng, lattice, types=prim_types)
        s2 = scenes.translate(scenes.collider_spec(rng, lattice, types=prim_types), scenes.vec(rng, lattice, 2.0))
        for fn in ("gjk_nesterov_accelerated_primitives_distance", "gjk_nesterov_accelerated_primitives_intersection"):
            cases.append({"kind": "pair", "fn": fn, "c1": s1, "c2": s2, "lattice": lattice})
    # 4. containment predicates
    for k in range(int(ctx.budget(40, 400) * n_scale)):
        lattice = (k % 2 == 0)
        shape = rng.choice(["sphere", "capsule", "ellipsoid", "disk", "cone", "cylinder", "box"])
        pts = np.array([scenes.vec(rng, lattice, 2.0) for _ in range(12)])
        cases.append({"kind": "contain", "shape": shape, "pose": scenes.pose(rng, lattice, 1.0),
                      "sizes": [scenes.size_scalar(rng, lattice) for _ in range(3)], "points": pts,
                      "lattice": lattice})
    # 4b. empty and one-element containers for the array-taking kernels
    for k in range(int(ctx.budget(12, 60) * n_scale)):
        n1, n2 = [(0, 3), (3, 0), (0, 0), (1, 1), (4, 5), (1, 0)][k % 6]
        mk = lambda n: np.array([c05_box(rng) for _ in range(n)], dtype=float).reshape(n, 3, 2)  # noqa
        cases.append({"kind": "aabbsets", "a": mk(n1), "b": mk(n2), "lattice": True})
        shape = ["sphere", "capsule", "ellipsoid", "disk", "cone", "cylinder", "box"][k % 7]
        cases.append({"kind": "contain", "shape": shape, "pose": scenes.pose(rng, True, 1.0),
                      "sizes": [scenes.size_scalar(rng, True) for _ in range(3)], "points": np.zeros((0, 3)),
                      "lattice": True})
    # 5. AABB tree histories (incl. empty trees) — generator of C05
    import props.c05 as c05
    hists = [ops for _, ops in c05.corpus()]
    for k in range(int(ctx.budget(40, 600) * n_scale)):
        stream = rng.choice(["L", "G", "M"])
        hists.append(c05.gen_history(rng, stream))
    for ops in hists:
        cases.append({"kind": "aabbtree", "ops": ops, "lattice": True})
    # 6. half-plane kernels and utils
    for k in range(int(ctx.budget(60, 600) * n_scale)):
        lattice = (k % 2 == 0)
        nhp = rng.choice([3, 4, 5, 6, 8])
        hps = []
        for _ in range(nhp):
            ang = rng.choice([0, 0.5, 1, 1.5]) * math.pi if lattice else rng.uniform(0, 2 * math.pi)
            n = np.array([math.cos(ang), math.sin(ang)])
            p = n * (rng.choice([0.5, 1.0, 2.0]) if lattice else rng.uniform(0.2, 2.0)) * -1.0
            hps.append([p[0], p[1], n[1], -n[0]])
        cases.append({"kind": "halfplanes", "hp": np.array(hps, dtype=float), "lattice": lattice})
        cases.append({"kind": "utils", "pose": scenes.pose(rng, lattice, 3.0), "v": scenes.vec(rng, lattice, 2.0),
                      "n": scenes.unit(rng, lattice), "lattice": lattice})
    # 7. hydroelastic contact (slow interpreted: few)
    for k in range(int(ctx.budget(3, 30) * n_scale)):
        cases.append({"kind": "hydro", "c1": [0.0, 0.0, 0.0], "c2": [rng.uniform(0.1, 0.25), rng.uniform(-0.05, 0.05), 0.0],
                      "r": 0.15, "tree": bool(k % 2), "lattice": False})
    # 7b. broad phase: a BoundingVolumeHierarchy queried with colliders that overlap some, one or NONE of its colliders
    for k in range(int(ctx.budget(8, 60) * n_scale)):
        lattice = (k % 2 == 0)
        cols = [scenes.collider_spec(rng, lattice, types=["Sphere", "Box", "Capsule", "Cylinder"]) for _ in range(rng.choice([1, 3, 6]))]
        q_near = scenes.collider_spec(rng, lattice, types=["Sphere", "Box"])
        q_far = scenes.translate(scenes.collider_spec(rng, lattice, types=["Sphere", "Box"]), np.array([500.0, -300.0, 200.0]))
        cases.append({"kind": "bvh", "cols": cols, "queries": [q_near, q_far], "lattice": lattice})
    # 8. mesh support histories (cached start vertex)
    for k in range(int(ctx.budget(20, 200) * n_scale)):
        spec = scenes.collider_spec(rng, k % 2 == 0, types=["MeshGraph"])
        dirs = [scenes.unit(rng, rng.random() < 0.5) for _ in range(6)]
        cases.append({"kind": "meshhist", "spec": spec, "dirs": dirs, "lattice": k % 2 == 0})
    return cases


# ------------------------------------------------------------------ execution (runs in BOTH engines)
def c05_box(rng):
    lo = [rng.choice([-2, -1, -0.5, 0, 0.5, 1]) for _ in range(3)]
    return [[lo[i], lo[i] + rng.choice([0.0, 0.5, 1, 2])] for i in range(3)]


def _ser(x):
    if x is None:
        return None
    if isinstance(x, (bool, np.bool_)):
        return bool(x)
    if isinstance(x, (int, np.integer)):
        return int(x)
    if isinstance(x, (float, np.floating)):
        return float(x)
    if isinstance(x, np.ndarray):
        if x.dtype == bool:
            return [bool(v) for v in x.ravel()]
        if np.issubdtype(x.dtype, np.integer):
            return [int(v) for v in x.ravel()]
        return [float(v) for v in x.ravel()]
    if isinstance(x, (list, tuple)):
        return [_ser(v) for v in x]
    if isinstance(x, dict):
        return {str(k): _ser(v) for k, v in sorted(x.items(), key=lambda kv: str(kv[0]))}
    if hasattr(x, "name") and hasattr(x, "value"):
        return str(x.name)
    return str(type(x).__name__)


def impl_run(case):
    try:
        return {"ok": True, "out": _run(case)}
    except Exception as e:  # noqa
        return {"ok": False, "err": type(e).__name__, "msg": str(e)[:160]}


def _run(case):
    k = case["kind"]
    if k == "dist":
        from distance3d import distance
        return _ser(getattr(distance, case["fn"])(*[np.array(a) if isinstance(a, np.ndarray) else a
                                                      for a in case["args"]]))
    if k == "collider":
        c = scenes.build(case["spec"])
        if case.get("move_to") is not None:
            stack = np.zeros((3, 4, 4))
            stack[1] = case["move_to"]
            c.update_pose(stack[1])
        return _ser({"support": c.support_function(case["dir"]), "aabb": c.aabb(), "center": c.center(),
                     "first": c.first_vertex()})
    if k == "pair":
        from distance3d import gjk, mpr, epa
        c1, c2 = scenes.build(case["c1"]), scenes.build(case["c2"])
        fn = case["fn"]
        if fn == "epa":
            # number of valid simplex rows gjk ends with (rows beyond it are uninitialised memory: np.empty)
            import distance3d.gjk._gjk_jolt as J
            last, orig_loop = {}, J._distance_loop

            def _loop(*a):
                r = orig_loop(*a)
                last["n"] = r[1]
                return r
            J._distance_loop = _loop
            try:
                dist, _, _, simplex = gjk.gjk(c1, c2)
            finally:
                J._distance_loop = orig_loop
            if dist > 0.0 or simplex is None:
                return {"skipped": "no overlap"}
            n_valid = int(last.get("n") or 4)
            try:
                mtv, faces, success = epa.epa(simplex, c1, c2)
            except AssertionError:
                return {"epa_capacity_assert": True, "n_valid": n_valid}
            return _ser({"mtv_len": float(np.linalg.norm(mtv)), "success": success, "n_valid": n_valid})
        if fn.startswith("mpr"):
            r = getattr(mpr, fn)(c1, c2)
        else:
            r = getattr(gjk, fn)(c1, c2)
        if fn == "gjk":
            return _ser({"d": r[0], "p1": r[1], "p2": r[2]})
        if fn == "gjk_distance_original":
            return _ser({"d": r[0], "p1": r[1], "p2": r[2]})
        if fn == "mpr_penetration":
            return _ser({"hit": r[0], "depth": r[1], "dir": r[2], "pos": r[3]})
        return _ser(r)
    if k == "contain":
        from distance3d import containment_test as ct
        A, s, P = case["pose"], case["sizes"], case["points"]
        sh = case["shape"]
        if sh == "sphere":
            r = ct.points_in_sphere(P, A[:3, 3].copy(), s[0])
        elif sh == "capsule":
            r = ct.points_in_capsule(P, A, s[0], s[1])
        elif sh == "ellipsoid":
            r = ct.points_in_ellipsoid(P, A, np.array(s))
        elif sh == "disk":
            r = ct.points_in_disk(P, A[:3, 3].copy(), s[0], np.ascontiguousarray(A[:3, 2]))
        elif sh == "cone":
            r = ct.points_in_cone(P, A, s[0], s[1])
        elif sh == "cylinder":
            r = ct.points_in_cylinder(P, A, s[0], s[1])
        else:
            r = ct.points_in_box(P, A, np.array(s))
        return _ser(np.asarray(r))
    if k == "bvh":
        from pytransform3d.transform_manager import TransformManager
        from distance3d.broad_phase import BoundingVolumeHierarchy
        tm = TransformManager(check=False)
        bvh = BoundingVolumeHierarchy(tm, "base")
        for i, spec in enumerate(case["cols"]):
            tm.add_transform("c%d" % i, "base", np.eye(4))
            bvh.add_collider("c%d" % i, scenes.build(spec))
        out = []
        for q in case["queries"]:
            res = bvh.aabb_overlapping_colliders(scenes.build(q))
            out.append(sorted(str(f) for f in res.keys()))
        return _ser({"overlapping": out})
    if k == "aabbsets":
        from distance3d.aabb_tree import all_aabbs_overlap
        i1, i2, pairs = all_aabbs_overlap(case["a"], case["b"])
        return _ser({"i1": sorted(int(i) for i in i1), "i2": sorted(int(i) for i in i2),
                     "pairs": sorted((int(p[0]), int(p[1])) for p in pairs)})
    if k == "aabbtree":
        import props.c05 as c05
        res = c05.impl_run(case["ops"])
        # canonical, layout-independent summary: np.argsort's order among equal keys is unspecified and
        # differs between numpy and numba, so the tree SHAPE may differ; what must agree is what a user
        # observes: which (box, external datum) pairs a query reports, and the set of stored leaves
        out = []
        for r in res:
            if not r.get("ok"):
                out.append({"err": r.get("err")})
                continue
            st = r["state"]
            leaves = sorted((st["aabbs"][i], st["ext"][i]) for i, row in enumerate(st["nodes"]) if row[3] == 1)
            item = {"leaves": leaves, "filled": st["filled"]}
            if "res" in r:
                item["q"] = sorted((st["aabbs"][i], st["ext"][i]) for i in r["res"])
                item["flag"] = r["flag"]
                item["dup"] = len(set(r["res"])) != len(r["res"])
            if "pairs" in r:
                st2 = r["state2"]
                item["qt"] = sorted(((st["aabbs"][i], st["ext"][i]), (st2["aabbs"][j], st2["ext"][j]))
                                    for i, j in r["pairs"])
                item["flag"] = r["flag"]
            out.append(item)
        return _ser(out)
    if k == "halfplanes":
        from distance3d.hydroelastic_contact import _halfplanes as H
        hp = np.ascontiguousarray(case["hp"])
        pts = H.intersect_halfplanes(hp)
        pts = sorted([[round(float(a), 9), round(float(b), 9)] for a, b in np.asarray(pts)])
        two = H.intersect_two_halfplanes(hp[0], hp[1])
        return _ser({"pts": pts, "two": two, "outside": H.point_outside_of_halfplane(hp[2], np.array([0.3, -0.2]))})
    if k == "utils":
        from distance3d import utils, geometry
        A, v, n = case["pose"], case["v"], case["n"]
        x, y = geometry.plane_basis_from_normal(np.ascontiguousarray(n))
        return _ser({"nv": utils.norm_vector(np.ascontiguousarray(v + np.array([0.0, 0.0, 0.25]))),
                     "tp": utils.transform_point(A, v), "itp": utils.inverse_transform_point(A, v),
                     "inv": utils.invert_transform(A), "x": x, "y": y,
                     "stp": utils.scalar_triple_product(np.ascontiguousarray(v), np.ascontiguousarray(n),
                                                        np.ascontiguousarray(A[:3, 0]))})
    if k == "hydro":
        from distance3d import hydroelastic_contact as hc
        b1 = hc.RigidBody.make_sphere(np.array(case["c1"]), case["r"], 1)
        b2 = hc.RigidBody.make_sphere(np.array(case["c2"]), case["r"], 1)
        cs = hc.find_contact_surface(b1, b2, use_aabb_trees=case["tree"])
        b1 = hc.RigidBody.make_sphere(np.array(case["c1"]), case["r"], 1)
        hit, w12, w21 = hc.contact_forces(b1, b2)
        pairs = sorted(zip([int(i) for i in cs.intersecting_tetrahedra1], [int(i) for i in cs.intersecting_tetrahedra2]))
        order = np.lexsort((np.asarray(cs.intersecting_tetrahedra2), np.asarray(cs.intersecting_tetrahedra1)))
        nverts = [int(len(cs.contact_polygons[i])) for i in order]
        return _ser({"hit": hit, "w12": w12, "w21": w21, "npoly": len(cs.contact_polygons), "pairs": pairs,
                     "nverts": nverts})
    if k == "meshhist":
        c = scenes.build(case["spec"])
        return _ser([float(np.dot(d, c.support_function(np.ascontiguousarray(d)))) for d in case["dirs"]])
    raise KeyError(k)


# ------------------------------------------------------------------ comparison
def _scale(case):
    return 1.0


def _flat(x, out):
    if isinstance(x, dict):
        for k in sorted(x):
            _flat(x[k], out)
    elif isinstance(x, list):
        for v in x:
            _flat(v, out)
    else:
        out.append(x)
    return out


def compare(case, a, b):
    """a: interpreted, b: JIT. Returns None if equivalent under the property's tolerances, else a message."""
    if a["ok"] != b["ok"]:
        return "one engine raised: interp=%s jit=%s" % (a.get("err", "returned"), b.get("err", "returned"))
    if not a["ok"]:
        if a["err"] != b["err"]:
            return "exception types differ: interp=%s jit=%s" % (a["err"], b["err"])
        return None
    k = case["kind"]
    oa, ob = a["out"], b["out"]
    if k == "pair":
        fn = case["fn"]
        L = 4.0
        if isinstance(oa, dict) and isinstance(ob, dict):
            if fn == "epa" and ("epa_capacity_assert" in oa) != ("epa_capacity_assert" in ob):
                # EPA's polytope-capacity assertion on smooth shapes is an allowed outcome (C07/C19); whether a run on a
                # curved Minkowski difference reaches the capacity before it converges depends on last-bit differences
                # of the support points (numpy BLAS vs numba), so the two engines may legitimately differ here.
                polytopes = {"Box", "ConvexHullVertices", "MeshGraph"}
                if case["c1"][0] not in polytopes or case["c2"][0] not in polytopes:
                    return None
            if set(oa) != set(ob):
                return "different result kinds %s vs %s" % (sorted(oa), sorted(ob))
            tol = {"gjk": 1e-5, "gjk_distance_original": 1e-3, "mpr_penetration": 2e-3, "epa": 1e-6}.get(fn, 1e-3) * L
            for key in ("d", "depth", "mtv_len"):
                if key in oa and oa[key] is not None and ob[key] is not None and abs(oa[key] - ob[key]) > tol:
                    return "%s differs: %r vs %r (tol %g)" % (key, oa[key], ob[key], tol)
            for key in ("hit", "success"):
                if key in oa and oa[key] != ob[key]:
                    dep = oa.get("depth") or 0.0
                    if key == "hit" and abs(dep) < 1e-3 * L:
                        continue
                    return "%s differs: %r vs %r" % (key, oa[key], ob[key])
            return None
        if isinstance(oa, bool) or isinstance(ob, bool):
            if oa != ob:
                return "boolean differs (checked against the band by the caller): %r vs %r" % (oa, ob)
            return None
        fa, fb = _flat(oa, []), _flat(ob, [])
        tol = 1e-3 * L
        if len(fa) >= 1 and isinstance(fa[0], float) and isinstance(fb[0], float):
            return None if abs(fa[0] - fb[0]) <= tol else "distance differs: %r vs %r" % (fa[0], fb[0])
        return None if fa == fb else "outputs differ"
    if k == "dist" and isinstance(oa, list) and isinstance(ob, list) and len(oa) == len(ob) >= 3 \
            and isinstance(oa[0], float) and isinstance(ob[0], float) \
            and all(isinstance(x, list) and len(x) == 3 for x in (oa[1], oa[2], ob[1], ob[2])):
        # non-unique optimum (e.g. a segment parallel to a triangle's plane on a lattice scene): which of several
        # equally close point pairs is returned is decided by last-bit differences; both engines must agree on the
        # distance and each must return a pair that realises it
        da, db = oa[0], ob[0]
        tol_d = 1e-9 * max(1.0, abs(da), abs(db))
        if case["fn"] in ("line_to_circle", "line_segment_to_circle", "disk_to_disk", "point_to_ellipsoid"):
            tol_d = 1e-6 * max(1.0, abs(da))
        if abs(da - db) <= tol_d:
            ra = abs(float(np.linalg.norm(np.array(oa[1]) - np.array(oa[2]))) - da)
            rb = abs(float(np.linalg.norm(np.array(ob[1]) - np.array(ob[2]))) - db)
            same_pts = all(abs(x - y) <= 1e-9 * max(1.0, abs(x), abs(y)) for x, y in zip(oa[1] + oa[2], ob[1] + ob[2]))
            if same_pts or (ra <= 1e-6 * max(1.0, da) and rb <= 1e-6 * max(1.0, db)):
                return None
    if k == "hydro" and isinstance(oa, dict) and isinstance(ob, dict):
        # the per-polygon vertex counts are diagnostic (used by classify); the verdict is on flag, pairs and wrenches
        oa = {kk: vv for kk, vv in oa.items() if kk != "nverts"}
        ob = {kk: vv for kk, vv in ob.items() if kk != "nverts"}
    fa, fb = _flat(oa, []), _flat(ob, [])
    if len(fa) != len(fb):
        return "output shapes differ: %d vs %d values" % (len(fa), len(fb))
    for x, y in zip(fa, fb):
        if isinstance(x, float) and isinstance(y, float):
            if math.isnan(x) and math.isnan(y):
                continue
            tol = DIST_TOL * max(1.0, abs(x), abs(y))
            if k == "hydro":
                tol = 1e-6 * max(1e-3, abs(x))
            if k == "dist" and case["fn"] in ("line_to_circle", "line_segment_to_circle", "disk_to_disk",
                                               "point_to_ellipsoid"):
                tol = 1e-6 * max(1.0, abs(x))
            if not abs(x - y) <= tol:
                return "float differs: %r vs %r" % (x, y)
        elif x != y:
            return "value differs: %r vs %r" % (x, y)
    return None


def describe(case):
    d = {"kind": case["kind"]}
    for k in ("fn", "shape"):
        if k in case:
            d[k] = case[k]
    if "spec" in case:
        d["spec"] = case["spec"][0] if case["spec"][0] != "Margin" else "Margin(%s)" % case["spec"][1][0]
    if "c1" in case and isinstance(case["c1"], tuple):
        d["c1"], d["c2"] = case["c1"][0], case["c2"][0]
    return d


def case_json(case):
    out = {}
    for k, v in case.items():
        if k in ("c1", "c2", "spec") and isinstance(v, tuple):
            out[k] = scenes.spec_json(v)
        elif k in ("cols", "queries"):
            out[k] = [scenes.spec_json(x) for x in v]
        else:
            out[k] = core.jsonable(v)
    return out


def case_from_json(j):
    out = {}
    for k, v in j.items():
        if k in ("c1", "c2", "spec") and isinstance(v, list) and v and isinstance(v[0], str):
            out[k] = scenes.spec_from_json(v)
        elif k in ("cols", "queries"):
            out[k] = [scenes.spec_from_json(x) for x in v]
        elif k == "args":
            out[k] = [np.array(a, dtype=float) if isinstance(a, list) else a for a in v]
        elif k in ("a", "b") and j.get("kind") == "aabbsets":
            out[k] = np.array(v, dtype=float).reshape(-1, 3, 2)
        elif k == "points" and len(v) == 0:
            out[k] = np.zeros((0, 3))
        elif k in ("dir", "pose", "points", "hp", "v", "n", "move_to"):
            out[k] = np.array(v, dtype=float)
        elif k == "dirs":
            out[k] = [np.array(a, dtype=float) for a in v]
        else:
            out[k] = v
    return out


def band_ok(case, ia, jb):
    """boolean disagreement is only meaningful away from the decision boundary: recompute the gjk distance /
    mpr depth in the interpreted engine."""
    from distance3d import gjk, mpr
    c1, c2 = scenes.build(case["c1"]), scenes.build(case["c2"])
    d = gjk.gjk(c1, c2)[0]
    if d > 1e-3 * 4.0:
        return False
    if d == 0.0:
        dep = mpr.mpr_penetration(c1, c2)[1]
        return dep < 1e-3 * 4.0
    return True


def differential(ctx, cases, tag):
    interp = [impl_run(c) for c in cases]
    jit = core.run_engine("c20", cases, jit=True)
    if isinstance(jit, dict):
        ctx.broke("correspondence", "JIT engine", jit.get("engine_error"))
        ctx.fail("import/run under JIT", {"cases": len(cases)}, jit.get("engine_error", "")[-600:],
                 "the library imports and runs with numba JIT as installed", "two-engine differential")
        return
    for case, a, b in zip(cases, interp, jit):
        key = repr(describe(case)) + repr(_flat(core.jsonable(case_json(case)), [])[:40])
        ctx.count(tag + ":" + case["kind"], key=key, nontrivial=a["ok"], sample=describe(case))
        ctx.branch("engine-outcome", ("ok" if a["ok"] else a["err"]) + "/" + ("ok" if b["ok"] else b["err"]))
        msg = compare(case, a, b)
        if msg is None:
            continue
        if case["kind"] == "pair" and "boolean differs" in msg:
            try:
                if band_ok(case, a, b):
                    ctx.branch("engine-outcome", "boolean-differs-inside-band")
                    continue
            except Exception:  # noqa
                pass
        ctx.fail("JIT vs interpreted: " + str(describe(case)), case_json(case),
                 {"interp": core.jsonable(a), "jit": core.jsonable(b)}, msg, "two-engine differential",
                 finding=classify(case, a, b, msg), engine="jit")


F_HYDRO_DROP = "F-c20-hydro-vertex-drop"
F_EPA_ROWS = "F-c20-epa-uninitialised-simplex-rows"


def classify(case, a, b, msg):
    """attach a known-finding id only to the exact class it describes"""
    if case["kind"] == "pair" and case.get("fn") == "epa" and a.get("ok") and b.get("ok"):
        oa, ob = a["out"], b["out"]
        # gjk handed over fewer than 4 valid simplex rows: the remaining rows are np.empty memory, epa builds its first
        # faces from them, and what it returns (a too long vector with success=True, NaN, the capacity assertion) depends
        # on what that memory held in the respective process
        if isinstance(oa, dict) and isinstance(ob, dict) and min(oa.get("n_valid", 4), ob.get("n_valid", 4)) < 4:
            return F_EPA_ROWS
    if case["kind"] == "hydro" and a.get("ok") and b.get("ok"):
        oa, ob = a["out"], b["out"]
        # same intersecting pairs, but some contact polygon has another number of vertices in the two engines (a vertex
        # on three boundary lines is kept or dropped by a comparison that is decided by the last bits), and the wrenches
        # still agree within the 5 % that property C16 grants
        pa, pb = [tuple(x) for x in oa.get("pairs", [])], [tuple(x) for x in ob.get("pairs", [])]
        na, nb = dict(zip(pa, oa.get("nverts", []))), dict(zip(pb, ob.get("nverts", [])))
        only = set(pa) ^ set(pb)
        changed = [q for q in set(pa) & set(pb) if na.get(q) != nb.get(q)]
        # a polygon that loses a vertex may fall below 3 vertices and disappear in one engine: at most two such pairs,
        # and the polygon that exists in the other engine is a triangle or quadrilateral
        small = all((na.get(q) or nb.get(q) or 9) <= 4 for q in only)
        if (changed or only) and len(only) <= 2 and small and oa.get("hit") == ob.get("hit"):
            wa, wb = np.array(oa["w12"], dtype=float), np.array(ob["w12"], dtype=float)
            nf = max(float(np.linalg.norm(wa[:3])), float(np.linalg.norm(wb[:3])))
            if float(np.linalg.norm(wa[:3] - wb[:3])) <= 0.05 * nf:
                return F_HYDRO_DROP
    return None


def correspondence(ctx):
    """model side of C20: the Lean index-safety obligations are exercised on the implementation's arrays by C05's
    wfCheck (re-run here on the JIT engine's arrays: the compiled kernels must leave well-formed arrays too)."""
    import props.c05 as c05
    hists = c05.corpus() + c05.gen_all(ctx, ctx.budget(60, 800))
    res = core.run_engine("c05", [ops for _, ops in hists], jit=True)
    if isinstance(res, dict):
        ctx.broke("correspondence", "JIT engine", res.get("engine_error"))
        return
    c05.run_histories(ctx, hists, engine_results=res, tag="jit")
    for f in ctx.failing:
        f["function"] = "C20/" + f["function"]


def search(ctx):
    cases = gen_cases(ctx, 3.0 if ctx.extra.get("search_boost") else 1.0)
    differential(ctx, cases, "diff")
    ctx.extra["call_list_size"] = len(cases)


def replay(ctx, payload):
    args = payload.get("args")
    if not args or "kind" not in args:
        print("replay file names no input:", payload.get("broken"))
        return False
    case = case_from_json(args)
    a = impl_run(case)
    b = core.run_engine("c20", [case], jit=True)
    if isinstance(b, dict):
        print("JIT engine failed:", b)
        return False
    msg = compare(case, a, b[0])
    print("interp:", str(a)[:300])
    print("jit   :", str(b[0])[:300])
    print("verdict:", msg)
    return msg is None
