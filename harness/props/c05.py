"""C05 — AABB tree: correspondence with the Lean array model, Lean-verified wfCheck on the
implementation's arrays after every operation, brute-force oracle."""
import itertools

import math
import numpy as np

import core
from core import f2h

RULE = ("histories of insert_aabbs/insert_aabb/overlaps_aabb/overlaps_aabb_tree ops drawn from one PRNG "
        "(lattice stream: half-integer boxes incl. degenerate/touching/nested/duplicate; general stream: random "
        "floats; malformed stream: empty tree, empty batches); a case is non-trivial if it holds >= 1 insertion "
        "and >= 1 query; distinct = distinct op sequence")
EXPLANATION = ("query_exact / query_tree_exact are proved for every array state accepted by wfCheck; this run "
               "executes wfCheck (in Lean) on the implementation's arrays after every operation, compares the "
               "full state with the faithful array model exactly, and compares every query with brute force")
PARTIAL = {
    "insert_index_list": "AabbTree.insert_index_list is modelled and compared exactly, but no theorem speaks about it",
    "Batch.Ok": "history_wf assumes admissible calls: boxes with lo <= hi, external data of the batch's length, a real "
                "permutation for shuffle; sort ties are a permutation parameter",
}
ASSUMPTIONS = ["np.random.shuffle produces a permutation (the model takes the permutation as a parameter)",
               "np.argsort order among equal keys is unspecified: sort-mode batches with equal lo0 keys are "
               "compared on the abstract tree (wfCheck, leaf multiset, queries) only"]
TRUSTED = ["aabb_tree.py is modelled in full (class bookkeeping, insert_leaf, fix_upward_tree, both query loops, "
           "all_aabbs_overlap, aabb_overlap, _merge_aabb, _aabb_volume); print_aabb_tree_recursive is not modelled"]

MANIFEST = dict(
    text=("Lean theorems on the faithful ARRAY model of aabb_tree.py: history_wf (for every list of insertion batches - "
          "any sizes incl. 0, modes none/shuffle(any permutation)/sort, with or without external data - no call errors, "
          "the state passes wfCheck, the leaves are exactly the inserted boxes and ext[row] is the datum supplied with "
          "that box), insertLeaf_refines / insertMany_refines (array-level insert_leaf implements the tree-level "
          "insertion), query_exact / query_tree_exact / history_query_exact (queries return exactly the overlapping "
          "inserted boxes, each once, never out of range), empty_query_ok. Link theorems tie regenerated kernels "
          "(aabb_overlap, _merge_aabb, _aabb_volume: translated from today's source by py2lean) to the model by rfl. "
          "The model is compared exactly (full arrays after every op) with the implementation, wfCheck is executed in "
          "Lean on the implementation's arrays, and a brute-force oracle runs on the real code."),
    note=("trusted: Lean kernel + Mathlib, axioms propext/Classical.choice/Quot.sound; exact-real semantics of box "
          "coordinates (only min/max/<=/-/* are used; min/max/<= are exact in floats); py2lean translator for the three "
          "kernels; correspondence harness (sampling + corpus) for everything else."),
    technique="Lean 4 proof on hand-written model + correspondence (exact state equality, Lean-run wfCheck on impl arrays)",
    design="§7 C05")

MODELLED = ["distance3d/aabb_tree.py:" + f for f in (
    "AabbTree.__init__", "AabbTree.insert_aabbs", "AabbTree.insert_aabb", "AabbTree.overlaps_aabb_tree",
    "AabbTree.overlaps_aabb", "insert_aabbs", "insert_leaf", "fix_upward_tree", "query_overlap_of_other_tree",
    "query_overlap", "all_aabbs_overlap", "aabb_overlap", "_sort_aabbs", "_merge_aabb", "_aabb_volume",
    "_aabb_x_size", "_aabb_y_size", "_aabb_z_size")]

MODES = ["none", "sort", "shuffle"]


# ------------------------------------------------------------------ generation
def lattice_box(rng, flat=()):
    """flat: axes on which every box of the history is degenerate at the same coordinate
    (coplanar rectangles, collinear intervals, points: zero volume however large the box grows)"""
    vals = [-2, -1.5, -1, -0.5, 0, 0.5, 1, 1.5, 2, 3]
    b = []
    for ax in range(3):
        if ax in flat:
            b.append([0.5, 0.5])
            continue
        lo = rng.choice(vals)
        kind = rng.random()
        if kind < 0.15:
            hi = lo
        else:
            hi = lo + rng.choice([0.5, 1, 1.5, 2, 4])
        b.append([lo, hi])
    return b


def general_box(rng):
    scale = 10 ** rng.uniform(-2, 2)
    b = []
    for _ in range(3):
        lo = rng.uniform(-1, 1) * scale
        hi = lo + rng.random() * scale * rng.choice([0.0, 0.01, 1.0, 1.0])
        b.append([lo, hi])
    return b


def gen_batch(rng, stream, mode, nmax):
    n = rng.choice([0, 1, 1, 2, 3, 4, 5, nmax]) if nmax > 0 else 0
    if stream.startswith("F"):
        flat = {"F1": (2,), "F2": (1, 2), "F3": (0, 1, 2), "F0": (0,)}[stream]
        mk = lambda r: lattice_box(r, flat)  # noqa
    else:
        mk = lattice_box if stream == "L" else general_box
    boxes = [mk(rng) for _ in range(n)]
    if stream != "G" and n >= 2 and rng.random() < 0.3:
        boxes[-1] = [list(x) for x in boxes[0]]  # duplicate box
    tie = False
    if mode == "sort":
        keys = [b[0][0] for b in boxes]
        tie = len(set(keys)) < len(keys)
    return boxes, tie


def gen_ins(rng, stream, ext_counter, nmax=7, modes=MODES):
    mode = rng.choice(modes)
    boxes, tie = gen_batch(rng, stream, mode, nmax)
    has_ext = rng.random() < 0.6
    ext = None
    if has_ext:
        ext = list(range(ext_counter[0], ext_counter[0] + len(boxes)))
        ext_counter[0] += len(boxes)
    op = {"op": "ins", "mode": mode, "boxes": boxes, "ext": ext, "shuffle_seed": rng.randrange(2 ** 31),
          "tie": tie, "single": (len(boxes) == 1 and mode == "none" and rng.random() < 0.5)}
    if stream != "G" and rng.random() < 0.15:
        # the same box values handed over in a narrower array type (voxel/grid data: int64, float32); the values are
        # exactly representable, so the tree must behave as for float64 input (storage is float64)
        op["dtype"] = rng.choice(["int64", "float32"])
    return op


def gen_history(rng, stream):
    ext_counter = [100]
    ops = []
    nops = rng.choice([1, 2, 3, 4, 6, 8])
    if stream == "M":
        # malformed / edge stream: queries on the empty tree, empty batches first
        ops.append({"op": "q", "box": lattice_box(rng)})
        ops.append({"op": "ins", "mode": rng.choice(MODES), "boxes": [], "ext": None, "shuffle_seed": 1,
                    "tie": False, "single": False})
        ops.append({"op": "dump"})
        ops.append({"op": "qt", "other": []})
        stream = "L"
    for _ in range(nops):
        r = rng.random()
        if r < 0.55:
            ops.append(gen_ins(rng, stream, ext_counter))
            ops.append({"op": "dump"})
        elif r < 0.85:
            if stream.startswith("F"):
                fl = {"F1": (2,), "F2": (1, 2), "F3": (0, 1, 2), "F0": (0,)}[stream]
                ops.append({"op": "q", "box": lattice_box(rng, fl if rng.random() < 0.7 else ())})
            else:
                mk = lattice_box if stream == "L" else general_box
                ops.append({"op": "q", "box": mk(rng)})
        else:
            k = rng.choice([0, 1, 2])
            c2 = [200000]
            other = [gen_ins(rng, stream, c2, nmax=5) for _ in range(k)]
            ops.append({"op": "qt", "other": other})
    if rng.random() < 0.12:
        # narrow-first history: the FIRST non-empty batch arrives as an int64 / float32 array of integer-valued boxes
        # (voxel or grid data); later batches carry values that the narrow type cannot hold (halves, thirds). The tree
        # stores float64 and must answer for the values supplied.
        narrow = rng.choice(["int64", "float32"])
        first = True
        for op in ops:
            if op["op"] != "ins" or not op["boxes"]:
                continue
            if first:
                op["boxes"] = [[[float(math.floor(lo)), float(math.ceil(hi))] for lo, hi in b] for b in op["boxes"]]
                op["dtype"] = narrow
                if op["mode"] == "sort":
                    keys = [b[0][0] for b in op["boxes"]]
                    op["tie"] = len(set(keys)) < len(keys)
                first = False
            else:
                op.pop("dtype", None)
                op["boxes"] = [[[lo + 1.0 / 3.0, hi + 1.0 / 3.0 + 1e-9] for lo, hi in b] for b in op["boxes"]]
    return ops


# ------------------------------------------------------------------ implementation
def shuffle_perm(n, seed):
    np.random.seed(seed)
    order = np.arange(n)
    np.random.shuffle(order)
    return [int(x) for x in order]


def impl_insert(tree, op):
    boxes = np.array(op["boxes"], dtype=float).reshape(-1, 3, 2)
    if op.get("dtype"):
        cast = boxes.astype(op["dtype"])
        if not np.array_equal(cast.astype(float), boxes):
            cast = boxes.astype("float32")
        if np.array_equal(cast.astype(float), boxes):
            boxes = cast
    if op["mode"] == "shuffle":
        np.random.seed(op["shuffle_seed"])
    if op.get("single"):
        tree.insert_aabb(boxes[0], op["ext"][0] if op["ext"] is not None else None)
    else:
        tree.insert_aabbs(boxes, None if op["ext"] is None else list(op["ext"]),
                          pre_insertion_methode=op["mode"])


def err_name(e):
    if isinstance(e, IndexError):
        return "indexOOB"
    if isinstance(e, AssertionError):
        return "assertFail"
    if isinstance(e, KeyError):
        return "keyError"
    if isinstance(e, AttributeError):
        return "attrErr"
    if isinstance(e, ZeroDivisionError):
        return "divZero"
    if isinstance(e, TypeError):
        return "typeErr"
    return "exc:" + type(e).__name__


def dump_tree(tree):
    return {"root": int(tree.root), "filled": int(tree.filled_len),
            "nodes": np.asarray(tree.nodes).astype(int).tolist(),
            "aabbs": np.asarray(tree.aabbs, dtype=float).tolist(),
            "ext": [(-1 if e is None else int(e)) for e in tree.external_data_list],
            "ins": [(-1 if e is None else int(e)) for e in tree.insert_index_list]}


def impl_run(ops):
    """Run a history on the real AabbTree. Returns list of per-op results (JSON-able)."""
    from distance3d.aabb_tree import AabbTree
    tree = AabbTree()
    out = []
    for op in ops:
        try:
            if op["op"] == "ins":
                impl_insert(tree, op)
                out.append({"ok": True, "state": dump_tree(tree)})
            elif op["op"] == "q":
                flag, ov = tree.overlaps_aabb(np.array(op["box"], dtype=float))
                out.append({"ok": True, "res": [int(i) for i in ov], "flag": bool(flag),
                            "state": dump_tree(tree)})
            elif op["op"] == "dump":
                out.append({"ok": True, "state": dump_tree(tree)})
            elif op["op"] == "qt":
                t2 = AabbTree()
                for o2 in op["other"]:
                    impl_insert(t2, o2)
                flag, o1, o2_, pairs = tree.overlaps_aabb_tree(t2)
                out.append({"ok": True, "pairs": [[int(a), int(b)] for a, b in pairs], "flag": bool(flag),
                            "u1": [int(i) for i in o1], "u2": [int(i) for i in o2_],
                            "state": dump_tree(tree), "state2": dump_tree(t2)})
        except Exception as e:  # noqa
            out.append({"ok": False, "err": err_name(e), "msg": str(e)[:200]})
    return out


# ------------------------------------------------------------------ encoding for the driver
def enc_box(b):
    return [f2h(b[0][0]), f2h(b[0][1]), f2h(b[1][0]), f2h(b[1][1]), f2h(b[2][0]), f2h(b[2][1])]


def enc_ins(op):
    n = len(op["boxes"])
    t = ["ins", str(MODES.index(op["mode"])), str(n), "1" if op["ext"] is not None else "0"]
    if op["ext"] is not None:
        t += [str(e) for e in op["ext"]]
    for b in op["boxes"]:
        t += enc_box(b)
    if op["mode"] == "shuffle":
        perm = shuffle_perm(n, op["shuffle_seed"])
        t += [str(n)] + [str(p) for p in perm]
    else:
        t += ["0"]
    return t


def enc_history(ops):
    t = []
    for op in ops:
        if op["op"] == "ins":
            t += enc_ins(op)
        elif op["op"] == "q":
            t += ["q"] + enc_box(op["box"])
        elif op["op"] == "dump":
            t += ["dump"]
        elif op["op"] == "qt":
            t += ["qt", str(len(op["other"]))]
            for o2 in op["other"]:
                t += enc_ins(o2)
    return t


def enc_state(st):
    n = len(st["nodes"])
    t = [str(st["root"]), str(st["filled"]), str(n)]
    for row in st["nodes"]:
        t += [str(int(x)) for x in row]
    for b in st["aabbs"]:
        t += enc_box(b)
    return t


def model_dump_tokens(st):
    """the `dump` string the Lean driver would print for this state"""
    nodes = " ".join(" ".join(str(int(x)) for x in row) for row in st["nodes"])
    boxes = " ".join(" ".join(enc_box(b)) for b in st["aabbs"])
    ext = " ".join(str(e) for e in st["ext"])
    ins = " ".join(str(e) for e in st["ins"])
    return ("ok %d %d %d %s ; %s ; %s ; %s" % (st["root"], st["filled"], len(st["nodes"]), nodes, boxes, ext, ins))


def norm(s):
    return " ".join(s.split())


# ------------------------------------------------------------------ oracle
def overlap(a, b):
    return all(a[k][0] <= b[k][1] and a[k][1] >= b[k][0] for k in range(3))


def oracle_history(ops, res):
    """Property oracle, independent of the model. Returns list of (what, detail)."""
    bad = []
    inserted = []      # (box, ext)
    for op, r in zip(ops, res):
        if not r.get("ok"):
            bad.append(("raised", {"op": op["op"], "err": r.get("err"), "msg": r.get("msg")}))
            return bad
        if op["op"] == "ins":
            ext = op["ext"] if op["ext"] is not None else [-1] * len(op["boxes"])
            inserted += [(tuple(map(tuple, b)), e) for b, e in zip(op["boxes"], ext)]
        st = r.get("state")
        if op["op"] == "q":
            got = sorted((tuple(map(tuple, st["aabbs"][i])), st["ext"][i])
                         if (0 <= i < len(st["aabbs"]) and i < len(st["ext"])) else (("oob",), i) for i in r["res"])
            want = sorted((b, e) for (b, e) in inserted if overlap(b, op["box"]))
            if got != want:
                bad.append(("query", {"box": op["box"], "got": got, "want": want}))
            if len(set(r["res"])) != len(r["res"]):
                bad.append(("query-duplicate", {"res": r["res"]}))
            if r["flag"] != (len(want) > 0):
                bad.append(("query-flag", {"flag": r["flag"], "n": len(want)}))
        if op["op"] == "qt":
            ins2 = []
            for o2 in op["other"]:
                ext = o2["ext"] if o2["ext"] is not None else [-1] * len(o2["boxes"])
                ins2 += [(tuple(map(tuple, b)), e) for b, e in zip(o2["boxes"], ext)]
            st2 = r["state2"]
            try:
                got = sorted(((tuple(map(tuple, st["aabbs"][i])), st["ext"][i]),
                              (tuple(map(tuple, st2["aabbs"][j])), st2["ext"][j])) for i, j in r["pairs"])
            except IndexError:
                got = "index out of range in pairs"
            want = sorted((x, y) for x in inserted for y in ins2 if overlap(x[0], y[0]))
            if got != want:
                bad.append(("tree-query", {"got": str(got)[:400], "want": str(want)[:400]}))
            elif (sorted(set(i for i, _ in r["pairs"])) != sorted(r["u1"])
                  or sorted(set(j for _, j in r["pairs"])) != sorted(r["u2"])):
                bad.append(("tree-query-unique", {"u1": r["u1"], "u2": r["u2"]}))
    return bad


# ------------------------------------------------------------------ check steps
def run_histories(ctx, hists, engine_results=None, tag="interp"):
    """correspondence + wfCheck + oracle on a list of (stream, ops)."""
    drv = core.Driver("c05-" + tag)
    plan = []
    for stream, ops in hists:
        res = engine_results[len(plan)] if engine_results is not None else impl_run(ops)
        cid = drv.add("C05.hist.fixed", "F", enc_history(ops))
        wf_ids = []
        for op, r in zip(ops, res):
            if r.get("ok") and "state" in r:
                wf_ids.append(drv.add("C05.wf", "F", enc_state(r["state"])))
            else:
                wf_ids.append(None)
        plan.append((stream, ops, res, cid, wf_ids))
    out = drv.run()
    for stream, ops, res, cid, wf_ids in plan:
        nins = sum(1 for o in ops if o["op"] == "ins" and o["boxes"])
        nq = sum(1 for o in ops if o["op"] in ("q", "qt"))
        key = norm(" ".join(enc_history(ops)))
        ctx.count(stream + ":" + tag, key=key, nontrivial=(nins >= 1 and nq >= 1),
                  sample={"stream": stream, "ops": [o["op"] + ((":" + o["mode"] + ":%d" % len(o["boxes"])) if o["op"] == "ins" else "")
                                                    for o in ops]})
        # --- oracle first (independent of the model)
        bad = oracle_history(ops, res)
        for what, detail in bad:
            ctx.fail("AabbTree:" + what, {"ops": ops}, detail, "brute force over all inserted boxes",
                     "closed-interval brute force", engine=tag)
        # --- correspondence with the array model
        mout = out.get(cid, "bad missing")
        mparts = [norm(x) for x in mout.split(" | ")]
        has_tie = False
        for k, (op, r) in enumerate(zip(ops, res)):
            has_tie = has_tie or (op["op"] == "ins" and op.get("tie"))
            m = mparts[k] if k < len(mparts) else "missing"
            ctx.branch("op", op["op"] + ("/" + op["mode"] if op["op"] == "ins" else ""))
            if not r.get("ok"):
                if not (m.startswith("err") and m.split()[1] == r["err"]):
                    ctx.broke("correspondence", "AabbTree." + op["op"],
                              "implementation raised %s (%s), model says %s" % (r["err"], r.get("msg"), m[:80]),
                              {"ops": ops})
                break
            if op["op"] == "ins":
                if m != "ok":
                    ctx.broke("correspondence", "AabbTree.insert_aabbs", "model: %s, implementation ok" % m[:80],
                              {"ops": ops})
                    break
            elif op["op"] == "dump" and not has_tie:
                want = norm(model_dump_tokens(r["state"]))
                if m != want:
                    ctx.broke("correspondence", "AabbTree state after insert",
                              "arrays differ from the array-level model: impl=%s model=%s" % (want[:300], m[:300]),
                              {"ops": ops})
                    break
            elif op["op"] == "q" and not has_tie:
                # canonicalised: the property (and query_exact) speak about the SET of indices, the
                # traversal order is not observable behaviour we hold the code to
                want = norm("ok %d %s" % (len(r["res"]), " ".join(str(i) for i in sorted(r["res"]))))
                mp = m.split()
                if len(mp) >= 2 and mp[0] == "ok":
                    m = norm("ok %s %s" % (mp[1], " ".join(str(i) for i in sorted(int(x) for x in mp[2:]))))
                if m != want:
                    ctx.broke("correspondence", "query_overlap", "impl=%s model=%s" % (want[:200], m[:200]),
                              {"ops": ops})
                    break
            elif op["op"] == "qt" and not has_tie and not any(o.get("tie") for o in op["other"]):
                flat = " ".join("%d %d" % (a, b) for a, b in sorted(map(tuple, r["pairs"])))
                want = norm("ok %d %s" % (len(r["pairs"]), flat))
                mp = m.split()
                if len(mp) >= 2 and mp[0] == "ok":
                    nums = [int(x) for x in mp[2:]]
                    prs = sorted(zip(nums[0::2], nums[1::2]))
                    m = norm("ok %s %s" % (mp[1], " ".join("%d %d" % pr for pr in prs)))
                if m != want:
                    ctx.broke("correspondence", "query_overlap_of_other_tree",
                              "impl=%s model=%s" % (want[:200], m[:200]), {"ops": ops})
                    break
            # --- Lean-verified well-formedness of the implementation's arrays
            wid = wf_ids[k]
            if wid is not None:
                w = out.get(wid, "bad missing")
                ninserted = sum(len(o["boxes"]) for o in ops[:k + 1] if o["op"] == "ins")
                if ninserted == 0:
                    good = (w == "ok empty")
                else:
                    parts = w.split()
                    good = (len(parts) >= 3 and parts[1] == "tree" and int(parts[2]) == ninserted)
                ctx.branch("wf", w.split()[1] if len(w.split()) > 1 else w)
                if not good:
                    ctx.broke("correspondence", "wfCheck(implementation arrays)",
                              "wfCheck says %s after op %d (%d boxes inserted): query_exact's hypothesis is not met"
                              % (w[:120], k, ninserted), {"ops": ops})
                    break


def gen_all(ctx, n):
    hists = []
    for i in range(n):
        r = ctx.rng.random()
        stream = "L" if r < 0.4 else ("G" if r < 0.65 else ("M" if r < 0.8 else ctx.rng.choice(["F0", "F1", "F2", "F3"])))
        hists.append((stream, gen_history(ctx.rng, stream)))
    return hists


def corpus():
    """minimised past failures and hand-written edge histories; run first"""
    b = lambda x0, x1: [[x0, x1], [0, 1], [0, 1]]  # noqa
    two_sorted = [
        {"op": "ins", "mode": "sort", "boxes": [b(3, 4), b(0, 1)], "ext": [1, 2], "shuffle_seed": 0, "tie": False, "single": False},
        {"op": "dump"},
        {"op": "ins", "mode": "sort", "boxes": [b(9, 10), b(5, 6), b(7, 8), b(-3, -2)], "ext": [3, 4, 5, 6], "shuffle_seed": 0, "tie": False, "single": False},
        {"op": "dump"},
        {"op": "q", "box": b(-5, 20)},
        {"op": "ins", "mode": "sort", "boxes": [b(2, 2)], "ext": None, "shuffle_seed": 0, "tie": False, "single": False},
        {"op": "q", "box": b(2, 2)},
    ]
    empty = [{"op": "q", "box": b(0, 1)}, {"op": "qt", "other": []}, {"op": "dump"}]
    empty_other = [
        {"op": "ins", "mode": "none", "boxes": [b(0, 1)], "ext": [7], "shuffle_seed": 0, "tie": False, "single": True},
        {"op": "qt", "other": []}, {"op": "q", "box": b(1, 2)}, {"op": "q", "box": b(1.5, 2)}]
    # a chain: boxes inserted in spatial order give a one-sided tree whose depth is the number of leaves
    # (the tree is never rebalanced); queries must reach the deep end
    chain = [{"op": "ins", "mode": "none", "boxes": [b(2 * k, 2 * k + 1) for k in range(150)], "ext": list(range(150)),
              "shuffle_seed": 0, "tie": False, "single": False},
             {"op": "q", "box": b(-1, 400)}, {"op": "q", "box": b(298, 299)}, {"op": "q", "box": b(0, 1)},
             {"op": "qt", "other": [{"op": "ins", "mode": "none", "boxes": [b(2 * k + 0.5, 2 * k + 2.5) for k in range(0, 150, 7)],
                                     "ext": None, "shuffle_seed": 0, "tie": False, "single": False}]}]
    return [("L", two_sorted), ("M", empty), ("M", empty_other), ("L", chain)]


def exhaustive_overlap(ctx):
    """aabb_overlap / _merge_aabb / _aabb_volume on all box pairs over a 3-value lattice (1-D intervals
    [lo,hi] with lo<=hi from {0,1,2}: 6 intervals, 6^3 boxes, 216^2 pairs) — quick: a random 4000 of them."""
    from distance3d.aabb_tree import aabb_overlap, _merge_aabb, _aabb_volume
    iv = [(a, b) for a in (0, 1, 2) for b in (0, 1, 2) if a <= b]
    boxes = [[list(x), list(y), list(z)] for x in iv for y in iv for z in iv]
    pairs = list(itertools.product(range(len(boxes)), repeat=2))
    if not ctx.thorough:
        pairs = ctx.rng.sample(pairs, 4000)
    drv = core.Driver("c05-ov")
    ids = []
    for (i, j) in pairs:
        a, b = np.array(boxes[i], dtype=float), np.array(boxes[j], dtype=float)
        ov = bool(aabb_overlap(a, b))
        mg = _merge_aabb(a, b)
        vol = float(_aabb_volume(mg))
        c1 = drv.add("C05.overlap", "F", enc_box(boxes[i]) + enc_box(boxes[j]))
        c2 = drv.add("C05.merge", "F", enc_box(boxes[i]) + enc_box(boxes[j]))
        ids.append((i, j, ov, mg, vol, c1, c2))
        ctx.count("overlap-lattice", key=("ov", i, j))
        if ov != overlap(boxes[i], boxes[j]):
            ctx.fail("aabb_overlap", {"a": boxes[i], "b": boxes[j]}, ov, not ov, "closed-interval test")
    out = drv.run()
    for (i, j, ov, mg, vol, c1, c2) in ids:
        if out.get(c1) != "ok %d" % (1 if ov else 0):
            ctx.broke("correspondence", "aabb_overlap", "impl=%s model=%s" % (ov, out.get(c1)),
                      {"a": boxes[i], "b": boxes[j]})
        want = "ok " + " ".join(enc_box(mg.tolist())) + " " + f2h(vol)
        if norm(out.get(c2, "")) != want:
            ctx.broke("correspondence", "_merge_aabb/_aabb_volume", "impl=%s model=%s" % (want, out.get(c2)),
                      {"a": boxes[i], "b": boxes[j]})
    ctx.extra["overlap_lattice_exhaustive"] = bool(ctx.thorough)


def correspondence(ctx):
    run_histories(ctx, corpus(), tag="interp")
    n = ctx.budget(250, 6000)
    run_histories(ctx, gen_all(ctx, n), tag="interp")
    exhaustive_overlap(ctx)
    if ctx.thorough:
        hists = gen_all(ctx, 1500) + corpus()
        res = core.run_engine("c05", [ops for _, ops in hists], jit=True)
        if isinstance(res, dict):
            ctx.broke("correspondence", "JIT engine", res.get("engine_error"))
        else:
            run_histories(ctx, hists, engine_results=res, tag="jit")


def search(ctx):
    """brute-force oracle on larger random histories (real code only; the oracle is in run_histories too)"""
    from distance3d.aabb_tree import all_aabbs_overlap
    n = ctx.budget(60, 1500) * (3 if ctx.extra.get("search_boost") else 1)
    for _ in range(n):
        stream = ctx.rng.choice(["L", "G"])
        ext_counter = [100]
        ops = []
        for _b in range(ctx.rng.choice([1, 2, 3])):
            ops.append(gen_ins(ctx.rng, stream, ext_counter, nmax=ctx.rng.choice([8, 20, 40])))
        mk = lattice_box if stream == "L" else general_box
        for _q in range(4):
            ops.append({"op": "q", "box": mk(ctx.rng)})
        c2 = [200000]
        ops.append({"op": "qt", "other": [gen_ins(ctx.rng, stream, c2, nmax=12) for _ in range(2)]})
        res = impl_run(ops)
        ctx.count("search:" + stream, key=norm(" ".join(enc_history(ops))))
        for what, detail in oracle_history(ops, res):
            ctx.fail("AabbTree:" + what, {"ops": ops}, detail, "brute force over all inserted boxes",
                     "closed-interval brute force")
        # brute-force broad phase of the library itself must agree with the tree (C16 relies on it)
        last = res[-1]
        if last.get("ok"):
            st, st2 = last["state"], last["state2"]
            leaves1 = [i for i, row in enumerate(st["nodes"]) if row[3] == 1]
            leaves2 = [j for j, row in enumerate(st2["nodes"]) if row[3] == 1]
            if leaves1 and leaves2:
                a1 = np.array([st["aabbs"][i] for i in leaves1], dtype=float)
                a2 = np.array([st2["aabbs"][j] for j in leaves2], dtype=float)
                _, _, bp = all_aabbs_overlap(a1, a2)
                bf = sorted((leaves1[i], leaves2[j]) for i, j in bp)
                if bf != sorted((a, b) for a, b in last["pairs"]):
                    ctx.fail("all_aabbs_overlap vs tree", {"ops": ops}, str(bf)[:300], str(last["pairs"])[:300],
                             "library brute force vs tree")


def replay(ctx, payload):
    ops = payload.get("args", {}).get("ops")
    if ops is None:
        for b in payload.get("broken", []):
            if b.get("seed_input") and "ops" in b["seed_input"]:
                ops = b["seed_input"]["ops"]
                break
    if ops is None:
        print("replay file names no input:", payload.get("broken"))
        return False
    res = impl_run(ops)
    bad = oracle_history(ops, res)
    for what, detail in bad:
        print("FAIL", what, str(detail)[:500])
    return not bad
