"""C10 — primitive distance functions return points on their primitives, consistently.

Python half of the vertical: generators for the primitive domain P (lattice + general stream),
a watchdog-guarded caller for the 34 functions of distance3d.distance, an independent
definition-level oracle (membership / consistency / d = 0 => coincidence) and the failing-input
search.  The Lean-model correspondence part lives in `correspondence` (filled by the Lean vertical)
and uses the reusable API of this file: FUNCS, gen_case, call_impl, oracle, finding_for, check_case.
"""
import json
import math
import os
import signal

import numpy as np

import core

# ============================================================================ manifest texts
RULE = ("per function of distance3d.distance (34) two generator streams from one PRNG: lattice 'L' (half-integer "
        "coordinates, sizes from {0.5,1,1.5,2,3,4}, signed axis permutations and 3-4-5 / 7-24-25 rotations, second "
        "primitive attached to a feature point (vertex, edge, face, centre, axis, surface point) of the first with "
        "an aligned frame: exactly parallel / perpendicular / coplanar / touching / contained / coincident "
        "placements) and general 'G' (sizes log-uniform in [0.2,1e2], anchors within 1e3 of the origin, random "
        "rotations, near/far offsets, engineered degenerate placements in floats and tiny perturbations of them); "
        "a case is non-trivial if the call returns; distinct = distinct (function, argument tuple)")
EXPLANATION = ("every generated case is executed on the real code under a watchdog and judged by a definition-level "
               "oracle that does not share code with the library: no exception / timeout, all outputs finite, d >= 0, "
               "each returned point within 1e-9*L of its primitive (line: cross product, segment: clamped projection, "
               "plane: signed offset, triangle: exact point-triangle distance via barycentric test and edges, "
               "rectangle / box: clamping in the local frame, circle / disk: plane offset and radial offset, "
               "ellipsoid and cylinder: solid), | |p1-p2| - d | <= 1e-6*L, and d == 0 => |p1-p2| <= 1e-9*L, "
               "with L = max(1, largest feature size, centre distance)")
PARTIAL = {}
ASSUMPTIONS = [
    "point_to_ellipsoid is called with its default distance_to_surface=False, i.e. the ellipsoid is the solid body; "
    "plane_to_ellipsoid / plane_to_cylinder / point_to_cylinder / point_to_box / *_to_box treat solids as well "
    "(segments between support points / clamped local coordinates)",
    "triangles of the general stream have all edges and all altitudes in [0.2, 1e2] (altitude counted as a feature size)",
    "centre of a scene primitive = anchor point (point, line_point, plane_point), midpoint (segment), centroid "
    "(triangle) or centre (others); L = max(1, feature sizes, distance of the two centres)",
]
TRUSTED = [
    "oracle of harness/props/c10.py (numpy float64, definition-level membership tests; ellipsoid membership by "
    "first-order (Sampson) distance of the implicit function, exact to second order in the residual)",
    "signal.setitimer watchdog (5 s per call) as the hang detector",
]
MANIFEST = dict(
    text=("Failing-input search over all 34 functions of distance3d.distance with an independent definition-level "
          "oracle for C10 (finite d >= 0, returned points members of their primitives within 1e-9*L, "
          "| |p1-p2| - d | <= 1e-6*L, d = 0 => points coincide; no exception, hang or NaN) on lattice-degenerate and "
          "general placements of well-formed primitives; recorded defects are replayed on every run."),
    note=("trusted: the oracle and the generators of harness/props/c10.py; sampling cannot show absence of failing "
          "inputs; known defects are listed in known_findings.d/C10.json and only failures inside their narrowly "
          "defined input class carry the finding id."),
    technique="definition-level oracle + lattice/general failing-input search on the real code",
    design="§7 C10")

TOL_MEMBER = 1e-9
TOL_DIST = 1e-6

# ============================================================================ function table
# roles of the parameters of each primitive kind, in the order the library uses them
ROLES = {
    "point": ["p"],
    "line": ["p", "d"],
    "segment": ["a", "b"],
    "plane": ["p", "n"],
    "triangle": ["v"],
    "rectangle": ["c", "axes", "lengths"],
    "circle": ["c", "r", "n"],
    "disk": ["c", "r", "n"],
    "box": ["pose", "size"],
    "ellipsoid": ["pose", "radii"],
    "cylinder": ["pose", "r", "l"],
}
_BASE_NAMES = {
    "point": ["point"],
    "line": ["line_point", "line_direction"],
    "segment": ["segment_start", "segment_end"],
    "plane": ["plane_point", "plane_normal"],
    "triangle": ["triangle_points"],
    "rectangle": ["rectangle_center", "rectangle_axes", "rectangle_lengths"],
    "circle": ["center", "radius", "normal"],
    "disk": ["center", "radius", "normal"],
    "box": ["box2origin", "size"],
    "ellipsoid": ["ellipsoid2origin", "radii"],
    "cylinder": ["cylinder2origin", "radius", "length"],
}
_SCALAR_ROLES = {"r", "l"}


def _spec(k1, k2, ret="d,p1,p2", names1=None, names2=None):
    n1 = list(names1 or _BASE_NAMES[k1])
    n2 = list(names2 or _BASE_NAMES[k2])
    if k1 == k2 and names1 is None and names2 is None:
        n1 = [n + "1" for n in n1]
        n2 = [n + "2" for n in n2]
    return {"kinds": (k1, k2), "params": (n1, n2), "ret": ret}


# ret "d,p2": the function returns (d, closest point on the second primitive); the first point is the input point.
# ret "d,p1,p2": (d, closest point on first primitive, closest point on second primitive).
FUNCS = {
    "point_to_line": _spec("point", "line", "d,p2"),
    "point_to_line_segment": _spec("point", "segment", "d,p2"),
    "point_to_plane": _spec("point", "plane", "d,p2"),
    "point_to_triangle": _spec("point", "triangle", "d,p2"),
    "point_to_rectangle": _spec("point", "rectangle", "d,p2"),
    "point_to_disk": _spec("point", "disk", "d,p2"),
    "point_to_circle": _spec("point", "circle", "d,p2"),
    "point_to_box": _spec("point", "box", "d,p2"),
    "point_to_ellipsoid": _spec("point", "ellipsoid", "d,p2"),
    "point_to_cylinder": _spec("point", "cylinder", "d,p2"),
    "line_to_line": _spec("line", "line"),
    "line_to_line_segment": _spec("line", "segment"),
    "line_to_plane": _spec("line", "plane"),
    "line_to_triangle": _spec("line", "triangle"),
    "line_to_rectangle": _spec("line", "rectangle"),
    "line_to_circle": _spec("line", "circle"),
    "line_to_box": _spec("line", "box"),
    "line_segment_to_line_segment": _spec("segment", "segment"),
    "line_segment_to_plane": _spec("segment", "plane"),
    "line_segment_to_triangle": _spec("segment", "triangle"),
    "line_segment_to_rectangle": _spec("segment", "rectangle"),
    "line_segment_to_circle": _spec("segment", "circle"),
    "line_segment_to_box": _spec("segment", "box"),
    "plane_to_plane": _spec("plane", "plane"),
    "plane_to_triangle": _spec("plane", "triangle"),
    "plane_to_rectangle": _spec("plane", "rectangle"),
    "plane_to_box": _spec("plane", "box"),
    "plane_to_ellipsoid": _spec("plane", "ellipsoid"),
    "plane_to_cylinder": _spec("plane", "cylinder"),
    "triangle_to_triangle": _spec("triangle", "triangle"),
    "triangle_to_rectangle": _spec("triangle", "rectangle"),
    "rectangle_to_rectangle": _spec("rectangle", "rectangle"),
    "rectangle_to_box": _spec("rectangle", "box"),
    "disk_to_disk": _spec("disk", "disk"),
}
assert len(FUNCS) == 34


def split_args(fname, args):
    """args (JSON dict) -> two role dicts of numpy arrays / floats, one per primitive."""
    spec = FUNCS[fname]
    out = []
    for kind, names in zip(spec["kinds"], spec["params"]):
        d = {"kind": kind}
        for role, name in zip(ROLES[kind], names):
            v = args[name]
            d[role] = float(v) if role in _SCALAR_ROLES else np.array(v, dtype=np.float64)
        out.append(d)
    return out


# ============================================================================ calling the implementation
class _Watchdog(Exception):
    pass


def _on_alarm(signum, frame):
    raise _Watchdog()


def _to_call_args(fname, args):
    spec = FUNCS[fname]
    call = []
    for kind, names in zip(spec["kinds"], spec["params"]):
        for role, name in zip(ROLES[kind], names):
            v = args[name]
            if role in _SCALAR_ROLES:
                call.append(float(v))
            else:
                call.append(np.ascontiguousarray(np.array(v, dtype=np.float64)))
    return call


def _raw_repr(x):
    try:
        return core.jsonable(list(x) if isinstance(x, tuple) else x)
    except Exception:  # noqa
        return repr(x)[:300]


def call_impl(fname, args, timeout_s=5):
    """Call distance3d.distance.<fname> on JSON args (fresh float64 C-contiguous copies) under a watchdog."""
    import distance3d.distance as dd
    fn = getattr(dd, fname)
    call = _to_call_args(fname, args)
    old = signal.signal(signal.SIGALRM, _on_alarm)
    signal.setitimer(signal.ITIMER_REAL, timeout_s)
    try:
        with np.errstate(all="ignore"):
            raw = fn(*call)
    except _Watchdog:
        return {"ok": False, "err": "timeout", "msg": "no return within %s s" % timeout_s}
    except Exception as e:  # noqa
        return {"ok": False, "err": type(e).__name__, "msg": str(e)[:300]}
    finally:
        signal.setitimer(signal.ITIMER_REAL, 0)
        signal.signal(signal.SIGALRM, old)
    spec = FUNCS[fname]
    try:
        if spec["ret"] == "d,p2":
            d, p2 = raw
            p1 = np.array(args[spec["params"][0][0]], dtype=np.float64)
        else:
            d, p1, p2 = raw
        d = float(d)
        p1 = np.array(p1, dtype=np.float64).reshape(-1)
        p2 = np.array(p2, dtype=np.float64).reshape(-1)
        if p1.shape != (3,) or p2.shape != (3,):
            raise ValueError("closest points are not 3-vectors")
    except Exception as e:  # noqa
        return {"ok": False, "err": "BadReturn", "msg": "%s: %s" % (type(e).__name__, str(e)[:200]),
                "raw": _raw_repr(raw)}
    return {"ok": True, "d": d, "p1": p1.tolist(), "p2": p2.tolist(), "raw": _raw_repr(raw)}


# ============================================================================ oracle
def _norm(v):
    return math.sqrt(float(v[0]) ** 2 + float(v[1]) ** 2 + float(v[2]) ** 2)


def _dist_point_segment(p, a, b):
    ab = b - a
    den = float(ab.dot(ab))
    t = 0.0 if den == 0.0 else min(1.0, max(0.0, float((p - a).dot(ab)) / den))
    return _norm(p - (a + t * ab))


def _dist_point_triangle(p, v):
    a, b, c = v[0], v[1], v[2]
    ab, ac = b - a, c - a
    n = np.cross(ab, ac)
    nn = float(n.dot(n))
    best = min(_dist_point_segment(p, a, b), _dist_point_segment(p, b, c), _dist_point_segment(p, c, a))
    if nn > 0.0:
        ap = p - a
        # barycentric coordinates of the orthogonal projection
        w2 = float(np.cross(ab, ap).dot(n)) / nn
        w1 = float(np.cross(ap, ac).dot(n)) / nn
        w0 = 1.0 - w1 - w2
        if w0 >= 0.0 and w1 >= 0.0 and w2 >= 0.0:
            best = min(best, abs(float(ap.dot(n))) / math.sqrt(nn))
    return best


def _pose(pr):
    T = pr["pose"]
    return T[:3, :3], T[:3, 3]


def membership_residual(pr, p):
    """distance-like residual of point p to the primitive (0 = member); definition level."""
    k = pr["kind"]
    if k == "point":
        return _norm(p - pr["p"])
    if k == "line":
        d = pr["d"]
        return _norm(np.cross(p - pr["p"], d)) / max(_norm(d), 1e-300)
    if k == "segment":
        return _dist_point_segment(p, pr["a"], pr["b"])
    if k == "plane":
        return abs(float(pr["n"].dot(p - pr["p"]))) / max(_norm(pr["n"]), 1e-300)
    if k == "triangle":
        return _dist_point_triangle(p, pr["v"])
    if k == "rectangle":
        ax = pr["axes"]
        q = p - pr["c"]
        x0, x1 = float(ax[0].dot(q)), float(ax[1].dot(q))
        n = np.cross(ax[0], ax[1])
        h = float(n.dot(q))
        e0 = max(0.0, abs(x0) - 0.5 * float(pr["lengths"][0]))
        e1 = max(0.0, abs(x1) - 0.5 * float(pr["lengths"][1]))
        return math.sqrt(e0 * e0 + e1 * e1 + h * h)
    if k in ("circle", "disk"):
        q = p - pr["c"]
        h = float(pr["n"].dot(q))
        rho = _norm(q - h * pr["n"])
        e = rho - pr["r"]
        if k == "disk":
            e = max(0.0, e)
        return math.sqrt(h * h + e * e)
    if k == "box":
        R, t = _pose(pr)
        x = R.T.dot(p - t)
        e = np.maximum(0.0, np.abs(x) - 0.5 * pr["size"])
        return _norm(e)
    if k == "ellipsoid":
        R, t = _pose(pr)
        x = R.T.dot(p - t)
        r = pr["radii"]
        F = float(np.sum((x / r) ** 2)) - 1.0
        if F <= 0.0:
            return 0.0
        g = 2.0 * x / (r * r)
        return F / max(_norm(g), 1e-300)
    if k == "cylinder":
        R, t = _pose(pr)
        x = R.T.dot(p - t)
        rho = math.hypot(float(x[0]), float(x[1]))
        e0 = max(0.0, rho - pr["r"])
        e1 = max(0.0, abs(float(x[2])) - 0.5 * pr["l"])
        return math.hypot(e0, e1)
    raise KeyError(k)


def _centre(pr):
    k = pr["kind"]
    if k in ("point", "line", "plane"):
        return pr["p"]
    if k == "segment":
        return 0.5 * (pr["a"] + pr["b"])
    if k == "triangle":
        return pr["v"].sum(axis=0) / 3.0
    if k in ("rectangle", "circle", "disk"):
        return pr["c"]
    return pr["pose"][:3, 3]


def _sizes(pr):
    k = pr["kind"]
    if k == "segment":
        return [_norm(pr["b"] - pr["a"])]
    if k == "triangle":
        v = pr["v"]
        return [_norm(v[1] - v[0]), _norm(v[2] - v[1]), _norm(v[0] - v[2])]
    if k == "rectangle":
        return [float(x) for x in pr["lengths"]]
    if k in ("circle", "disk"):
        return [pr["r"]]
    if k == "box":
        return [float(x) for x in pr["size"]]
    if k == "ellipsoid":
        return [float(x) for x in pr["radii"]]
    if k == "cylinder":
        return [pr["r"], pr["l"]]
    return []


def scene_scale(fname, args):
    """L = max(1, largest feature size or centre distance of the scene)."""
    a, b = split_args(fname, args)
    return max([1.0, _norm(_centre(a) - _centre(b))] + _sizes(a) + _sizes(b))


def oracle(fname, args, res):
    """C10 on one evaluated case. Returns list of problem dicts (empty = property holds)."""
    if not res.get("ok"):
        what = "timeout" if res.get("err") == "timeout" else (
            "bad-return" if res.get("err") == "BadReturn" else "raised")
        return [{"what": what, "detail": {"err": res.get("err"), "msg": res.get("msg")}}]
    d = res["d"]
    p1 = np.array(res["p1"], dtype=np.float64)
    p2 = np.array(res["p2"], dtype=np.float64)
    if not (math.isfinite(d) and np.all(np.isfinite(p1)) and np.all(np.isfinite(p2))):
        return [{"what": "non-finite", "detail": {"d": d, "p1": res["p1"], "p2": res["p2"]}}]
    probs = []
    A, B = split_args(fname, args)
    L = max([1.0, _norm(_centre(A) - _centre(B))] + _sizes(A) + _sizes(B))
    if d < 0.0:
        probs.append({"what": "negative-distance", "detail": {"d": d}})
    for which, pr, p in (("p1", A, p1), ("p2", B, p2)):
        r = membership_residual(pr, p)
        if not (r <= TOL_MEMBER * L):
            probs.append({"what": "%s-not-on-%s" % (which, pr["kind"]),
                          "detail": {"residual": r, "tol": TOL_MEMBER * L, "L": L}})
    gap = _norm(p1 - p2)
    if not (abs(gap - d) <= TOL_DIST * L):
        probs.append({"what": "distance-inconsistent",
                      "detail": {"|p1-p2|": gap, "tol": TOL_DIST * L, "L": L}})
    if d == 0.0 and not (gap <= TOL_MEMBER * L):
        probs.append({"what": "zero-distance-distinct-points",
                      "detail": {"|p1-p2|": gap, "tol": TOL_MEMBER * L, "L": L}})
    for pb in probs:
        pb["detail"].update({"d": d, "p1": res["p1"], "p2": res["p2"]})
    return probs


ORACLE_DESCRIPTION = ("C10 definition-level oracle: no exception/timeout, finite outputs, d >= 0, each returned point "
                      "within 1e-9*L of its primitive, | |p1-p2| - d | <= 1e-6*L, d == 0 => |p1-p2| <= 1e-9*L")
EXPECTED = "finite d >= 0, member points, |p1-p2| = d within 1e-6*L, d = 0 => coincident points"


# ============================================================================ known findings (input classes)
def _known_list():
    path = os.path.join(core.VERIF, "known_findings.d", "C10.json")
    if not os.path.exists(path):
        return []
    return [k for k in json.load(open(path)) if k.get("property") == "C10" and k.get("status") == "known"]


def finding_for(fname, args, problems):
    """Finding id iff the failure is exactly a recorded defect class (function + input predicate + symptom)."""
    if not problems:
        return None
    for fid, pred in _FINDING_CLASSES:
        try:
            if pred(fname, args, problems):
                return fid
        except Exception:  # noqa
            continue
    return None


def _whats(problems):
    return sorted(p["what"] for p in problems)


def _detail(problems, what):
    for p in problems:
        if p["what"] == what:
            return p["detail"]
    return None


def _v(args, name):
    return np.array(args[name], dtype=np.float64)


def _supporting_line(fname, args):
    """(point, unit direction) of the line argument, or of the line through the segment argument"""
    if fname.startswith("line_segment_to_"):
        a, b = _v(args, "segment_start"), _v(args, "segment_end")
        return a, (b - a) / np.linalg.norm(b - a)
    return _v(args, "line_point"), _v(args, "line_direction")


# ---- disk_to_disk ---------------------------------------------------------------------------------------------
def _disk_pluecker(args):
    c1, n1, c2, n2 = _v(args, "center1"), _v(args, "normal1"), _v(args, "center2"), _v(args, "normal2")
    cr = np.cross(n1, n2)
    mom = n1 * float(c2.dot(n2)) - n2 * float(c1.dot(n1))
    return c1, n1, c2, n2, cr, mom


def _cls_disk_parallel_origin(fname, args, problems):
    """exactly parallel normals (n1 x n2 == 0 in floats), planes >= 1e-4 apart, origin within both radii of both
    centres: the degenerate Pluecker line (0, 0) makes the function return the ORIGIN for both points with d = 0."""
    if fname != "disk_to_disk" or not set(_whats(problems)) <= {"p1-not-on-disk", "p2-not-on-disk"}:
        return False
    c1, n1, c2, n2, cr, mom = _disk_pluecker(args)
    return (not cr.any() and float(mom.dot(mom)) >= 1e-8
            and np.linalg.norm(c1) < args["radius1"] and np.linalg.norm(c2) < args["radius2"])


def _cls_disk_near_coplanar(fname, args, problems):
    """the 'same plane' test (|n1 x n2|^2 < 1e-8 and |moment|^2 < 1e-8) accepts disks that are not exactly coplanar;
    the returned rim points c1 + r1*u, c2 - r2*u (u = unit(c2 - c1)) then leave the disks' planes."""
    if fname != "disk_to_disk" or not set(_whats(problems)) <= {"p1-not-on-disk", "p2-not-on-disk"}:
        return False
    c1, n1, c2, n2, cr, mom = _disk_pluecker(args)
    same_plane_test = float(cr.dot(cr)) < 1e-8 and float(mom.dot(mom)) < 1e-8
    exactly_coplanar = (not cr.any()) and float(n1.dot(c2 - c1)) == 0.0
    return same_plane_test and not exactly_coplanar


def _cls_disk_midpoint(fname, args, problems):
    """non-parallel planes, both centres within 1e-8 of the common line of the two planes (h1 + h2 <= 1e-8) and
    centre distance <= r1 + r2: the function returns the midpoint of the centres for both disks with d = 0, which is
    outside the smaller disk when |c2 - c1| > 2*min(r1, r2) and off the planes when the centres are only nearly on
    the common line."""
    if fname != "disk_to_disk" or not set(_whats(problems)) <= {"p1-not-on-disk", "p2-not-on-disk"}:
        return False
    c1, n1, c2, n2, cr, mom = _disk_pluecker(args)
    s2 = float(cr.dot(cr))
    if s2 < 1e-8:
        return False
    s = math.sqrt(s2)
    h1 = abs(float(n2.dot(c1 - c2))) / s
    h2 = abs(float(n1.dot(c2 - c1))) / s
    ell = float(np.linalg.norm(c2 - c1))
    r1, r2 = float(args["radius1"]), float(args["radius2"])
    mid = 0.5 * (c1 + c2)
    is_mid = all(np.array_equal(np.array(pb["detail"][k]), mid) for pb in problems for k in ("p1", "p2"))
    return h1 + h2 <= 1e-8 * (1 + 1e-6) and ell <= (r1 + r2) * (1.0 + 1e-12) and is_mid


# ---- line / segment to box --------------------------------------------------------------------------------------
def _line_in_box_frame(fname, args):
    p, d = _supporting_line(fname, args)
    T = _v(args, "box2origin")
    R, t = T[:3, :3], T[:3, 3]
    return R.T.dot(p - t), R.T.dot(d), 0.5 * _v(args, "size")


def _line_box_slab_gap(fname, args, tol):
    """True iff the supporting line passes within ~tol of the box (slab test on the box inflated by tol)."""
    x, d, h = _line_in_box_frame(fname, args)
    lo, hi = -math.inf, math.inf
    for i in range(3):
        if d[i] == 0.0:
            if abs(x[i]) > h[i] + tol:
                return False
        else:
            t0 = (-h[i] - tol - x[i]) / d[i]
            t1 = (h[i] + tol - x[i]) / d[i]
            lo, hi = max(lo, min(t0, t1)), min(hi, max(t0, t1))
    return lo <= hi


def _cls_linebox_sqrt_negative(fname, args, problems):
    """the line (or the segment's supporting line) touches / meets the box within 1e-7*L: the squared distance
    assembled in _line_to_box._box_face is a negative rounding residue and math.sqrt raises ValueError."""
    if fname not in ("line_to_box", "line_segment_to_box") or _whats(problems) != ["raised"]:
        return False
    det = problems[0]["detail"]
    if det.get("err") != "ValueError" or "math domain error" not in str(det.get("msg")):
        return False
    return _line_box_slab_gap(fname, args, 1e-7 * scene_scale(fname, args))


def _cls_linebox_illconditioned_zero(fname, args, problems):
    """line meets the box (d = 0.0 returned, both points are members) with a direction that is almost but not
    exactly parallel to a box face (some box-frame direction component in (0, 1e-6]): the two returned points of
    the ill-conditioned intersection differ by more than 1e-9*L (but less than 1e-6*L)."""
    if fname not in ("line_to_box", "line_segment_to_box") or _whats(problems) != ["zero-distance-distinct-points"]:
        return False
    det = problems[0]["detail"]
    x, d, h = _line_in_box_frame(fname, args)
    near_parallel = any(0.0 < abs(di) <= 1e-6 for di in d)
    return near_parallel and det["|p1-p2|"] <= 1e-6 * det["L"]


# ---- circle ------------------------------------------------------------------------------------------------------
def _cls_linecircle_axis(exact):
    def pred(fname, args, problems):
        if fname not in ("line_to_circle", "line_segment_to_circle") or _whats(problems) != ["p2-not-on-circle"]:
            return False
        p, d = _supporting_line(fname, args)
        c, n = _v(args, "center"), _v(args, "normal")
        is_exact = (not np.cross(d, n).any()) and (not np.cross(p - c, n).any())
        if exact:
            # the line IS the circle's axis (both cross products vanish in floats): the circle point is
            # center + r*u with u = pytransform3d perpendicular_to_vector(normal), which is not normalised
            return is_exact
        # the line is almost parallel to the axis (sin <= 1e-3) and the returned line point lies within 1e-6*L of
        # the axis: its in-plane part is a rounding residue (or exactly 0); normalising it yields an off-plane
        # direction (or the zero vector), so the "circle point" leaves the circle
        q = np.array(problems[0]["detail"]["p1"], dtype=np.float64) - c
        rho = _norm(q - float(q.dot(n)) * n)
        s = float(np.linalg.norm(np.cross(d, n)))
        return (not is_exact) and s <= 1e-3 and rho <= 1e-6 * scene_scale(fname, args)
    return pred


def _cls_segcircle_param(fname, args, problems):
    """line_segment_to_circle recovers the line parameter of the closest point by dividing by the FIRST non-zero
    component of the segment direction; when that component is tiny (0 < |dir[k]| <= 1e-6) the parameter is
    inaccurate and a closest point beyond the segment end is accepted as lying on the segment."""
    if fname != "line_segment_to_circle" or _whats(problems) != ["p1-not-on-segment"]:
        return False
    a, b = _v(args, "segment_start"), _v(args, "segment_end")
    d = (b - a) / np.linalg.norm(b - a)
    nz = [x for x in d if x != 0.0]
    return bool(nz) and abs(nz[0]) <= 1e-6


def _in_axis_band(point, c, n):
    diff = point - c
    dip = diff - float(diff.dot(n)) * n
    s = float(dip.dot(dip))
    return 0.0 < s < 1e-6


def _cls_circle_axis_band(fname, args, problems):
    """point (or the segment end point the result is clamped to) closer than 1e-3 to the circle's axis but not on
    it: point_to_circle returns an arbitrary rim point together with d = sqrt(r^2 + h^2), which is the distance
    for a point ON the axis, not |p - rim point|."""
    if _whats(problems) != ["distance-inconsistent"]:
        return False
    if fname == "point_to_circle":
        return _in_axis_band(_v(args, "point"), _v(args, "center"), _v(args, "normal"))
    return False


def _cls_segcircle_axis_band(fname, args, problems):
    """line_segment_to_circle clamps to a segment end point and hands it to point_to_circle: same band."""
    if fname != "line_segment_to_circle" or _whats(problems) != ["distance-inconsistent"]:
        return False
    c, n = _v(args, "center"), _v(args, "normal")
    p1 = np.array(problems[0]["detail"]["p1"], dtype=np.float64)
    for e in (_v(args, "segment_start"), _v(args, "segment_end")):
        if np.array_equal(p1, e) and _in_axis_band(e, c, n):
            return True
    return False


# ---- plane to flat hull -------------------------------------------------------------------------------------------
def _cls_plane_hull_swapped(fname, args, problems):
    """plane crosses the triangle / rectangle at a shallow angle: extreme vertices v_min, v_max on opposite sides of
    the plane with ((v_max - v_min)/|..| . n)^2 < 1e-6: _line_segment_to_plane takes its 'parallel' branch and
    returns (dist, segment point, plane point); _plane_to_convex_hull_points passes that on unswapped, so the
    documented (plane point, hull point) order is reversed and d > 0 is reported for intersecting primitives."""
    if fname not in ("plane_to_triangle", "plane_to_rectangle"):
        return False
    w = set(_whats(problems))
    if not w or not w <= {"p1-not-on-plane", "p2-not-on-triangle", "p2-not-on-rectangle"}:
        return False
    p, n = _v(args, "plane_point"), _v(args, "plane_normal")
    if fname == "plane_to_triangle":
        V = _v(args, "triangle_points")
    else:
        c, ax, ln = _v(args, "rectangle_center"), _v(args, "rectangle_axes"), _v(args, "rectangle_lengths")
        V = np.array([c + sx * 0.5 * ln[0] * ax[0] + sy * 0.5 * ln[1] * ax[1]
                      for sx in (-1.0, 1.0) for sy in (-1.0, 1.0)])
    ts = (V - p).dot(n)
    i0, i1 = int(np.argmin(ts)), int(np.argmax(ts))
    if not ts[i0] * ts[i1] < 0.0:
        return False
    e = V[i1] - V[i0]
    cosang = float(e.dot(n)) / float(np.linalg.norm(e))
    return cosang * cosang < 1e-6 * (1.0 + 1e-9)


# ---- plane_to_plane -------------------------------------------------------------------------------------------------
def _cls_planeplane_illconditioned(fname, args, problems):
    """almost parallel planes just above the function's threshold (1e-6 < |n1 x n2| <= 1e-3): the common point is
    computed from Hesse distances to the ORIGIN and divided by |n1 x n2|^2, so its plane residuals are
    ~1e-16 * |distance to origin| / |n1 x n2| (> 1e-9*L, < 1e-6*L)."""
    if fname != "plane_to_plane" or not set(_whats(problems)) <= {"p1-not-on-plane", "p2-not-on-plane"}:
        return False
    s = float(np.linalg.norm(np.cross(_v(args, "plane_normal1"), _v(args, "plane_normal2"))))
    return 1e-6 < s <= 1e-3 and all(pb["detail"]["residual"] <= 1e-6 * pb["detail"]["L"] for pb in problems)


# ---- triangle_to_triangle -------------------------------------------------------------------------------------------
def _cls_tritri_eps_zero(fname, args, problems):
    """triangles whose closest features are a positive distance <= epsilon = 1e-6 apart (witnessed by the returned
    member points): the early exit `best_dist <= epsilon: return 0.0, ...` reports d = 0.0 for distinct points."""
    if fname != "triangle_to_triangle" or _whats(problems) != ["zero-distance-distinct-points"]:
        return False
    return problems[0]["detail"]["|p1-p2|"] <= 1e-6


# ---- line_to_line -------------------------------------------------------------------------------------------------------
def _cls_lineline_cancellation(fname, args, problems):
    """lines that pass within ~1e-7*|line_point1 - line_point2| of each other (witnessed by the returned member
    points): d is evaluated from the expanded quadratic form (t1*(t1 + a12*t2 + 2*b1) + ... + c, parallel branch
    c - b1^2), which cancels catastrophically, so d = 0.0 is returned for distinct closest points."""
    if fname != "line_to_line" or _whats(problems) != ["zero-distance-distinct-points"]:
        return False
    diff = _v(args, "line_point1") - _v(args, "line_point2")
    return problems[0]["detail"]["|p1-p2|"] <= 1e-7 * max(1.0, _norm(diff))


# list of (id, predicate(fname, args, problems) -> bool); first match wins
_FINDING_CLASSES = [
    ("F-c10-disk-parallel-origin", _cls_disk_parallel_origin),
    ("F-c10-disk-near-coplanar", _cls_disk_near_coplanar),
    ("F-c10-disk-midpoint", _cls_disk_midpoint),
    ("F-c10-linebox-sqrt-negative", _cls_linebox_sqrt_negative),
    ("F-c10-linebox-illcond-zero", _cls_linebox_illconditioned_zero),
    ("F-c10-linecircle-axis-exact", _cls_linecircle_axis(True)),
    ("F-c10-linecircle-axis-rounding", _cls_linecircle_axis(False)),
    ("F-c10-segcircle-param-illcond", _cls_segcircle_param),
    ("F-c10-circle-axis-band", _cls_circle_axis_band),
    ("F-c10-circle-axis-band", _cls_segcircle_axis_band),
    ("F-c10-plane-hull-swapped", _cls_plane_hull_swapped),
    ("F-c10-planeplane-illcond", _cls_planeplane_illconditioned),
    ("F-c10-tritri-eps-zero", _cls_tritri_eps_zero),
    ("F-c10-lineline-cancellation", _cls_lineline_cancellation),
]


# ============================================================================ generators
_PERMS = []
for _p in ((0, 1, 2), (0, 2, 1), (1, 0, 2), (1, 2, 0), (2, 0, 1), (2, 1, 0)):
    for _s0 in (1.0, -1.0):
        for _s1 in (1.0, -1.0):
            for _s2 in (1.0, -1.0):
                _M = np.zeros((3, 3))
                _M[0, _p[0]], _M[1, _p[1]], _M[2, _p[2]] = _s0, _s1, _s2
                if np.linalg.det(_M) > 0:
                    _PERMS.append(_M)
assert len(_PERMS) == 24
_CS = [(0.6, 0.8), (0.8, 0.6), (-0.6, 0.8), (0.8, -0.6), (0.28, 0.96), (0.96, -0.28), (-0.8, -0.6)]
_CS_AXIS = [(1.0, 0.0), (0.0, 1.0), (-1.0, 0.0), (0.0, -1.0)]
_HALF = [0.5 * i for i in range(-6, 7)]
_SIZES_L = [0.5, 1.0, 1.5, 2.0, 3.0, 4.0]
_AMOUNTS_L = [0.5, 1.0, 1.5, 2.0, 3.0]
_COEF_L = [-1.0, -0.5, 0.0, 0.5, 1.0]


def _rot_axis_cs(axis, c, s):
    M = np.eye(3)
    i, j = [(1, 2), (2, 0), (0, 1)][axis]
    M[i, i], M[i, j], M[j, i], M[j, j] = c, -s, s, c
    return M


def _rot_axis_angle(u, ang):
    u = np.asarray(u, dtype=float)
    u = u / np.linalg.norm(u)
    K = np.array([[0.0, -u[2], u[1]], [u[2], 0.0, -u[0]], [-u[1], u[0], 0.0]])
    return np.eye(3) + math.sin(ang) * K + (1.0 - math.cos(ang)) * K.dot(K)


class Src:
    """draws sizes / rotations / offsets for one stream from a random.Random"""

    def __init__(self, rng, stream):
        self.rng = rng
        self.lat = (stream == "L")
        self.scale = 1.0 if self.lat else 0.2 * 500.0 ** rng.random()

    def size(self):
        r = self.rng
        if self.lat:
            return r.choice(_SIZES_L)
        if r.random() < 0.75:
            return min(100.0, max(0.2, self.scale * 10.0 ** r.uniform(-0.7, 0.7)))
        return 0.2 * 500.0 ** r.random()

    def amount(self):
        r = self.rng
        if self.lat:
            return r.choice(_AMOUNTS_L)
        if r.random() < 0.1:
            return 10.0 ** r.uniform(1.0, 2.9)
        return self.scale * r.uniform(0.05, 2.5)

    def coef(self):
        """in [-1, 1], with the extreme and middle values frequent"""
        r = self.rng
        if self.lat or r.random() < 0.35:
            return r.choice(_COEF_L)
        return r.uniform(-1.0, 1.0)

    def cs(self):
        r = self.rng
        if self.lat:
            return r.choice(_CS_AXIS) if r.random() < 0.6 else r.choice(_CS)
        if r.random() < 0.2:
            return r.choice(_CS_AXIS)
        a = r.uniform(0.0, 2.0 * math.pi)
        return (math.cos(a), math.sin(a))

    def unit(self):
        r = self.rng
        if self.lat:
            return self.rot()[:, r.randrange(3)].copy()
        while True:
            v = np.array([r.gauss(0, 1), r.gauss(0, 1), r.gauss(0, 1)])
            n = np.linalg.norm(v)
            if n > 1e-3:
                return v / n

    def rel_rot(self):
        """rotation relative to a reference frame: aligned (signed permutation), 3-4-5, or arbitrary"""
        r = self.rng
        x = r.random()
        P = r.choice(_PERMS)
        if x < 0.55:
            return P.copy()
        if x < 0.8 or self.lat:
            c, s = r.choice(_CS) if (self.lat or r.random() < 0.3) else self.cs()
            M = P.dot(_rot_axis_cs(r.randrange(3), c, s))
            if self.lat and r.random() < 0.15:
                c, s = r.choice(_CS)
                M = M.dot(_rot_axis_cs(r.randrange(3), c, s))
            return M
        return self.rot()

    def rot(self):
        r = self.rng
        if self.lat:
            P = r.choice(_PERMS)
            x = r.random()
            if x < 0.45:
                return P.copy()
            c, s = r.choice(_CS)
            M = P.dot(_rot_axis_cs(r.randrange(3), c, s))
            if x > 0.88:
                c, s = r.choice(_CS)
                M = M.dot(_rot_axis_cs(r.randrange(3), c, s))
            return M
        if r.random() < 0.1:
            return r.choice(_PERMS).copy()
        while True:
            q = np.array([r.gauss(0, 1) for _ in range(4)])
            n = np.linalg.norm(q)
            if n > 1e-3:
                break
        w, x, y, z = q / n
        return np.array([
            [1 - 2 * (y * y + z * z), 2 * (x * y - z * w), 2 * (x * z + y * w)],
            [2 * (x * y + z * w), 1 - 2 * (x * x + z * z), 2 * (y * z - x * w)],
            [2 * (x * z - y * w), 2 * (y * z + x * w), 1 - 2 * (x * x + y * y)]])

    def origin(self):
        r = self.rng
        if self.lat:
            return np.array([r.choice(_HALF) for _ in range(3)])
        x = r.random()
        if x < 0.1:
            return np.zeros(3)
        if x < 0.45:
            return np.array([r.uniform(-1, 1) for _ in range(3)]) * self.scale * 3.0
        return self.unit() * 10.0 ** r.uniform(-1.0, 2.9)


def _tri_local(src):
    """three local vertices (z = 0), non-collinear, edges and altitudes in [0.2, 100]"""
    r = src.rng
    for _ in range(200):
        if src.lat:
            g = [0.5 * i for i in range(-4, 5)]
            P = np.array([[r.choice(g), r.choice(g), 0.0] for _ in range(3)])
        else:
            e = src.size()
            h = src.size()
            x = r.uniform(-0.7, 1.7) * e if r.random() < 0.8 else r.choice([0.0, 0.5, 1.0]) * e
            P = np.array([[0.0, 0.0, 0.0], [e, 0.0, 0.0], [x, h, 0.0]])
            c, s = src.cs()
            P = P.dot(_rot_axis_cs(2, c, s).T)
            P = P - P[r.randrange(3)] * r.choice([0.0, 1.0]) - P.mean(axis=0) * r.choice([0.0, 1.0])
        ed = [np.linalg.norm(P[1] - P[0]), np.linalg.norm(P[2] - P[1]), np.linalg.norm(P[0] - P[2])]
        area2 = abs(np.cross(P[1] - P[0], P[2] - P[0])[2])
        if min(ed) < 0.2 or max(ed) > 100.0:
            continue
        if area2 / max(ed) < 0.2:
            continue
        return P
    return np.array([[0.0, 0.0, 0.0], [1.0, 0.0, 0.0], [0.0, 1.0, 0.0]])


def build(kind, src, R, c):
    """a primitive of the given kind with local frame R (columns) and local origin c"""
    pr = {"kind": kind, "R": np.array(R, dtype=float), "c": np.array(c, dtype=float)}
    r = src.rng
    if kind == "line":
        pr["slide"] = 0.0 if r.random() < 0.5 else src.amount() * r.choice([-1.0, 1.0])
    elif kind == "segment":
        pr["h"] = 0.5 * src.size()
    elif kind == "plane":
        if r.random() < 0.5:
            pr["slide"] = (0.0, 0.0)
        else:
            pr["slide"] = (src.amount() * r.choice([-1.0, 0.0, 1.0]), src.amount() * r.choice([-1.0, 0.0, 1.0]))
    elif kind == "triangle":
        pr["vl"] = _tri_local(src)
    elif kind == "rectangle":
        pr["h"] = np.array([0.5 * src.size(), 0.5 * src.size()])
    elif kind in ("circle", "disk"):
        pr["r"] = src.size()
    elif kind == "box":
        pr["h"] = np.array([0.5 * src.size() for _ in range(3)])
    elif kind == "ellipsoid":
        pr["radii"] = np.array([src.size() for _ in range(3)])
        if r.random() < 0.15:
            pr["radii"][1] = pr["radii"][0]
        if r.random() < 0.08:
            pr["radii"][2] = pr["radii"][0]
    elif kind == "cylinder":
        pr["r"] = src.size()
        pr["h"] = 0.5 * src.size()
    return pr


def feature_local(pr, src):
    """a characteristic point of the primitive in local coordinates (+ tag)"""
    r = src.rng
    k = pr["kind"]
    z = np.zeros(3)
    if k == "point":
        return z, "pt"
    if k == "line":
        t = 0.0 if r.random() < 0.4 else src.amount() * r.choice([-1.0, 1.0])
        return np.array([0.0, 0.0, t]), "on-line"
    if k == "segment":
        t = src.coef()
        return np.array([0.0, 0.0, t * pr["h"]]), ("seg-end" if abs(t) == 1.0 else "seg-in")
    if k == "plane":
        if r.random() < 0.4:
            return z, "on-plane"
        return np.array([src.amount() * src.coef(), src.amount() * src.coef(), 0.0]), "on-plane"
    if k == "triangle":
        v = pr["vl"]
        x = r.random()
        if x < 0.3:
            return v[r.randrange(3)].copy(), "tri-vertex"
        if x < 0.6:
            i = r.randrange(3)
            t = 0.5 * (src.coef() + 1.0)
            return v[i] + t * (v[(i + 1) % 3] - v[i]), "tri-edge"
        if x < 0.8:
            w = r.choice([(0.5, 0.25, 0.25), (0.25, 0.5, 0.25), (0.25, 0.25, 0.5), (0.125, 0.125, 0.75)])
            if not src.lat and r.random() < 0.5:
                a, b = sorted([r.random(), r.random()])
                w = (a, b - a, 1.0 - b)
            return w[0] * v[0] + w[1] * v[1] + w[2] * v[2], "tri-in"
        return v.sum(axis=0) / 3.0, "tri-centroid"
    if k == "rectangle":
        a, b = src.coef(), src.coef()
        tag = "rect-corner" if abs(a) == 1 and abs(b) == 1 else ("rect-edge" if abs(a) == 1 or abs(b) == 1 else
                                                               ("rect-centre" if a == 0 and b == 0 else "rect-in"))
        return np.array([a * pr["h"][0], b * pr["h"][1], 0.0]), tag
    if k in ("circle", "disk"):
        x = r.random()
        c, s = src.cs()
        if x < 0.2:
            return z, k + "-centre"
        if x < 0.4:
            t = src.amount() * r.choice([-1.0, 1.0])
            return np.array([0.0, 0.0, t]), k + "-axis"
        if x < 0.8:
            return pr["r"] * np.array([c, s, 0.0]), k + "-rim"
        f = 0.5 if (src.lat or r.random() < 0.5) else r.random()
        return f * pr["r"] * np.array([c, s, 0.0]), k + "-inside"
    if k == "box":
        s3 = np.array([src.coef(), src.coef(), src.coef()])
        n1 = int(np.sum(np.abs(s3) == 1.0))
        tag = ["box-in", "box-face", "box-edge", "box-corner"][n1]
        if n1 == 0 and not s3.any():
            tag = "box-centre"
        return s3 * pr["h"], tag
    if k == "ellipsoid":
        x = r.random()
        rad = pr["radii"]
        if x < 0.15:
            return z, "ell-centre"
        if x < 0.35:
            i = r.randrange(3)
            e = np.zeros(3)
            e[i] = r.choice([-1.0, 1.0]) * rad[i]
            return e, "ell-tip"
        if x < 0.5:
            i = r.randrange(3)
            e = np.zeros(3)
            e[i] = r.choice([-0.5, 0.5, 0.25]) * rad[i]
            return e, "ell-axis-in"
        u = src.unit()
        if x < 0.85:
            return rad * u, "ell-surface"
        return 0.5 * rad * u, "ell-in"
    if k == "cylinder":
        c, s = src.cs()
        rho = r.choice([0.0, 0.5, 1.0, 1.0]) * pr["r"]
        zz = src.coef() * pr["h"]
        tag = "cyl-axis" if rho == 0.0 else ("cyl-rim" if rho == pr["r"] and abs(zz) == pr["h"] else
                                             ("cyl-side" if rho == pr["r"] else
                                              ("cyl-cap" if abs(zz) == pr["h"] else "cyl-in")))
        return np.array([rho * c, rho * s, zz]), tag
    raise KeyError(k)


def feature_dirs_local(pr):
    k = pr["kind"]
    dirs = [np.array([1.0, 0.0, 0.0]), np.array([0.0, 1.0, 0.0]), np.array([0.0, 0.0, 1.0])]
    if k == "triangle":
        v = pr["vl"]
        for i in range(3):
            e = v[(i + 1) % 3] - v[i]
            dirs.append(e / np.linalg.norm(e))
    return dirs


def to_world(pr, x):
    return pr["c"] + pr["R"].dot(x)


def _pose44(R, c):
    T = np.eye(4)
    T[:3, :3] = R
    T[:3, 3] = c
    return T


def prim_values(pr):
    """values of the library parameters of this primitive, in ROLES order"""
    k, R, c = pr["kind"], pr["R"], pr["c"]
    if k == "point":
        return [c]
    if k == "line":
        return [c + pr["slide"] * R[:, 2], R[:, 2]]
    if k == "segment":
        return [c - pr["h"] * R[:, 2], c + pr["h"] * R[:, 2]]
    if k == "plane":
        return [c + pr["slide"][0] * R[:, 0] + pr["slide"][1] * R[:, 1], R[:, 2]]
    if k == "triangle":
        return [c + pr["vl"].dot(R.T)]
    if k == "rectangle":
        return [c, np.array([R[:, 0], R[:, 1]]), 2.0 * pr["h"]]
    if k in ("circle", "disk"):
        return [c, float(pr["r"]), R[:, 2]]
    if k == "box":
        return [_pose44(R, c), 2.0 * pr["h"]]
    if k == "ellipsoid":
        return [_pose44(R, c), pr["radii"]]
    if k == "cylinder":
        return [_pose44(R, c), float(pr["r"]), 2.0 * float(pr["h"])]
    raise KeyError(k)


def _anchor_points(pr):
    vals = prim_values(pr)
    k = pr["kind"]
    if k == "segment":
        return [vals[0], vals[1]]
    if k == "triangle":
        return list(vals[0])
    if k in ("box", "ellipsoid", "cylinder"):
        return [vals[0][:3, 3]]
    return [vals[0]]


_RANK = {"point": 0, "line": 1, "plane": 1, "segment": 2}


def gen_pair(rng, kinds, stream):
    """two primitives of the given kinds, the second placed relative to the first. Returns (prims, tag)."""
    src = Src(rng, stream)
    r = rng
    ra, rb = _RANK.get(kinds[0], 3), _RANK.get(kinds[1], 3)
    first = 0 if ra > rb else (1 if rb > ra else r.randrange(2))
    kA, kB = kinds[first], kinds[1 - first]
    for _attempt in range(30):
        A = build(kA, src, src.rot(), src.origin())
        mode = r.random()
        if kA == kB and mode < 0.07:
            # coincident: the same primitive twice (optionally translated along one of its own directions)
            B = {key: (val.copy() if isinstance(val, np.ndarray) else val) for key, val in A.items()}
            tag = "same"
            if r.random() < 0.5:
                dl = r.choice(feature_dirs_local(A))
                B["c"] = A["c"] + src.amount() * r.choice([-1.0, 1.0]) * A["R"].dot(dl)
                tag = "same-shifted"
        elif (not src.lat) and mode < 0.22:
            # unrelated random placement (near or far)
            B = build(kB, src, src.rot(), np.zeros(3))
            B["c"] = A["c"] + src.unit() * src.amount() * r.choice([0.3, 1.0, 1.0, 3.0])
            tag = "random"
        else:
            RB = A["R"].dot(src.rel_rot())
            B = build(kB, src, RB, np.zeros(3))
            fa, ta = feature_local(A, src)
            fb, tb = feature_local(B, src)
            q = to_world(A, fa)
            x = r.random()
            off = "touch"
            if x < 0.45:
                pass
            else:
                if x < 0.7:
                    dv = A["R"].dot(r.choice(feature_dirs_local(A)))
                elif x < 0.9:
                    dv = B["R"].dot(r.choice(feature_dirs_local(B)))
                else:
                    dv = src.unit()
                q = q + src.amount() * r.choice([-1.0, 1.0]) * dv
                off = "offset"
            B["c"] = q - B["R"].dot(fb)
            tag = "%s/%s/%s" % (ta, tb, off)
            if (not src.lat) and r.random() < 0.3:
                # tiny perturbation of the engineered placement: rotation about the contact point + translation
                ang = 10.0 ** r.uniform(-9.0, -2.0)
                Rp = _rot_axis_angle(src.unit(), ang)
                B["R"] = Rp.dot(B["R"])
                B["c"] = q + Rp.dot(B["c"] - q)
                if r.random() < 0.7:
                    B["c"] = B["c"] + src.unit() * 10.0 ** r.uniform(-12.0, -3.0)
                tag += "/perturbed"
        pts = _anchor_points(A) + _anchor_points(B)
        if max(np.linalg.norm(p) for p in pts) <= 1000.0:
            break
    else:
        A["c"] = np.zeros(3)
        B["c"] = B["c"] * 0.0
        tag = "fallback"
    prims = [A, B] if first == 0 else [B, A]
    return prims, tag


def _jsonify(v):
    if isinstance(v, np.ndarray):
        return [[float(x) for x in row] for row in v] if v.ndim == 2 else [float(x) for x in v]
    return float(v)


def gen_case_tagged(rng, fname, stream):
    spec = FUNCS[fname]
    prims, tag = gen_pair(rng, spec["kinds"], stream)
    args = {}
    for pr, names in zip(prims, spec["params"]):
        for name, val in zip(names, prim_values(pr)):
            args[name] = _jsonify(val)
    return args, tag


def gen_case(rng, fname, stream):
    """JSON-able args (keyed by the function's parameter names) for stream 'L' (lattice) or 'G' (general)."""
    return gen_case_tagged(rng, fname, stream)[0]


# ============================================================================ one case
def check_case(ctx, fname, args, stream, tag=None):
    res = call_impl(fname, args)
    probs = oracle(fname, args, res)
    ctx.count("search:" + stream + ":" + fname, key=(fname, repr(args)), nontrivial=bool(res.get("ok")),
              sample={"fn": fname, "stream": stream, "placement": tag, "args": args})
    if tag is not None:
        pc = ctx.extra.setdefault("placement_classes", {})
        short = tag.split("/")[-1] if "/" in tag else tag
        pc[short] = pc.get(short, 0) + 1
    if probs:
        observed = {"problems": probs, "returned": {k: res.get(k) for k in ("d", "p1", "p2", "err", "msg") if k in res}}
        ctx.fail(fname, args, observed, EXPECTED, ORACLE_DESCRIPTION, finding=finding_for(fname, args, probs))
    return res, probs


# ============================================================================ harness entry points
def correspondence(ctx):
    # filled by the Lean vertical
    pass


# quick-tier cases per function and stream (interpreted engine; calibrated so the whole quick search stays < 40 s)
QUICK = {f: 300 for f in FUNCS}
THOROUGH_FACTOR = 8


def search(ctx):
    for k in _known_list():
        w = k.get("witness", {})
        if w.get("fn") in FUNCS and isinstance(w.get("args"), dict):
            check_case(ctx, w["fn"], w["args"], "K", tag="known-witness")
    boost = 3 if ctx.extra.get("search_boost") else 1
    per = {}
    for fname in FUNCS:
        n = ctx.budget(QUICK[fname], QUICK[fname] * THOROUGH_FACTOR) * boost
        per[fname] = n
        for stream in ("L", "G"):
            for _ in range(n):
                args, tag = gen_case_tagged(ctx.rng, fname, stream)
                check_case(ctx, fname, args, stream, tag=tag)
    ctx.extra["search_cases_per_function"] = per


def replay(ctx, payload):
    fname = payload.get("function")
    args = payload.get("args")
    if fname not in FUNCS or not isinstance(args, dict):
        print("replay file names no failing input; broken:", json.dumps(payload.get("broken"), default=str)[:1500])
        return False
    res = call_impl(fname, args)
    probs = oracle(fname, args, res)
    print("function:", fname)
    print("returned:", {k: res.get(k) for k in ("d", "p1", "p2", "err", "msg") if k in res})
    for p in probs:
        print("FAIL", p["what"], json.dumps(p["detail"], default=str)[:500])
    fid = finding_for(fname, args, probs)
    if fid:
        print("known finding class:", fid)
    return not probs
