"""C10 — primitive distance functions return points on their primitives, consistently.

Python half of the vertical: generators for the primitive domain P (lattice + general stream),
a watchdog-guarded caller for the 34 functions of distance3d.distance, an independent
definition-level oracle (membership / consistency / d = 0 => coincidence) and the failing-input
search (all 34 functions).  Lean half: the line/plane family (distance/_line.py, distance/_plane.py) is modelled in
lean/D3/Model/DistLine.lean with theorems in lean/D3/Properties/C10.lean; `correspondence` compares that model
(Float and exact Rat evaluation through lean/D3/Driver/C10.lean) with the implementation.
"""
import json
import math
import os
import signal

import numpy as np

import core

# ============================================================================ manifest texts
RULE = ("correspondence: per modelled function (14) lattice / general / malformed streams built around the model's "
        "branches plus the search's placement generators and the recorded witnesses; "
        "search: per function of distance3d.distance (34) two generator streams from one PRNG: lattice 'L' (half-integer "
        "coordinates, sizes from {0.5,1,1.5,2,3,4}, signed axis permutations and 3-4-5 / 7-24-25 rotations, second "
        "primitive attached to a feature point (vertex, edge, face, centre, axis, surface point) of the first with "
        "an aligned frame: exactly parallel / perpendicular / coplanar / touching / contained / coincident "
        "placements) and general 'G' (sizes log-uniform in [0.2,1e2], anchors within 1e3 of the origin, random "
        "rotations, near/far offsets, engineered degenerate placements in floats and tiny perturbations of them); "
        "a case is non-trivial if the call returns; distinct = distinct (function, argument tuple)")
EXPLANATION = ("correspondence: the Lean model is evaluated at Float and at exact Rat on the bit-exact inputs and "
               "compared with the implementation (values within 1e-12*scale on exact lattice inputs, 1e-9*scale*cond "
               "otherwise; branch ids F vs Q; ties = zero-margin decisions, arbitrated by exact recomputation); "
               "search: every generated case is executed on the real code under a watchdog and judged by a definition-level "
               "oracle that does not share code with the library: no exception / timeout, all outputs finite, d >= 0, "
               "each returned point within 1e-9*L of its primitive (line: cross product, segment: clamped projection, "
               "plane: signed offset, triangle: exact point-triangle distance via barycentric test and edges, "
               "rectangle / box: clamping in the local frame, circle / disk: plane offset and radial offset, "
               "ellipsoid and cylinder: solid), | |p1-p2| - d | <= 1e-6*L, and d == 0 => |p1-p2| <= 1e-9*L, "
               "with L = max(1, largest feature size, centre distance)")
PARTIAL = {
    "planeToEllipsoid_spec / planeToCylinder_spec (closed in Lean; no driver)":
        "D3.C10Link defines planeToEllipsoid / planeToCylinder as the Python compositions (support_function_ellipsoid / "
        "support_function_cylinder of C03 + planeToSupportPair) and proves _ok, _feas, _spec, _spec_of_side and "
        "_spec_orthonormal (no band hypothesis for an orthonormal pose and aspect ratio within 1000 resp. 999); "
        "C10LinkSets restates them on C13's sets. The two compositions live in a Proofs file and are not wired to the "
        "Float/Rat driver: the correspondence covers their parts (support functions: C03; tail: planeToSupportPair) and "
        "the oracle the whole",
    "f_opt for the 22 functions outside the line/plane family":
        "point/line/segment to triangle, rectangle, box, disk, circle, ellipsoid, cylinder and the polygon pairs are "
        "not modelled in this vertical (polygon/solid family: D3/Model/DistPoly.lean of C11); they are covered here by "
        "the definition-level search oracle only",
    "planeToHull_opt / planeTo{Triangle,Rectangle,Box,SupportPair}_spec inside the band":
        "optimality carries the hypothesis HullNoBand (the function passes a hard-coded epsilon 1e-6 to "
        "_line_segment_to_plane and reports d > 0 for shallow crossings: C11-type, excluded by the property's band); "
        "membership and consistency (planeToHull_mem1/mem2/dist, planeTo*_feas) hold for every placement since "
        "/repo 4c5c535; the defect of the older code is kept as planeToHull_before_fix_band / "
        "planeToTriangle_before_fix_counterexample on the model planeToHull_asIs_before_fix",
    "float rounding":
        "all theorems are at exact real arithmetic; the conditioning findings (F-c10-lineline-cancellation, "
        "F-c10-planeplane-illcond) are rounding effects of the same formulas that are exact at the reals "
        "(lineToLine_dist, planeToPlane_mem) and are visible only to the search oracle",
}
ASSUMPTIONS = [
    "theorems: unit direction / normal vectors where the docstrings require them (UnitVec hypotheses), default epsilon "
    "arguments (D3.Gen constants), segments at least sqrt(epsilon) = 1e-3 long for the optimality statements "
    "(domain P: >= 0.2), epsilon bands excluded by explicit hypotheses exactly where the property excludes them",
    "np.dot / np.linalg.norm differ from left-to-right evaluation in the last bit: model-Float and implementation are "
    "compared within 1e-12*scale on exact lattice inputs and 1e-9*scale*condition elsewhere, never by bits",
    "point_to_ellipsoid is called with its default distance_to_surface=False, i.e. the ellipsoid is the solid body; "
    "plane_to_ellipsoid / plane_to_cylinder / point_to_cylinder / point_to_box / *_to_box treat solids as well "
    "(segments between support points / clamped local coordinates)",
    "triangles of the general stream have all edges and all altitudes in [0.2, 1e2] (altitude counted as a feature size)",
    "centre of a scene primitive = anchor point (point, line_point, plane_point), midpoint (segment), centroid "
    "(triangle) or centre (others); L = max(1, feature sizes, distance of the two centres)",
]
TRUSTED = [
    "hand-written model lean/D3/Model/DistLine.lean of distance/_line.py and distance/_plane.py (+ geometry.py helpers "
    "hesse_normal_form, convert_segment_to_line, line_from_pluecker, convert_rectangle_to_vertices, "
    "convert_box_to_vertices), tied by the correspondence run (Float and exact-Rat evaluation of the same term)",
    "plane_to_ellipsoid / plane_to_cylinder: the two support points are taken from the implementation "
    "(support_function_ellipsoid / support_function_cylinder are property C03)",
    "oracle of harness/props/c10.py (numpy float64, definition-level membership tests; ellipsoid membership by "
    "first-order (Sampson) distance of the implicit function, exact to second order in the residual)",
    "signal.setitimer watchdog (5 s per call) as the hang detector",
]
MANIFEST = dict(
    text=("Lean 4 theorems on a faithful model of the line/plane family (point_to_line, point_to_line_segment, "
          "line_to_line, line_to_line_segment, line_segment_to_line_segment, point_to_plane, line_to_plane, "
          "line_segment_to_plane, plane_to_plane, plane_to_triangle/rectangle/box, tail of plane_to_ellipsoid/cylinder): "
          "per function ok (no division by zero / sqrt of a negative in any branch), membership of both returned "
          "points, d^2 = |p1-p2|^2 with d >= 0, and global optimality against all competing point pairs (KKT / "
          "variational argument; Ericson's segment-segment clamping proved optimal), epsilon bands as explicit "
          "hypotheses from the regenerated constants; counterexample theorem for the (since repaired) swapped-order "
          "defect of _plane_to_convex_hull_points on the model of the old code. Model tied to /repo by a correspondence run (Float + exact "
          "Rat evaluation vs implementation, branch coverage, tie arbitration). "
          "Failing-input search over all 34 functions of distance3d.distance with an independent definition-level "
          "oracle for C10 (finite d >= 0, returned points members of their primitives within 1e-9*L, "
          "| |p1-p2| - d | <= 1e-6*L, d = 0 => points coincide; no exception, hang or NaN) on lattice-degenerate and "
          "general placements of well-formed primitives; recorded defects are replayed on every run. " 
          "Link theorems (regenerated from today's source by py2lean on every run, D3/Gen/Link10*.lean) tie _point_to_line, point_to_line, point_to_line_segment, _line_to_line, _point_to_plane, point_to_plane, _line_to_plane, hesse_normal_form, convert_segment_to_line, line_from_pluecker to the model (rfl / unfold-split-rfl; division guards of the model as explicit hypotheses). "),
    note=("trusted: Lean kernel + Mathlib, axioms propext/Classical.choice/Quot.sound; exact-real semantics (float "
          "rounding not modelled: the conditioning findings are rounding effects); hand-written model + correspondence "
          "harness (sampling); 22 of the 34 functions are covered by the search oracle only in this vertical. "
          "trusted: the oracle and the generators of harness/props/c10.py; sampling cannot show absence of failing "
          "inputs; known defects are listed in known_findings.d/C10.json and only failures inside their narrowly "
          "defined input class carry the finding id."),
    technique=("Lean 4 proof on hand-written model (line/plane family) + correspondence (Float/Rat model vs code); "
               "definition-level oracle + lattice/general failing-input search on the real code (all 34 functions) + py2lean-regenerated kernels linked to the model by theorem"),
    design="§7 C10")

TOL_MEMBER = 1e-9
TOL_DIST = 1e-6

# ============================================================================ function table
# roles of the parameters of each primitive kind, in the order the library uses them
ROLES = {
    "point": ["p"],
    "line": ["p", "d"],
    "segment": ["a", "b"],
    "plane": ["p", "n"],
    "triangle": ["v"],
    "rectangle": ["c", "axes", "lengths"],
    "circle": ["c", "r", "n"],
    "disk": ["c", "r", "n"],
    "box": ["pose", "size"],
    "ellipsoid": ["pose", "radii"],
    "cylinder": ["pose", "r", "l"],
}
_BASE_NAMES = {
    "point": ["point"],
    "line": ["line_point", "line_direction"],
    "segment": ["segment_start", "segment_end"],
    "plane": ["plane_point", "plane_normal"],
    "triangle": ["triangle_points"],
    "rectangle": ["rectangle_center", "rectangle_axes", "rectangle_lengths"],
    "circle": ["center", "radius", "normal"],
    "disk": ["center", "radius", "normal"],
    "box": ["box2origin", "size"],
    "ellipsoid": ["ellipsoid2origin", "radii"],
    "cylinder": ["cylinder2origin", "radius", "length"],
}
_SCALAR_ROLES = {"r", "l"}


def _spec(k1, k2, ret="d,p1,p2", names1=None, names2=None):
    n1 = list(names1 or _BASE_NAMES[k1])
    n2 = list(names2 or _BASE_NAMES[k2])
    if k1 == k2 and names1 is None and names2 is None:
        n1 = [n + "1" for n in n1]
        n2 = [n + "2" for n in n2]
    return {"kinds": (k1, k2), "params": (n1, n2), "ret": ret}


# ret "d,p2": the function returns (d, closest point on the second primitive); the first point is the input point.
# ret "d,p1,p2": (d, closest point on first primitive, closest point on second primitive).
FUNCS = {
    "point_to_line": _spec("point", "line", "d,p2"),
    "point_to_line_segment": _spec("point", "segment", "d,p2"),
    "point_to_plane": _spec("point", "plane", "d,p2"),
    "point_to_triangle": _spec("point", "triangle", "d,p2"),
    "point_to_rectangle": _spec("point", "rectangle", "d,p2"),
    "point_to_disk": _spec("point", "disk", "d,p2"),
    "point_to_circle": _spec("point", "circle", "d,p2"),
    "point_to_box": _spec("point", "box", "d,p2"),
    "point_to_ellipsoid": _spec("point", "ellipsoid", "d,p2"),
    "point_to_cylinder": _spec("point", "cylinder", "d,p2"),
    "line_to_line": _spec("line", "line"),
    "line_to_line_segment": _spec("line", "segment"),
    "line_to_plane": _spec("line", "plane"),
    "line_to_triangle": _spec("line", "triangle"),
    "line_to_rectangle": _spec("line", "rectangle"),
    "line_to_circle": _spec("line", "circle"),
    "line_to_box": _spec("line", "box"),
    "line_segment_to_line_segment": _spec("segment", "segment"),
    "line_segment_to_plane": _spec("segment", "plane"),
    "line_segment_to_triangle": _spec("segment", "triangle"),
    "line_segment_to_rectangle": _spec("segment", "rectangle"),
    "line_segment_to_circle": _spec("segment", "circle"),
    "line_segment_to_box": _spec("segment", "box"),
    "plane_to_plane": _spec("plane", "plane"),
    "plane_to_triangle": _spec("plane", "triangle"),
    "plane_to_rectangle": _spec("plane", "rectangle"),
    "plane_to_box": _spec("plane", "box"),
    "plane_to_ellipsoid": _spec("plane", "ellipsoid"),
    "plane_to_cylinder": _spec("plane", "cylinder"),
    "triangle_to_triangle": _spec("triangle", "triangle"),
    "triangle_to_rectangle": _spec("triangle", "rectangle"),
    "rectangle_to_rectangle": _spec("rectangle", "rectangle"),
    "rectangle_to_box": _spec("rectangle", "box"),
    "disk_to_disk": _spec("disk", "disk"),
}
assert len(FUNCS) == 34


def split_args(fname, args):
    """args (JSON dict) -> two role dicts of numpy arrays / floats, one per primitive."""
    spec = FUNCS[fname]
    out = []
    for kind, names in zip(spec["kinds"], spec["params"]):
        d = {"kind": kind}
        for role, name in zip(ROLES[kind], names):
            v = args[name]
            d[role] = float(v) if role in _SCALAR_ROLES else np.array(v, dtype=np.float64)
        out.append(d)
    return out


# ============================================================================ calling the implementation
class _Watchdog(Exception):
    pass


def _on_alarm(signum, frame):
    raise _Watchdog()


def _to_call_args(fname, args, bufs=None):
    """bufs: optional dict parameter-name -> caller-owned array; the value is written INTO that array (in place) and
    the same array object is passed (a caller that keeps and overwrites its pose / point buffers between calls)"""
    spec = FUNCS[fname]
    call = []
    for kind, names in zip(spec["kinds"], spec["params"]):
        for role, name in zip(ROLES[kind], names):
            v = args[name]
            if role in _SCALAR_ROLES:
                call.append(float(v))
            else:
                a = np.ascontiguousarray(np.array(v, dtype=np.float64))
                if bufs is not None:
                    if name not in bufs or bufs[name].shape != a.shape:
                        bufs[name] = a.copy()
                    else:
                        bufs[name][...] = a
                    a = bufs[name]
                call.append(a)
    return call


def _raw_repr(x):
    try:
        return core.jsonable(list(x) if isinstance(x, tuple) else x)
    except Exception:  # noqa
        return repr(x)[:300]


def call_impl(fname, args, timeout_s=5, bufs=None):
    """Call distance3d.distance.<fname> on JSON args (fresh float64 C-contiguous copies, or the caller-owned buffers
    `bufs` overwritten in place) under a watchdog."""
    import distance3d.distance as dd
    fn = getattr(dd, fname)
    call = _to_call_args(fname, args, bufs)
    old = signal.signal(signal.SIGALRM, _on_alarm)
    signal.setitimer(signal.ITIMER_REAL, timeout_s)
    try:
        with np.errstate(all="ignore"):
            raw = fn(*call)
    except _Watchdog:
        return {"ok": False, "err": "timeout", "msg": "no return within %s s" % timeout_s}
    except Exception as e:  # noqa
        return {"ok": False, "err": type(e).__name__, "msg": str(e)[:300]}
    finally:
        signal.setitimer(signal.ITIMER_REAL, 0)
        signal.signal(signal.SIGALRM, old)
    spec = FUNCS[fname]
    try:
        if spec["ret"] == "d,p2":
            d, p2 = raw
            p1 = np.array(args[spec["params"][0][0]], dtype=np.float64)
        else:
            d, p1, p2 = raw
        d = float(d)
        p1 = np.array(p1, dtype=np.float64).reshape(-1)
        p2 = np.array(p2, dtype=np.float64).reshape(-1)
        if p1.shape != (3,) or p2.shape != (3,):
            raise ValueError("closest points are not 3-vectors")
    except Exception as e:  # noqa
        return {"ok": False, "err": "BadReturn", "msg": "%s: %s" % (type(e).__name__, str(e)[:200]),
                "raw": _raw_repr(raw)}
    return {"ok": True, "d": d, "p1": p1.tolist(), "p2": p2.tolist(), "raw": _raw_repr(raw)}


# ============================================================================ oracle
def _norm(v):
    return math.sqrt(float(v[0]) ** 2 + float(v[1]) ** 2 + float(v[2]) ** 2)


def _dist_point_segment(p, a, b):
    ab = b - a
    den = float(ab.dot(ab))
    t = 0.0 if den == 0.0 else min(1.0, max(0.0, float((p - a).dot(ab)) / den))
    return _norm(p - (a + t * ab))


def _dist_point_triangle(p, v):
    a, b, c = v[0], v[1], v[2]
    ab, ac = b - a, c - a
    n = np.cross(ab, ac)
    nn = float(n.dot(n))
    best = min(_dist_point_segment(p, a, b), _dist_point_segment(p, b, c), _dist_point_segment(p, c, a))
    if nn > 0.0:
        ap = p - a
        # barycentric coordinates of the orthogonal projection
        w2 = float(np.cross(ab, ap).dot(n)) / nn
        w1 = float(np.cross(ap, ac).dot(n)) / nn
        w0 = 1.0 - w1 - w2
        if w0 >= 0.0 and w1 >= 0.0 and w2 >= 0.0:
            best = min(best, abs(float(ap.dot(n))) / math.sqrt(nn))
    return best


def _pose(pr):
    T = pr["pose"]
    return T[:3, :3], T[:3, 3]


def membership_residual(pr, p):
    """distance-like residual of point p to the primitive (0 = member); definition level."""
    k = pr["kind"]
    if k == "point":
        return _norm(p - pr["p"])
    if k == "line":
        d = pr["d"]
        return _norm(np.cross(p - pr["p"], d)) / max(_norm(d), 1e-300)
    if k == "segment":
        return _dist_point_segment(p, pr["a"], pr["b"])
    if k == "plane":
        return abs(float(pr["n"].dot(p - pr["p"]))) / max(_norm(pr["n"]), 1e-300)
    if k == "triangle":
        return _dist_point_triangle(p, pr["v"])
    if k == "rectangle":
        ax = pr["axes"]
        q = p - pr["c"]
        x0, x1 = float(ax[0].dot(q)), float(ax[1].dot(q))
        n = np.cross(ax[0], ax[1])
        h = float(n.dot(q))
        e0 = max(0.0, abs(x0) - 0.5 * float(pr["lengths"][0]))
        e1 = max(0.0, abs(x1) - 0.5 * float(pr["lengths"][1]))
        return math.sqrt(e0 * e0 + e1 * e1 + h * h)
    if k in ("circle", "disk"):
        q = p - pr["c"]
        h = float(pr["n"].dot(q))
        rho = _norm(q - h * pr["n"])
        e = rho - pr["r"]
        if k == "disk":
            e = max(0.0, e)
        return math.sqrt(h * h + e * e)
    if k == "box":
        R, t = _pose(pr)
        x = R.T.dot(p - t)
        e = np.maximum(0.0, np.abs(x) - 0.5 * pr["size"])
        return _norm(e)
    if k == "ellipsoid":
        R, t = _pose(pr)
        x = R.T.dot(p - t)
        r = pr["radii"]
        F = float(np.sum((x / r) ** 2)) - 1.0
        if F <= 0.0:
            return 0.0
        g = 2.0 * x / (r * r)
        return F / max(_norm(g), 1e-300)
    if k == "cylinder":
        R, t = _pose(pr)
        x = R.T.dot(p - t)
        rho = math.hypot(float(x[0]), float(x[1]))
        e0 = max(0.0, rho - pr["r"])
        e1 = max(0.0, abs(float(x[2])) - 0.5 * pr["l"])
        return math.hypot(e0, e1)
    raise KeyError(k)


def _centre(pr):
    k = pr["kind"]
    if k in ("point", "line", "plane"):
        return pr["p"]
    if k == "segment":
        return 0.5 * (pr["a"] + pr["b"])
    if k == "triangle":
        return pr["v"].sum(axis=0) / 3.0
    if k in ("rectangle", "circle", "disk"):
        return pr["c"]
    return pr["pose"][:3, 3]


def _sizes(pr):
    k = pr["kind"]
    if k == "segment":
        return [_norm(pr["b"] - pr["a"])]
    if k == "triangle":
        v = pr["v"]
        return [_norm(v[1] - v[0]), _norm(v[2] - v[1]), _norm(v[0] - v[2])]
    if k == "rectangle":
        return [float(x) for x in pr["lengths"]]
    if k in ("circle", "disk"):
        return [pr["r"]]
    if k == "box":
        return [float(x) for x in pr["size"]]
    if k == "ellipsoid":
        return [float(x) for x in pr["radii"]]
    if k == "cylinder":
        return [pr["r"], pr["l"]]
    return []


def scene_scale(fname, args):
    """L = max(1, largest feature size or centre distance of the scene)."""
    a, b = split_args(fname, args)
    return max([1.0, _norm(_centre(a) - _centre(b))] + _sizes(a) + _sizes(b))


def oracle(fname, args, res):
    """C10 on one evaluated case. Returns list of problem dicts (empty = property holds)."""
    if not res.get("ok"):
        what = "timeout" if res.get("err") == "timeout" else (
            "bad-return" if res.get("err") == "BadReturn" else "raised")
        return [{"what": what, "detail": {"err": res.get("err"), "msg": res.get("msg")}}]
    d = res["d"]
    p1 = np.array(res["p1"], dtype=np.float64)
    p2 = np.array(res["p2"], dtype=np.float64)
    if not (math.isfinite(d) and np.all(np.isfinite(p1)) and np.all(np.isfinite(p2))):
        return [{"what": "non-finite", "detail": {"d": d, "p1": res["p1"], "p2": res["p2"]}}]
    probs = []
    A, B = split_args(fname, args)
    L = max([1.0, _norm(_centre(A) - _centre(B))] + _sizes(A) + _sizes(B))
    if d < 0.0:
        probs.append({"what": "negative-distance", "detail": {"d": d}})
    for which, pr, p in (("p1", A, p1), ("p2", B, p2)):
        r = membership_residual(pr, p)
        if not (r <= TOL_MEMBER * L):
            probs.append({"what": "%s-not-on-%s" % (which, pr["kind"]),
                          "detail": {"residual": r, "tol": TOL_MEMBER * L, "L": L}})
    gap = _norm(p1 - p2)
    if not (abs(gap - d) <= TOL_DIST * L):
        probs.append({"what": "distance-inconsistent",
                      "detail": {"|p1-p2|": gap, "tol": TOL_DIST * L, "L": L}})
    if d == 0.0 and not (gap <= TOL_MEMBER * L):
        probs.append({"what": "zero-distance-distinct-points",
                      "detail": {"|p1-p2|": gap, "tol": TOL_MEMBER * L, "L": L}})
    for pb in probs:
        pb["detail"].update({"d": d, "p1": res["p1"], "p2": res["p2"]})
    return probs


ORACLE_DESCRIPTION = ("C10 definition-level oracle: no exception/timeout, finite outputs, d >= 0, each returned point "
                      "within 1e-9*L of its primitive, | |p1-p2| - d | <= 1e-6*L, d == 0 => |p1-p2| <= 1e-9*L")
EXPECTED = "finite d >= 0, member points, |p1-p2| = d within 1e-6*L, d = 0 => coincident points"


# ============================================================================ known findings (input classes)
def _known_list():
    path = os.path.join(core.VERIF, "known_findings.d", "C10.json")
    if not os.path.exists(path):
        return []
    return [k for k in json.load(open(path)) if k.get("property") == "C10" and k.get("status") == "known"]


def finding_for(fname, args, problems):
    """Finding id iff the failure is exactly a recorded defect class (function + input predicate + symptom)."""
    if not problems:
        return None
    for fid, pred in _FINDING_CLASSES:
        try:
            if pred(fname, args, problems):
                return fid
        except Exception:  # noqa
            continue
    return None


def _whats(problems):
    return sorted(p["what"] for p in problems)


def _v(args, name):
    return np.array(args[name], dtype=np.float64)


def _supporting_line(fname, args):
    """(point, unit direction) of the line argument, or of the line through the segment argument"""
    if fname.startswith("line_segment_to_"):
        a, b = _v(args, "segment_start"), _v(args, "segment_end")
        return a, (b - a) / np.linalg.norm(b - a)
    return _v(args, "line_point"), _v(args, "line_direction")


# ---- disk_to_disk ---------------------------------------------------------------------------------------------
def _disk_pluecker(args):
    c1, n1, c2, n2 = _v(args, "center1"), _v(args, "normal1"), _v(args, "center2"), _v(args, "normal2")
    cr = np.cross(n1, n2)
    mom = n1 * float(c2.dot(n2)) - n2 * float(c1.dot(n1))
    return c1, n1, c2, n2, cr, mom


def _cls_disk_parallel_origin(fname, args, problems):
    """exactly parallel normals (n1 x n2 == 0 in floats), planes >= 1e-4 apart, origin within both radii of both
    centres: the degenerate Pluecker line (0, 0) makes the function return the ORIGIN for both points with d = 0."""
    if fname != "disk_to_disk" or not set(_whats(problems)) <= {"p1-not-on-disk", "p2-not-on-disk"}:
        return False
    c1, n1, c2, n2, cr, mom = _disk_pluecker(args)
    origin_returned = all(not np.array(pb["detail"][k]).any() for pb in problems for k in ("p1", "p2"))
    return (not cr.any() and float(mom.dot(mom)) >= 1e-8 and origin_returned
            and np.linalg.norm(c1) < args["radius1"] and np.linalg.norm(c2) < args["radius2"])


def _cls_disk_near_coplanar(fname, args, problems):
    """the 'same plane' test (|n1 x n2|^2 < 1e-8 and |moment|^2 < 1e-8) accepts disks that are not exactly coplanar;
    the returned rim points c1 + r1*u, c2 - r2*u (u = unit(c2 - c1)) then leave the disks' planes."""
    if fname != "disk_to_disk" or not set(_whats(problems)) <= {"p1-not-on-disk", "p2-not-on-disk"}:
        return False
    c1, n1, c2, n2, cr, mom = _disk_pluecker(args)
    same_plane_test = float(cr.dot(cr)) < 1e-8 and float(mom.dot(mom)) < 1e-8
    exactly_coplanar = (not cr.any()) and float(n1.dot(c2 - c1)) == 0.0
    if not same_plane_test or exactly_coplanar:
        return False
    u = (c2 - c1) / max(float(np.linalg.norm(c2 - c1)), 1e-300)
    q1, q2 = c1 + float(args["radius1"]) * u, c2 - float(args["radius2"]) * u
    scale = 1e-12 * max(1.0, float(np.abs(q1).max()), float(np.abs(q2).max()))
    det = problems[0]["detail"]
    return _norm(np.array(det["p1"]) - q1) <= scale and _norm(np.array(det["p2"]) - q2) <= scale


def _cls_disk_midpoint(fname, args, problems):
    """non-parallel planes, both centres within 1e-8 of the common line of the two planes (h1 + h2 <= 1e-8) and
    centre distance <= r1 + r2: the function returns the midpoint of the centres for both disks with d = 0, which is
    outside the smaller disk when |c2 - c1| > 2*min(r1, r2) and off the planes when the centres are only nearly on
    the common line."""
    if fname != "disk_to_disk" or not set(_whats(problems)) <= {"p1-not-on-disk", "p2-not-on-disk"}:
        return False
    c1, n1, c2, n2, cr, mom = _disk_pluecker(args)
    s2 = float(cr.dot(cr))
    if s2 < 1e-8:
        return False
    s = math.sqrt(s2)
    h1 = abs(float(n2.dot(c1 - c2))) / s
    h2 = abs(float(n1.dot(c2 - c1))) / s
    ell = float(np.linalg.norm(c2 - c1))
    r1, r2 = float(args["radius1"]), float(args["radius2"])
    mid = 0.5 * (c1 + c2)
    is_mid = all(np.array_equal(np.array(pb["detail"][k]), mid) for pb in problems for k in ("p1", "p2"))
    return h1 + h2 <= 1e-8 * (1 + 1e-6) and ell <= (r1 + r2) * (1.0 + 1e-12) and is_mid


def _cls_disk_illconditioned_intersection(fname, args, problems):
    """almost parallel disk planes (|n1 x n2| <= 1e-3) that intersect inside both disks: the common point is taken
    on the Pluecker line of the two planes (coordinates relative to the ORIGIN, divided by |n1 x n2|^2); its plane
    residuals are rounding errors amplified by 1/|n1 x n2| (> 1e-9*L, < 1e-6*L)."""
    if fname != "disk_to_disk" or not set(_whats(problems)) <= {"p1-not-on-disk", "p2-not-on-disk"}:
        return False
    c1, n1, c2, n2, cr, mom = _disk_pluecker(args)
    s = float(np.linalg.norm(cr))
    same_point = all(pb["detail"]["p1"] == pb["detail"]["p2"] and pb["detail"]["d"] == 0.0 for pb in problems)
    return (0.0 < s <= 1e-3 and same_point
            and all(pb["detail"]["residual"] <= 1e-6 * pb["detail"]["L"] for pb in problems))


# ---- line / segment to box --------------------------------------------------------------------------------------
def _line_in_box_frame(fname, args):
    p, d = _supporting_line(fname, args)
    T = _v(args, "box2origin")
    R, t = T[:3, :3], T[:3, 3]
    return R.T.dot(p - t), R.T.dot(d), 0.5 * _v(args, "size")


def _line_box_slab_gap(fname, args, tol):
    """True iff the supporting line passes within ~tol of the box (slab test on the box inflated by tol)."""
    x, d, h = _line_in_box_frame(fname, args)
    lo, hi = -math.inf, math.inf
    for i in range(3):
        if d[i] == 0.0:
            if abs(x[i]) > h[i] + tol:
                return False
        else:
            t0 = (-h[i] - tol - x[i]) / d[i]
            t1 = (h[i] + tol - x[i]) / d[i]
            lo, hi = max(lo, min(t0, t1)), min(hi, max(t0, t1))
    return lo <= hi


def _cls_linebox_cancellation_zero(fname, args, problems):
    """same root cause as the sqrt failure: the squared distance is assembled from the expanded quadratic form
    (a^2 + b^2 + c^2 + delta*t with terms of size |line_point - box centre|^2) and cancels to exactly 0.0 although
    the returned (member) points are a positive distance <= 1e-7*max(1, |line_point - box centre|) apart."""
    if fname not in ("line_to_box", "line_segment_to_box") or _whats(problems) != ["zero-distance-distinct-points"]:
        return False
    x, d, h = _line_in_box_frame(fname, args)
    return problems[0]["detail"]["|p1-p2|"] <= 1e-7 * max(1.0, _norm(x))


# ---- line / segment to triangle / rectangle -----------------------------------------------------------------------
def _cls_lineflat_illconditioned_zero(fname, args, problems):
    """line (segment) almost parallel to the plane of the triangle / rectangle, just above the function's threshold
    (1e-6 < |n . dir| <= 1e-3), piercing it: d = 0.0 is returned with the line point and the triangle / rectangle
    point computed separately from an ill-conditioned 2x2 system; they differ by rounding / |n . dir|."""
    if fname not in ("line_to_triangle", "line_segment_to_triangle", "line_to_rectangle",
                     "line_segment_to_rectangle") or _whats(problems) != ["zero-distance-distinct-points"]:
        return False
    p, d = _supporting_line(fname, args)
    if fname.endswith("triangle"):
        V = _v(args, "triangle_points")
        n = np.cross(V[1] - V[0], V[2] - V[0])
    else:
        ax = _v(args, "rectangle_axes")
        n = np.cross(ax[0], ax[1])
    c = abs(float(n.dot(d))) / float(np.linalg.norm(n))
    det = problems[0]["detail"]
    return 1e-6 * (1 - 1e-9) < c <= 1e-3 and det["|p1-p2|"] <= 1e-6 * det["L"]


# ---- circle ------------------------------------------------------------------------------------------------------
def _cls_linecircle_axis(exact):
    def pred(fname, args, problems):
        if fname not in ("line_to_circle", "line_segment_to_circle") or _whats(problems) != ["p2-not-on-circle"]:
            return False
        p, d = _supporting_line(fname, args)
        c, n = _v(args, "center"), _v(args, "normal")
        is_exact = (not np.cross(d, n).any()) and (not np.cross(p - c, n).any())
        if exact:
            # the line IS the circle's axis (both cross products vanish in floats): the circle point is
            # center + r*u with u = pytransform3d perpendicular_to_vector(normal), which is not normalised
            return is_exact
        # the line is almost parallel to the axis (sin <= 1e-3) and the returned line point lies within 1e-6*L of
        # the axis: its in-plane part is a rounding residue (or exactly 0); normalising it yields an off-plane
        # direction (or the zero vector), so the "circle point" leaves the circle
        q = np.array(problems[0]["detail"]["p1"], dtype=np.float64) - c
        rho = _norm(q - float(q.dot(n)) * n)
        s = float(np.linalg.norm(np.cross(d, n)))
        return (not is_exact) and s <= 1e-3 and rho <= 1e-6 * scene_scale(fname, args)
    return pred


def _cls_segcircle_param(fname, args, problems):
    """line_segment_to_circle recovers the line parameter of the closest point by dividing by the FIRST non-zero
    component of the segment direction; when that component is tiny (0 < |dir[k]| <= 1e-6) the parameter is
    inaccurate and a closest point beyond the segment end is accepted as lying on the segment."""
    if fname != "line_segment_to_circle" or _whats(problems) != ["p1-not-on-segment"]:
        return False
    a, b = _v(args, "segment_start"), _v(args, "segment_end")
    d = (b - a) / np.linalg.norm(b - a)
    nz = [x for x in d if x != 0.0]
    return bool(nz) and abs(nz[0]) <= 1e-6


def _axis_offset(point, c, n):
    diff = point - c
    dip = diff - float(diff.dot(n)) * n
    return math.sqrt(float(dip.dot(dip)))


def _cls_circle_near_axis_illcond(fname, args, problems):
    """point (or the segment end point the result is clamped to) between 1e-6 and 1e-3 from the circle's axis: since
    /repo 0e4a1a6 it takes point_to_circle's general branch; the in-plane direction diff - (diff.n)*n is a small
    difference of large vectors, its rounding error ~1e-16*|coordinates| is divided by the offset rho and scaled by the
    radius: the 'circle point' is off the circle by <= 4e-15*|coordinates|*r/rho (> 1e-9*L for rho near 1e-6)."""
    if _whats(problems) != ["p2-not-on-circle"]:
        return False
    c, n, r = _v(args, "center"), _v(args, "normal"), float(args["radius"])
    if fname == "point_to_circle":
        pts = [_v(args, "point")]
    elif fname == "line_segment_to_circle":
        p1 = np.array(problems[0]["detail"]["p1"], dtype=np.float64)
        pts = [e for e in (_v(args, "segment_start"), _v(args, "segment_end")) if np.array_equal(p1, e)]
    else:
        return False
    for q in pts:
        rho = _axis_offset(q, c, n)
        S = max(1.0, float(np.abs(q).max()), float(np.abs(c).max()))
        if 1e-6 <= rho <= 1e-3 and problems[0]["detail"]["residual"] <= 4e-15 * S * r / rho:
            return True
    return False


# ---- plane to flat hull -------------------------------------------------------------------------------------------
# ---- plane_to_plane -------------------------------------------------------------------------------------------------
def _cls_planeplane_illconditioned(fname, args, problems):
    """almost parallel planes just above the function's threshold (1e-6 < |n1 x n2| <= 1e-3): the common point is
    computed from Hesse distances to the ORIGIN and divided by |n1 x n2|^2, so its plane residuals are
    ~1e-16 * |distance to origin| / |n1 x n2| (> 1e-9*L, < 1e-6*L)."""
    if fname != "plane_to_plane" or not set(_whats(problems)) <= {"p1-not-on-plane", "p2-not-on-plane"}:
        return False
    s = float(np.linalg.norm(np.cross(_v(args, "plane_normal1"), _v(args, "plane_normal2"))))
    return 1e-6 < s <= 1e-3 and all(pb["detail"]["residual"] <= 1e-6 * pb["detail"]["L"] for pb in problems)


# ---- triangle_to_triangle -------------------------------------------------------------------------------------------
def _cls_tritri_eps_zero(fname, args, problems):
    """triangles whose closest features are a positive distance <= epsilon = 1e-6 apart (witnessed by the returned
    member points): the early exit `best_dist <= epsilon: return 0.0, ...` reports d = 0.0 for distinct points."""
    if fname != "triangle_to_triangle" or _whats(problems) != ["zero-distance-distinct-points"]:
        return False
    return problems[0]["detail"]["|p1-p2|"] <= 1e-6


# ---- line_to_line -------------------------------------------------------------------------------------------------------
def _cls_lineline_cancellation(fname, args, problems):
    """d is evaluated from the expanded quadratic form t1*(t1 + a12*t2 + 2*b1) + t2*(a12*t1 + t2 + 2*b2) + c
    (parallel branch: c - b1^2) instead of from the returned points; its terms have size S^2 with
    S = max(|line_point1 - line_point2|, |t1|, |t2|), so d carries an error ~1e-8*S: d = 0.0 for distinct closest
    points, or |d - |p1-p2|| > 1e-6*L when the closest points are far from the anchors (nearly parallel lines)."""
    w = set(_whats(problems))
    if fname != "line_to_line" or not w or not w <= {"zero-distance-distinct-points", "distance-inconsistent"}:
        return False
    det = problems[0]["detail"]
    a1, a2 = _v(args, "line_point1"), _v(args, "line_point2")
    S = max(1.0, _norm(a1 - a2), _norm(np.array(det["p1"]) - a1), _norm(np.array(det["p2"]) - a2))
    gap = _norm(np.array(det["p1"]) - np.array(det["p2"]))
    return abs(det["d"] - gap) <= 1e-7 * S


# list of (id, predicate(fname, args, problems) -> bool); first match wins
_FINDING_CLASSES = [
    ("F-c10-disk-parallel-origin", _cls_disk_parallel_origin),
    ("F-c10-disk-near-coplanar", _cls_disk_near_coplanar),
    ("F-c10-disk-midpoint", _cls_disk_midpoint),
    ("F-c10-disk-illcond-intersection", _cls_disk_illconditioned_intersection),
    ("F-c10-linebox-cancellation-zero", _cls_linebox_cancellation_zero),
    ("F-c10-lineflat-illcond-zero", _cls_lineflat_illconditioned_zero),
    ("F-c10-linecircle-axis-rounding", _cls_linecircle_axis(False)),
    ("F-c10-segcircle-param-illcond", _cls_segcircle_param),
    ("F-c10-circle-near-axis-illcond", _cls_circle_near_axis_illcond),
    ("F-c10-planeplane-illcond", _cls_planeplane_illconditioned),
    ("F-c10-tritri-eps-zero", _cls_tritri_eps_zero),
    ("F-c10-lineline-cancellation", _cls_lineline_cancellation),
]


# ============================================================================ generators
_PERMS = []
for _p in ((0, 1, 2), (0, 2, 1), (1, 0, 2), (1, 2, 0), (2, 0, 1), (2, 1, 0)):
    for _s0 in (1.0, -1.0):
        for _s1 in (1.0, -1.0):
            for _s2 in (1.0, -1.0):
                _M = np.zeros((3, 3))
                _M[0, _p[0]], _M[1, _p[1]], _M[2, _p[2]] = _s0, _s1, _s2
                if np.linalg.det(_M) > 0:
                    _PERMS.append(_M)
assert len(_PERMS) == 24
_CS = [(0.6, 0.8), (0.8, 0.6), (-0.6, 0.8), (0.8, -0.6), (0.28, 0.96), (0.96, -0.28), (-0.8, -0.6)]
_CS_AXIS = [(1.0, 0.0), (0.0, 1.0), (-1.0, 0.0), (0.0, -1.0)]
_HALF = [0.5 * i for i in range(-6, 7)]
_SIZES_L = [0.5, 1.0, 1.5, 2.0, 3.0, 4.0]
_AMOUNTS_L = [0.5, 1.0, 1.5, 2.0, 3.0]
_COEF_L = [-1.0, -0.5, 0.0, 0.5, 1.0]


def _rot_axis_cs(axis, c, s):
    M = np.eye(3)
    i, j = [(1, 2), (2, 0), (0, 1)][axis]
    M[i, i], M[i, j], M[j, i], M[j, j] = c, -s, s, c
    return M


def _rot_axis_angle(u, ang):
    u = np.asarray(u, dtype=float)
    u = u / np.linalg.norm(u)
    K = np.array([[0.0, -u[2], u[1]], [u[2], 0.0, -u[0]], [-u[1], u[0], 0.0]])
    return np.eye(3) + math.sin(ang) * K + (1.0 - math.cos(ang)) * K.dot(K)


class Src:
    """draws sizes / rotations / offsets for one stream from a random.Random"""

    def __init__(self, rng, stream):
        self.rng = rng
        self.lat = (stream == "L")
        self.scale = 1.0 if self.lat else 0.2 * 500.0 ** rng.random()

    def size(self):
        r = self.rng
        if self.lat:
            return r.choice(_SIZES_L)
        if r.random() < 0.75:
            return min(100.0, max(0.2, self.scale * 10.0 ** r.uniform(-0.7, 0.7)))
        return 0.2 * 500.0 ** r.random()

    def amount(self):
        r = self.rng
        if self.lat:
            return r.choice(_AMOUNTS_L)
        if r.random() < 0.1:
            return 10.0 ** r.uniform(1.0, 2.9)
        return self.scale * r.uniform(0.05, 2.5)

    def coef(self):
        """in [-1, 1], with the extreme and middle values frequent"""
        r = self.rng
        if self.lat or r.random() < 0.35:
            return r.choice(_COEF_L)
        return r.uniform(-1.0, 1.0)

    def cs(self):
        r = self.rng
        if self.lat:
            return r.choice(_CS_AXIS) if r.random() < 0.6 else r.choice(_CS)
        if r.random() < 0.2:
            return r.choice(_CS_AXIS)
        a = r.uniform(0.0, 2.0 * math.pi)
        return (math.cos(a), math.sin(a))

    def unit(self):
        r = self.rng
        if self.lat:
            return self.rot()[:, r.randrange(3)].copy()
        while True:
            v = np.array([r.gauss(0, 1), r.gauss(0, 1), r.gauss(0, 1)])
            n = np.linalg.norm(v)
            if n > 1e-3:
                return v / n

    def rel_rot(self):
        """rotation relative to a reference frame: aligned (signed permutation), 3-4-5, or arbitrary"""
        r = self.rng
        x = r.random()
        P = r.choice(_PERMS)
        if x < 0.55:
            return P.copy()
        if x < 0.8 or self.lat:
            c, s = r.choice(_CS) if (self.lat or r.random() < 0.3) else self.cs()
            M = P.dot(_rot_axis_cs(r.randrange(3), c, s))
            if self.lat and r.random() < 0.15:
                c, s = r.choice(_CS)
                M = M.dot(_rot_axis_cs(r.randrange(3), c, s))
            return M
        return self.rot()

    def rot(self):
        r = self.rng
        if self.lat:
            P = r.choice(_PERMS)
            x = r.random()
            if x < 0.45:
                return P.copy()
            c, s = r.choice(_CS)
            M = P.dot(_rot_axis_cs(r.randrange(3), c, s))
            if x > 0.88:
                c, s = r.choice(_CS)
                M = M.dot(_rot_axis_cs(r.randrange(3), c, s))
            return M
        if r.random() < 0.1:
            return r.choice(_PERMS).copy()
        while True:
            q = np.array([r.gauss(0, 1) for _ in range(4)])
            n = np.linalg.norm(q)
            if n > 1e-3:
                break
        w, x, y, z = q / n
        return np.array([
            [1 - 2 * (y * y + z * z), 2 * (x * y - z * w), 2 * (x * z + y * w)],
            [2 * (x * y + z * w), 1 - 2 * (x * x + z * z), 2 * (y * z - x * w)],
            [2 * (x * z - y * w), 2 * (y * z + x * w), 1 - 2 * (x * x + y * y)]])

    def origin(self):
        r = self.rng
        if self.lat:
            return np.array([r.choice(_HALF) for _ in range(3)])
        x = r.random()
        if x < 0.1:
            return np.zeros(3)
        if x < 0.45:
            return np.array([r.uniform(-1, 1) for _ in range(3)]) * self.scale * 3.0
        return self.unit() * 10.0 ** r.uniform(-1.0, 2.9)


def _tri_local(src):
    """three local vertices (z = 0), non-collinear, edges and altitudes in [0.2, 100]"""
    r = src.rng
    for _ in range(200):
        if src.lat:
            g = [0.5 * i for i in range(-4, 5)]
            P = np.array([[r.choice(g), r.choice(g), 0.0] for _ in range(3)])
        else:
            e = src.size()
            h = src.size()
            x = r.uniform(-0.7, 1.7) * e if r.random() < 0.8 else r.choice([0.0, 0.5, 1.0]) * e
            P = np.array([[0.0, 0.0, 0.0], [e, 0.0, 0.0], [x, h, 0.0]])
            c, s = src.cs()
            P = P.dot(_rot_axis_cs(2, c, s).T)
            P = P - P[r.randrange(3)] * r.choice([0.0, 1.0]) - P.mean(axis=0) * r.choice([0.0, 1.0])
        ed = [np.linalg.norm(P[1] - P[0]), np.linalg.norm(P[2] - P[1]), np.linalg.norm(P[0] - P[2])]
        area2 = abs(np.cross(P[1] - P[0], P[2] - P[0])[2])
        if min(ed) < 0.2 or max(ed) > 100.0:
            continue
        if area2 / max(ed) < 0.2:
            continue
        return P
    return np.array([[0.0, 0.0, 0.0], [1.0, 0.0, 0.0], [0.0, 1.0, 0.0]])


def build(kind, src, R, c):
    """a primitive of the given kind with local frame R (columns) and local origin c"""
    pr = {"kind": kind, "R": np.array(R, dtype=float), "c": np.array(c, dtype=float)}
    r = src.rng
    if kind == "line":
        pr["slide"] = 0.0 if r.random() < 0.5 else src.amount() * r.choice([-1.0, 1.0])
    elif kind == "segment":
        pr["h"] = 0.5 * src.size()
    elif kind == "plane":
        if r.random() < 0.5:
            pr["slide"] = (0.0, 0.0)
        else:
            pr["slide"] = (src.amount() * r.choice([-1.0, 0.0, 1.0]), src.amount() * r.choice([-1.0, 0.0, 1.0]))
    elif kind == "triangle":
        pr["vl"] = _tri_local(src)
    elif kind == "rectangle":
        pr["h"] = np.array([0.5 * src.size(), 0.5 * src.size()])
    elif kind in ("circle", "disk"):
        pr["r"] = src.size()
    elif kind == "box":
        pr["h"] = np.array([0.5 * src.size() for _ in range(3)])
    elif kind == "ellipsoid":
        pr["radii"] = np.array([src.size() for _ in range(3)])
        if r.random() < 0.15:
            pr["radii"][1] = pr["radii"][0]
        if r.random() < 0.08:
            pr["radii"][2] = pr["radii"][0]
        if (not src.lat) and r.random() < _EXTREME_P[0]:
            # the corners of the size domain: needles and pancakes with aspect ratios of several hundred
            big, small = r.uniform(60.0, 100.0), r.uniform(0.2, 0.35)
            pr["radii"] = np.array(r.choice([[big, small, small], [small, big, small], [small, small, big],
                                             [big, big, small], [small, big, big]]))
    elif kind == "cylinder":
        pr["r"] = src.size()
        pr["h"] = 0.5 * src.size()
    return pr


def feature_local(pr, src):
    """a characteristic point of the primitive in local coordinates (+ tag)"""
    r = src.rng
    k = pr["kind"]
    z = np.zeros(3)
    if k == "point":
        return z, "pt"
    if k == "line":
        t = 0.0 if r.random() < 0.4 else src.amount() * r.choice([-1.0, 1.0])
        return np.array([0.0, 0.0, t]), "on-line"
    if k == "segment":
        t = src.coef()
        return np.array([0.0, 0.0, t * pr["h"]]), ("seg-end" if abs(t) == 1.0 else "seg-in")
    if k == "plane":
        if r.random() < 0.4:
            return z, "on-plane"
        return np.array([src.amount() * src.coef(), src.amount() * src.coef(), 0.0]), "on-plane"
    if k == "triangle":
        v = pr["vl"]
        x = r.random()
        if x < 0.3:
            return v[r.randrange(3)].copy(), "tri-vertex"
        if x < 0.6:
            i = r.randrange(3)
            t = 0.5 * (src.coef() + 1.0)
            return v[i] + t * (v[(i + 1) % 3] - v[i]), "tri-edge"
        if x < 0.8:
            w = r.choice([(0.5, 0.25, 0.25), (0.25, 0.5, 0.25), (0.25, 0.25, 0.5), (0.125, 0.125, 0.75)])
            if not src.lat and r.random() < 0.5:
                a, b = sorted([r.random(), r.random()])
                w = (a, b - a, 1.0 - b)
            return w[0] * v[0] + w[1] * v[1] + w[2] * v[2], "tri-in"
        return v.sum(axis=0) / 3.0, "tri-centroid"
    if k == "rectangle":
        a, b = src.coef(), src.coef()
        tag = "rect-corner" if abs(a) == 1 and abs(b) == 1 else ("rect-edge" if abs(a) == 1 or abs(b) == 1 else
                                                               ("rect-centre" if a == 0 and b == 0 else "rect-in"))
        return np.array([a * pr["h"][0], b * pr["h"][1], 0.0]), tag
    if k in ("circle", "disk"):
        x = r.random()
        c, s = src.cs()
        if x < 0.2:
            return z, k + "-centre"
        if x < 0.4:
            t = src.amount() * r.choice([-1.0, 1.0])
            return np.array([0.0, 0.0, t]), k + "-axis"
        if x < 0.8:
            return pr["r"] * np.array([c, s, 0.0]), k + "-rim"
        f = 0.5 if (src.lat or r.random() < 0.5) else r.random()
        return f * pr["r"] * np.array([c, s, 0.0]), k + "-inside"
    if k == "box":
        s3 = np.array([src.coef(), src.coef(), src.coef()])
        n1 = int(np.sum(np.abs(s3) == 1.0))
        tag = ["box-in", "box-face", "box-edge", "box-corner"][n1]
        if n1 == 0 and not s3.any():
            tag = "box-centre"
        return s3 * pr["h"], tag
    if k == "ellipsoid":
        x = r.random()
        rad = pr["radii"]
        if x < 0.15:
            return z, "ell-centre"
        if x < 0.35:
            i = r.randrange(3)
            e = np.zeros(3)
            e[i] = r.choice([-1.0, 1.0]) * rad[i]
            return e, "ell-tip"
        if x < 0.5:
            i = r.randrange(3)
            e = np.zeros(3)
            e[i] = r.choice([-0.5, 0.5, 0.25]) * rad[i]
            return e, "ell-axis-in"
        u = src.unit()
        if x < 0.85:
            return rad * u, "ell-surface"
        return 0.5 * rad * u, "ell-in"
    if k == "cylinder":
        c, s = src.cs()
        rho = r.choice([0.0, 0.5, 1.0, 1.0]) * pr["r"]
        zz = src.coef() * pr["h"]
        tag = "cyl-axis" if rho == 0.0 else ("cyl-rim" if rho == pr["r"] and abs(zz) == pr["h"] else
                                             ("cyl-side" if rho == pr["r"] else
                                              ("cyl-cap" if abs(zz) == pr["h"] else "cyl-in")))
        return np.array([rho * c, rho * s, zz]), tag
    raise KeyError(k)


def feature_dirs_local(pr):
    k = pr["kind"]
    dirs = [np.array([1.0, 0.0, 0.0]), np.array([0.0, 1.0, 0.0]), np.array([0.0, 0.0, 1.0])]
    if k == "triangle":
        v = pr["vl"]
        for i in range(3):
            e = v[(i + 1) % 3] - v[i]
            dirs.append(e / np.linalg.norm(e))
    return dirs


def to_world(pr, x):
    return pr["c"] + pr["R"].dot(x)


def _pose44(R, c):
    T = np.eye(4)
    T[:3, :3] = R
    T[:3, 3] = c
    return T


def prim_values(pr):
    """values of the library parameters of this primitive, in ROLES order"""
    k, R, c = pr["kind"], pr["R"], pr["c"]
    if k == "point":
        return [c]
    if k == "line":
        return [c + pr["slide"] * R[:, 2], R[:, 2]]
    if k == "segment":
        return [c - pr["h"] * R[:, 2], c + pr["h"] * R[:, 2]]
    if k == "plane":
        return [c + pr["slide"][0] * R[:, 0] + pr["slide"][1] * R[:, 1], R[:, 2]]
    if k == "triangle":
        return [c + pr["vl"].dot(R.T)]
    if k == "rectangle":
        return [c, np.array([R[:, 0], R[:, 1]]), 2.0 * pr["h"]]
    if k in ("circle", "disk"):
        return [c, float(pr["r"]), R[:, 2]]
    if k == "box":
        return [_pose44(R, c), 2.0 * pr["h"]]
    if k == "ellipsoid":
        return [_pose44(R, c), pr["radii"]]
    if k == "cylinder":
        return [_pose44(R, c), float(pr["r"]), 2.0 * float(pr["h"])]
    raise KeyError(k)


def _anchor_points(pr):
    vals = prim_values(pr)
    k = pr["kind"]
    if k == "segment":
        return [vals[0], vals[1]]
    if k == "triangle":
        return list(vals[0])
    if k in ("box", "ellipsoid", "cylinder"):
        return [vals[0][:3, 3]]
    return [vals[0]]


_RANK = {"point": 0, "line": 1, "plane": 1, "segment": 2}
PERTURB_P = 0.3     # share of engineered general-stream placements that get a tiny rigid perturbation


_EXTREME_P = [0.25]


def gen_pair(rng, kinds, stream):
    """two primitives of the given kinds, the second placed relative to the first. Returns (prims, tag)."""
    # the iterative point_to_ellipsoid is the function most sensitive to extreme aspect ratios
    _EXTREME_P[0] = 0.7 if set(kinds) == {"point", "ellipsoid"} else 0.25
    src = Src(rng, stream)
    r = rng
    ra, rb = _RANK.get(kinds[0], 3), _RANK.get(kinds[1], 3)
    first = 0 if ra > rb else (1 if rb > ra else r.randrange(2))
    kA, kB = kinds[first], kinds[1 - first]
    for _attempt in range(30):
        A = build(kA, src, src.rot(), src.origin())
        mode = r.random()
        if kA == kB and mode < 0.07:
            # coincident: the same primitive twice (optionally translated along one of its own directions)
            B = {key: (val.copy() if isinstance(val, np.ndarray) else val) for key, val in A.items()}
            tag = "same"
            if r.random() < 0.5:
                dl = r.choice(feature_dirs_local(A))
                B["c"] = A["c"] + src.amount() * r.choice([-1.0, 1.0]) * A["R"].dot(dl)
                tag = "same-shifted"
        elif (not src.lat) and mode < 0.22:
            # unrelated random placement (near or far)
            B = build(kB, src, src.rot(), np.zeros(3))
            B["c"] = A["c"] + src.unit() * src.amount() * r.choice([0.3, 1.0, 1.0, 3.0])
            tag = "random"
        else:
            RB = A["R"].dot(src.rel_rot())
            B = build(kB, src, RB, np.zeros(3))
            fa, ta = feature_local(A, src)
            fb, tb = feature_local(B, src)
            q = to_world(A, fa)
            x = r.random()
            off = "touch"
            if x < 0.45:
                pass
            else:
                if x < 0.7:
                    dv = A["R"].dot(r.choice(feature_dirs_local(A)))
                elif x < 0.9:
                    dv = B["R"].dot(r.choice(feature_dirs_local(B)))
                else:
                    dv = src.unit()
                q = q + src.amount() * r.choice([-1.0, 1.0]) * dv
                off = "offset"
            B["c"] = q - B["R"].dot(fb)
            tag = "%s/%s/%s" % (ta, tb, off)
            if (not src.lat) and r.random() < PERTURB_P:
                # tiny perturbation of the engineered placement: rotation about the contact point + translation
                ang = 10.0 ** r.uniform(-9.0, -2.0)
                Rp = _rot_axis_angle(src.unit(), ang)
                B["R"] = Rp.dot(B["R"])
                B["c"] = q + Rp.dot(B["c"] - q)
                if r.random() < 0.7:
                    B["c"] = B["c"] + src.unit() * 10.0 ** r.uniform(-12.0, -3.0)
                tag += "/perturbed"
        if (not src.lat) and {kA, kB} == {"point", "ellipsoid"} and r.random() < 0.6:
            E, Pt = (A, B) if kA == "ellipsoid" else (B, A)
            rad = np.asarray(E["radii"], dtype=float)
            if float(rad.max()) > 50.0 * float(rad.min()):
                # a needle / pancake: the query point sits beside the long extent, a few thin radii from the surface
                al = np.array([r.uniform(-0.95, 0.95) if rad[i] > 10.0 * float(rad.min()) else r.choice([-1.0, 1.0]) * r.uniform(1.5, 6.0)
                               for i in range(3)])
                Pt["c"] = E["c"] + E["R"].dot(al * rad)
                tag = "beside-needle"
        pts = _anchor_points(A) + _anchor_points(B)
        if max(np.linalg.norm(p) for p in pts) <= 1000.0:
            break
    else:
        A["c"] = np.zeros(3)
        B["c"] = B["c"] * 0.0
        tag = "fallback"
    prims = [A, B] if first == 0 else [B, A]
    return prims, tag


def _jsonify(v):
    if isinstance(v, np.ndarray):
        return [[float(x) for x in row] for row in v] if v.ndim == 2 else [float(x) for x in v]
    return float(v)


def gen_case_tagged(rng, fname, stream):
    spec = FUNCS[fname]
    prims, tag = gen_pair(rng, spec["kinds"], stream)
    args = {}
    for pr, names in zip(prims, spec["params"]):
        for name, val in zip(names, prim_values(pr)):
            args[name] = _jsonify(val)
    return args, tag


def gen_case(rng, fname, stream):
    """JSON-able args (keyed by the function's parameter names) for stream 'L' (lattice) or 'G' (general)."""
    return gen_case_tagged(rng, fname, stream)[0]


# ============================================================================ one case
def check_case(ctx, fname, args, stream, tag=None, bufs=None):
    res = call_impl(fname, args, bufs=bufs)
    probs = oracle(fname, args, res)
    ctx.count("search:" + stream + ":" + fname, key=(fname, repr(args)), nontrivial=bool(res.get("ok")),
              sample={"fn": fname, "stream": stream, "placement": tag, "args": args})
    if tag is not None:
        pc = ctx.extra.setdefault("placement_classes", {})
        short = tag.split("/")[-1] if "/" in tag else tag
        pc[short] = pc.get(short, 0) + 1
    if probs:
        fid = finding_for(fname, args, probs)
        observed = {"problems": probs, "returned": {k: res.get(k) for k in ("d", "p1", "p2", "err", "msg") if k in res}}
        ctx.fail(fname, args, observed, EXPECTED, ORACLE_DESCRIPTION, finding=fid)
        hits = ctx.extra.setdefault("failing_cases_by_finding", {})
        hits[str(fid)] = hits.get(str(fid), 0) + 1
    return res, probs


# ============================================================================ harness entry points
# ====================================================================== correspondence (Lean model vs implementation)
# Model: lean/D3/Model/DistLine.lean (line and plane family), driver: lean/D3/Driver/C10.lean.
from fractions import Fraction

from core import f2h

MODELLED = ["point_to_line", "point_to_line_segment", "line_to_line", "line_to_line_segment",
            "line_segment_to_line_segment", "point_to_plane", "line_to_plane", "line_segment_to_plane",
            "plane_to_plane", "plane_to_triangle", "plane_to_rectangle", "plane_to_box",
            # only the tail after the two support-function calls is modelled (planeToSupportPair); the support
            # points are taken from the implementation (their correctness is property C03)
            "plane_to_ellipsoid", "plane_to_cylinder"]

# branch ids of the model that well-formed or malformed inputs can reach (coverage is reported against this table)
EXPECTED_BRANCHES = {
    "line_to_line": [0, 1], "line_to_line_segment": [0, 1, 2, 3, 4],
    "line_segment_to_line_segment": [0, 1, 2, 30, 31, 32, 40, 41, 42],
    "point_to_line_segment": [0, 1, 2, "err:divZero"], "line_to_plane": [0, 1],
    "line_segment_to_plane": [0, 1, 2, 3], "plane_to_plane": [0, 1],
    "plane_to_triangle": [0, 3, 10], "plane_to_rectangle": [0, 3, 10], "plane_to_box": [0, 10],
    "plane_to_ellipsoid": [0, 10], "plane_to_cylinder": [0, 10],
}

AXES = [(1, 0, 0), (0, 1, 0), (0, 0, 1), (-1, 0, 0), (0, -1, 0), (0, 0, -1)]
PYTH = [(0.6, 0.8, 0.0), (0.8, 0.6, 0.0), (0.0, 0.6, 0.8), (0.6, 0.0, 0.8), (-0.6, 0.8, 0.0), (0.0, -0.8, 0.6),
        (0.8, 0.0, -0.6)]
HALF = [x * 0.5 for x in range(-6, 7)]


def _lat_point(rng):
    return [rng.choice(HALF) for _ in range(3)]


def _lat_unit(rng, exact_only=False):
    if exact_only or rng.random() < 0.6:
        return [float(x) for x in rng.choice(AXES)]
    return list(rng.choice(PYTH))


def _rand_unit(rng):
    while True:
        v = np.array([rng.gauss(0, 1) for _ in range(3)])
        n = np.linalg.norm(v)
        if n > 1e-3:
            v = v / n
            v = v / np.linalg.norm(v)
            return v.tolist()


def _perp_to(rng, n):
    """an exactly perpendicular lattice unit vector for axis / 3-4-5 normals"""
    n = np.array(n, dtype=float)
    cands = [np.array(a, dtype=float) for a in AXES] + [np.array(p) for p in PYTH] + [-np.array(p) for p in PYTH]
    for p in PYTH:
        cands.append(np.array([-p[1], p[0], p[2]]) if p[2] == 0 else
                     (np.array([p[0], -p[2], p[1]]) if p[0] == 0 else np.array([-p[2], p[1], p[0]])))
    good = [c for c in cands if np.dot(c, n) == 0.0]
    return rng.choice(good).tolist() if good else None


def _lat_rot(rng):
    """signed permutation, optionally composed with a 3-4-5 rotation about z"""
    perm = rng.sample(range(3), 3)
    R = np.zeros((3, 3))
    for i, j in enumerate(perm):
        R[i, j] = rng.choice([-1.0, 1.0])
    if np.linalg.det(R) < 0:
        R[0] = -R[0]
    if rng.random() < 0.4:
        c, s = rng.choice([(0.6, 0.8), (0.8, 0.6), (0.8, -0.6)])
        R = R.dot(np.array([[c, -s, 0], [s, c, 0], [0, 0, 1.0]]))
    return R


def _rand_rot(rng):
    A = np.array([[rng.gauss(0, 1) for _ in range(3)] for _ in range(3)])
    Q, Rr = np.linalg.qr(A)
    Q = Q * np.sign(np.diag(Rr))
    if np.linalg.det(Q) < 0:
        Q[:, 0] = -Q[:, 0]
    return Q


def _gen_scale(rng):
    return 10 ** rng.uniform(math.log10(0.2), 2)


def _rand_point(rng, s):
    return [rng.uniform(-1, 1) * s for _ in range(3)]


def corr_gen(rng, fname, stream):
    """Generate one argument dict (plain lists/floats, keyed by the function's parameter names),
    built around the model's decisions."""
    L = stream == "L"
    pt = (lambda: _lat_point(rng)) if L else None
    s = 1.0 if L else _gen_scale(rng)
    if not L:
        off = rng.choice([0.0, 1.0, 1.0, 10.0]) * s
        base = np.array(_rand_point(rng, off))
        pt = lambda: (base + np.array(_rand_point(rng, s))).tolist()  # noqa
    unit = (lambda: _lat_unit(rng)) if L else (lambda: _rand_unit(rng))
    kind = rng.random()

    def seg(minlen=0.2):
        while True:
            a, b = pt(), pt()
            if np.linalg.norm(np.array(a) - np.array(b)) >= minlen:
                return a, b

    def on_line(p, d, t):
        return (np.array(p) + t * np.array(d)).tolist()

    if fname == "point_to_line":
        lp, ld = pt(), unit()
        p = pt()
        if kind < 0.25:
            p = on_line(lp, ld, rng.choice(HALF) if L else rng.uniform(-s, s))
        elif kind < 0.35:
            p = list(lp)
        return {"point": p, "line_point": lp, "line_direction": ld}
    if fname == "point_to_line_segment":
        a, b = seg()
        p = pt()
        if kind < 0.2:
            p = on_line(a, (np.array(b) - np.array(a)).tolist(), rng.choice([-1.0, -0.5, 0.0, 0.25, 0.5, 1.0, 1.5, 2.0]))
        elif kind < 0.3:
            p = list(rng.choice([a, b]))
        return {"point": p, "segment_start": a, "segment_end": b}
    if fname == "line_to_line":
        lp1, ld1, lp2, ld2 = pt(), unit(), pt(), unit()
        if kind < 0.25:
            ld2 = list(ld1) if rng.random() < 0.5 else (-np.array(ld1)).tolist()
        elif kind < 0.35:
            ld2 = list(ld1)
            lp2 = on_line(lp1, ld1, rng.choice(HALF) if L else rng.uniform(-s, s))   # coincident
        elif kind < 0.5:
            lp2 = on_line(lp1, ld1, rng.choice(HALF) if L else rng.uniform(-s, s))   # intersecting
        elif kind < 0.6 and not L:
            # nearly parallel, on both sides of the epsilon test |det| >= 1e-6  (det ~ angle^2)
            ang = 10 ** rng.uniform(-5, -1)
            q = np.array(_rand_unit(rng))
            v = np.array(ld1) + ang * q
            ld2 = (v / np.linalg.norm(v)).tolist()
        return {"line_point1": lp1, "line_direction1": ld1, "line_point2": lp2, "line_direction2": ld2}
    if fname == "line_to_line_segment":
        lp, ld = pt(), unit()
        a, b = seg()
        if kind < 0.25:       # parallel
            ln = rng.choice([0.5, 1.0, 2.0, 3.0]) if L else rng.uniform(0.2, 2) * s
            b = on_line(a, ld, ln * rng.choice([-1, 1]))
        elif kind < 0.35:     # segment inside the line
            a = on_line(lp, ld, rng.choice(HALF) if L else rng.uniform(-s, s))
            b = on_line(a, ld, rng.choice([0.5, 1.0, 2.0]) if L else rng.uniform(0.2, 2) * s)
        elif kind < 0.5:      # segment start / end on the line
            q = on_line(lp, ld, rng.choice(HALF) if L else rng.uniform(-s, s))
            if np.linalg.norm(np.array(q) - np.array(b)) >= 0.2:
                a = q
        return {"line_point": lp, "line_direction": ld, "segment_start": a, "segment_end": b}
    if fname == "line_segment_to_line_segment":
        a0, a1 = seg()
        b0, b1 = seg()
        d1 = np.array(a1) - np.array(a0)
        if kind < 0.2:        # parallel, shifted
            k = rng.choice([-2.0, -1.0, -0.5, 0.5, 1.0, 2.0])
            b1 = (np.array(b0) + k * d1).tolist()
        elif kind < 0.3:      # collinear (overlapping, touching or disjoint)
            t0 = rng.choice([-2.0, -1.0, -0.5, 0.0, 0.5, 1.0, 1.5, 2.0])
            k = rng.choice([-1.0, -0.5, 0.5, 1.0, 2.0])
            b0 = (np.array(a0) + t0 * d1).tolist()
            b1 = (np.array(b0) + k * d1).tolist()
        elif kind < 0.4:      # sharing an endpoint / touching
            b0 = list(rng.choice([a0, a1, (0.5 * (np.array(a0) + np.array(a1))).tolist()]))
            if np.linalg.norm(np.array(b0) - np.array(b1)) < 0.2:
                b1 = (np.array(b0) + np.array([0.0, 0.0, 1.0]) * s).tolist()
        elif kind < 0.45:     # identical
            b0, b1 = list(a0), list(a1)
        return {"segment_start1": a0, "segment_end1": a1, "segment_start2": b0, "segment_end2": b1}
    if fname == "point_to_plane":
        pp, n = pt(), unit()
        p = pt()
        if kind < 0.2:
            p = list(pp)
        elif kind < 0.4 and L:
            q = _perp_to(rng, n)
            if q is not None:
                p = on_line(pp, q, rng.choice(HALF))
        return {"point": p, "plane_point": pp, "plane_normal": n}
    if fname == "line_to_plane":
        pp, n = pt(), unit()
        lp, ld = pt(), unit()
        if kind < 0.3:        # parallel (exactly perpendicular to the normal)
            q = _perp_to(rng, n) if L else None
            if q is None:
                v = np.cross(n, _rand_unit(rng))
                q = (v / np.linalg.norm(v)).tolist()
            ld = q
            if kind < 0.1:
                lp = on_line(pp, q, rng.choice(HALF) if L else rng.uniform(-s, s))   # in the plane
        elif kind < 0.4:
            ld = list(n)
        elif kind < 0.5 and not L:   # nearly parallel on both sides of l*l < 1e-6
            v = np.cross(n, _rand_unit(rng))
            v = v / np.linalg.norm(v) + 10 ** rng.uniform(-5, -1) * np.array(n)
            ld = (v / np.linalg.norm(v)).tolist()
        return {"line_point": lp, "line_direction": ld, "plane_point": pp, "plane_normal": n}
    if fname == "line_segment_to_plane":
        pp, n = pt(), unit()
        a, b = seg()
        if kind < 0.25:       # parallel
            q = _perp_to(rng, n) if L else None
            if q is None:
                v = np.cross(n, _rand_unit(rng))
                q = (v / np.linalg.norm(v)).tolist()
            b = on_line(a, q, rng.choice([0.5, 1.0, 2.0, -1.0]) if L else rng.uniform(0.2, 2) * s)
            if kind < 0.1:
                a = on_line(pp, q, rng.choice(HALF) if L else rng.uniform(-s, s))
                b = on_line(a, q, rng.choice([0.5, 1.0, 2.0, -1.0]) if L else rng.uniform(0.2, 2) * s)
        elif kind < 0.4:      # touching with an end point
            q = _perp_to(rng, n) if L else None
            if q is not None:
                e = on_line(pp, q, rng.choice(HALF))
                if np.linalg.norm(np.array(e) - np.array(a)) >= 0.2:
                    b = e
                    if rng.random() < 0.5:
                        a, b = b, a
        elif kind < 0.5:      # perpendicular
            b = on_line(a, n, rng.choice([0.5, 1.0, 2.0, -1.0, -3.0]) if L else rng.uniform(0.2, 2) * s)
        return {"segment_start": a, "segment_end": b, "plane_point": pp, "plane_normal": n}
    if fname == "plane_to_plane":
        pp1, n1, pp2, n2 = pt(), unit(), pt(), unit()
        if kind < 0.3:
            n2 = list(n1) if rng.random() < 0.5 else (-np.array(n1)).tolist()
        elif kind < 0.4:
            n2 = list(n1)
            pp2 = list(pp1)
        elif kind < 0.5 and not L:   # nearly parallel on both sides of |n1 x n2| > 1e-6
            v = np.array(n1) + 10 ** rng.uniform(-8, -4) * np.array(_rand_unit(rng))
            n2 = (v / np.linalg.norm(v)).tolist()
        return {"plane_point1": pp1, "plane_normal1": n1, "plane_point2": pp2, "plane_normal2": n2}
    if fname == "plane_to_triangle":
        pp, n = pt(), unit()
        while True:
            tri = [pt(), pt(), pt()]
            ar = np.linalg.norm(np.cross(np.array(tri[1]) - np.array(tri[0]), np.array(tri[2]) - np.array(tri[0])))
            el = min(np.linalg.norm(np.array(tri[i]) - np.array(tri[(i + 1) % 3])) for i in range(3))
            if ar >= 0.02 * s * s and el >= 0.2:
                break
        if kind < 0.15:
            pp = list(tri[0])                       # vertex in the plane
        elif kind < 0.3 and L:
            q = _perp_to(rng, n)                    # an edge parallel to the plane
            if q is not None:
                tri[1] = on_line(tri[0], q, rng.choice([0.5, 1.0, 2.0]))
                ar = np.linalg.norm(np.cross(np.array(tri[1]) - np.array(tri[0]), np.array(tri[2]) - np.array(tri[0])))
                if ar < 0.02:
                    tri[2] = (np.array(tri[2]) + np.array(n)).tolist()
        return {"plane_point": pp, "plane_normal": n, "triangle_points": tri}
    if fname == "plane_to_rectangle":
        pp, n = pt(), unit()
        R = _lat_rot(rng) if L else _rand_rot(rng)
        c = pt()
        lens = [rng.choice([0.5, 1.0, 2.0, 3.0]) if L else _gen_scale(rng) for _ in range(2)]
        if kind < 0.25:
            n = R[:, 2].tolist()                    # parallel to the plane
            if kind < 0.1:
                pp = list(c)
        elif kind < 0.4:
            n = R[:, 0].tolist()                    # perpendicular, two edges parallel
        return {"plane_point": pp, "plane_normal": n, "rectangle_center": c,
                "rectangle_axes": [R[:, 0].tolist(), R[:, 1].tolist()], "rectangle_lengths": lens}
    if fname == "plane_to_box":
        pp, n = pt(), unit()
        R = _lat_rot(rng) if L else _rand_rot(rng)
        c = pt()
        size = [rng.choice([0.5, 1.0, 2.0, 3.0]) if L else _gen_scale(rng) for _ in range(3)]
        if kind < 0.3:
            n = R[:, rng.randrange(3)].tolist()      # a face parallel to the plane
            if kind < 0.15:                         # touching
                k = rng.randrange(3)
                n = R[:, k].tolist()
                pp = (np.array(c) + 0.5 * size[k] * R[:, k]).tolist()
        elif kind < 0.4:
            pp = list(c)
        T = np.eye(4)
        T[:3, :3] = R
        T[:3, 3] = c
        return {"plane_point": pp, "plane_normal": n, "box2origin": T.tolist(), "size": size}
    if fname in ("plane_to_ellipsoid", "plane_to_cylinder"):
        pp, n = pt(), unit()
        R = _lat_rot(rng) if L else _rand_rot(rng)
        c = pt()
        if kind < 0.3:
            n = R[:, rng.randrange(3)].tolist()      # plane normal along a body axis
        elif kind < 0.4:
            pp = list(c)                            # plane through the centre
        T = np.eye(4)
        T[:3, :3] = R
        T[:3, 3] = c
        if fname == "plane_to_ellipsoid":
            radii = [rng.choice([0.5, 1.0, 2.0, 3.0]) if L else _gen_scale(rng) for _ in range(3)]
            return {"plane_point": pp, "plane_normal": n, "ellipsoid2origin": T.tolist(), "radii": radii}
        return {"plane_point": pp, "plane_normal": n, "cylinder2origin": T.tolist(),
                "radius": rng.choice([0.5, 1.0, 2.0]) if L else _gen_scale(rng),
                "length": rng.choice([0.5, 1.0, 3.0]) if L else _gen_scale(rng)}
    raise KeyError(fname)


def corr_gen_edge(rng, fname):
    """malformed / edge stream: zero-length and sub-epsilon segments, zero directions, non-unit directions —
    reaches the degenerate branches (0, 1, 2) and the `divZero` outcome of the model"""
    tiny = lambda: [rng.choice([0.0, 2.0 ** -12, -2.0 ** -11, 2.0 ** -10]) for _ in range(3)]  # noqa
    p = lambda: _lat_point(rng)  # noqa
    add = lambda a, b: (np.array(a) + np.array(b)).tolist()  # noqa
    k = rng.random()
    if fname == "point_to_line_segment":
        a = p()
        return {"point": p(), "segment_start": a, "segment_end": list(a) if k < 0.5 else add(a, tiny())}
    if fname == "line_to_line_segment":
        a = p()
        ld = [0.0, 0.0, 0.0] if k < 0.3 else (tiny() if k < 0.5 else _lat_unit(rng, True))
        b = add(a, tiny()) if rng.random() < 0.7 else p()
        return {"line_point": p(), "line_direction": ld, "segment_start": a, "segment_end": b}
    if fname == "line_segment_to_line_segment":
        a0, b0 = p(), p()
        a1 = add(a0, tiny()) if k < 0.66 else p()
        b1 = add(b0, tiny()) if (k < 0.33 or k >= 0.66) else p()
        return {"segment_start1": a0, "segment_end1": a1, "segment_start2": b0, "segment_end2": b1}
    if fname == "line_segment_to_plane":
        a = p()
        return {"segment_start": a, "segment_end": list(a) if k < 0.5 else add(a, tiny()),
                "plane_point": p(), "plane_normal": _lat_unit(rng, True)}
    if fname == "line_to_line":
        return {"line_point1": p(), "line_direction1": [rng.choice([0.0, 1.0, 2.0, -0.5]) for _ in range(3)],
                "line_point2": p(), "line_direction2": [rng.choice([0.0, 1.0, 2.0, -0.5]) for _ in range(3)]}
    if fname == "line_to_plane":
        return {"line_point": p(), "line_direction": [rng.choice([0.0, 1.0, -0.5]) for _ in range(3)],
                "plane_point": p(), "plane_normal": [rng.choice([0.0, 1.0, 0.5]) for _ in range(3)]}
    return None


def _vec(x):
    return np.ascontiguousarray(np.array(x, dtype=np.float64))


def corr_impl(fname, args):
    """Call the real function; returns dict(d, p1, p2[, t1, t2]) (for point_to_X: p1 = the point)."""
    import distance3d.distance as dd
    from distance3d.distance import _line as dl
    a = {k: (_vec(v) if isinstance(v, list) else v) for k, v in args.items()}
    if fname == "point_to_line":
        d, p, t = dl._point_to_line(a["point"], a["line_point"], a["line_direction"])
        d2, p2 = dd.point_to_line(_vec(args["point"]), a["line_point"], a["line_direction"])
        assert float(d2) == float(d) or (d != d and d2 != d2)
        return {"d": float(d), "p1": args["point"], "p2": p.tolist(), "t1": float(t)}
    if fname == "point_to_line_segment":
        d, p = dd.point_to_line_segment(a["point"], a["segment_start"], a["segment_end"])
        return {"d": float(d), "p1": args["point"], "p2": p.tolist()}
    if fname == "line_to_line":
        eps = 1e-6
        import inspect
        eps = inspect.signature(dd.line_to_line).parameters["epsilon"].default
        d, p1, p2, t1, t2 = dl._line_to_line(a["line_point1"], a["line_direction1"], a["line_point2"],
                                              a["line_direction2"], eps)
        d_, p1_, p2_ = dd.line_to_line(a["line_point1"], a["line_direction1"], a["line_point2"],
                                       a["line_direction2"])
        assert float(d_) == float(d)
        return {"d": float(d), "p1": p1.tolist(), "p2": p2.tolist(), "t1": float(t1), "t2": float(t2)}
    if fname == "line_to_line_segment":
        import inspect
        eps = inspect.signature(dd.line_to_line_segment).parameters["epsilon"].default
        d, p1, p2, t, s = dl._line_to_line_segment(a["line_point"], a["line_direction"], a["segment_start"],
                                                    a["segment_end"], eps)
        d_, _, _ = dd.line_to_line_segment(a["line_point"], a["line_direction"], a["segment_start"],
                                           a["segment_end"])
        assert float(d_) == float(d)
        return {"d": float(d), "p1": p1.tolist(), "p2": p2.tolist(), "t1": float(t), "t2": float(s)}
    if fname == "line_segment_to_line_segment":
        d, p1, p2 = dd.line_segment_to_line_segment(a["segment_start1"], a["segment_end1"], a["segment_start2"],
                                                    a["segment_end2"])
        return {"d": float(d), "p1": p1.tolist(), "p2": p2.tolist()}
    if fname == "point_to_plane":
        d, p = dd.point_to_plane(a["point"], a["plane_point"], a["plane_normal"])
        return {"d": float(d), "p1": args["point"], "p2": p.tolist()}
    if fname in ("plane_to_ellipsoid", "plane_to_cylinder"):
        from distance3d import geometry as gm
        n = a["plane_normal"]
        if fname == "plane_to_ellipsoid":
            T, rad = a["ellipsoid2origin"], a["radii"]
            s1 = gm.support_function_ellipsoid(-n, T, rad)
            s2 = gm.support_function_ellipsoid(n, T, rad)
            d, p1, p2 = dd.plane_to_ellipsoid(a["plane_point"], n, T, rad)
        else:
            T = a["cylinder2origin"]
            s1 = gm.support_function_cylinder(-n, T, float(args["radius"]), float(args["length"]))
            s2 = gm.support_function_cylinder(n, T, float(args["radius"]), float(args["length"]))
            d, p1, p2 = dd.plane_to_cylinder(a["plane_point"], n, T, float(args["radius"]), float(args["length"]))
        return {"d": float(d), "p1": np.asarray(p1).tolist(), "p2": np.asarray(p2).tolist(),
                "support": np.asarray(s1).tolist() + np.asarray(s2).tolist()}
    order = {
        "line_to_plane": ["line_point", "line_direction", "plane_point", "plane_normal"],
        "line_segment_to_plane": ["segment_start", "segment_end", "plane_point", "plane_normal"],
        "plane_to_plane": ["plane_point1", "plane_normal1", "plane_point2", "plane_normal2"],
        "plane_to_triangle": ["plane_point", "plane_normal", "triangle_points"],
        "plane_to_rectangle": ["plane_point", "plane_normal", "rectangle_center", "rectangle_axes",
                               "rectangle_lengths"],
        "plane_to_box": ["plane_point", "plane_normal", "box2origin", "size"],
    }[fname]
    d, p1, p2 = getattr(dd, fname)(*[a[k] for k in order])
    return {"d": float(d), "p1": np.asarray(p1).tolist(), "p2": np.asarray(p2).tolist()}


def _flat(args, fname):
    """scalars in the order the driver function parses them"""
    out = []
    if fname == "plane_to_box":
        T = np.array(args["box2origin"], dtype=float)
        out += list(args["plane_point"]) + list(args["plane_normal"])
        out += T[:3, :3].reshape(-1).tolist() + T[:3, 3].tolist() + list(args["size"])
        return out
    names = FUNCS[fname]["params"][0] + FUNCS[fname]["params"][1]
    for k in names:
        out += np.array(args[k], dtype=float).reshape(-1).tolist()
    return out


def _enc(vals, mode):
    if mode == "F":
        return [f2h(x) for x in vals]
    return [core.q2s(Fraction(float(x))) for x in vals]


def _parse(out, mode):
    """driver output -> dict(br, d, p1, p2, t1, t2) or dict(err=…)"""
    parts = out.split()
    if not parts or parts[0] == "bad":
        return {"bad": out}
    if parts[0] == "err":
        return {"err": parts[1]}
    conv = core.h2f if mode == "F" else (lambda s: core.s2q(s))
    br = int(parts[1])
    nums = [conv(x) for x in parts[2:] if ("/" in x or len(x) == 16)]
    r = {"br": br, "d": nums[0]}
    rest = nums[1:]
    if len(rest) >= 6:
        r["p1"], r["p2"] = rest[0:3], rest[3:6]
        if len(rest) >= 8:
            r["t1"], r["t2"] = rest[6], rest[7]
    else:
        r["p2"] = rest[0:3]
        if len(rest) >= 4:
            r["t1"] = rest[3]
    return r


def _scale(args):
    m = 1.0
    for k, v in args.items():
        a = np.abs(np.array(v, dtype=float))
        if k in ("box2origin",):
            a = a[:3, 3]
        if a.size:
            m = max(m, float(a.max()))
    return m


def _cond(fname, args):
    """condition allowance (>= 1): amplification of input rounding by the division of the branch taken"""
    a = {k: np.array(v, dtype=float) for k, v in args.items()}
    if fname == "line_to_line":
        c = float(np.dot(a["line_direction1"], a["line_direction2"]))
        det = abs(1.0 - c * c)
        return 1.0 / max(det, 1e-6) if det >= 1e-7 else 1.0
    if fname in ("line_to_line_segment", "line_segment_to_line_segment"):
        if fname == "line_to_line_segment":
            d1, d2 = a["segment_end"] - a["segment_start"], a["line_direction"]
        else:
            d1, d2 = a["segment_end1"] - a["segment_start1"], a["segment_end2"] - a["segment_start2"]
        aa, ee, bb = np.dot(d1, d1), np.dot(d2, d2), np.dot(d1, d2)
        den = aa * ee - bb * bb
        return min(1e7, aa * ee / den) if den > 0 else 1e7
    if fname in ("line_to_plane", "line_segment_to_plane"):
        if fname == "line_to_plane":
            ld = a["line_direction"]
        else:
            ld = a["segment_end"] - a["segment_start"]
            ld = ld / max(np.linalg.norm(ld), 1e-300)
        l = abs(float(np.dot(ld, a["plane_normal"])))
        return 1.0 / max(l, 1e-3)
    if fname == "plane_to_plane":
        m = float(np.linalg.norm(np.cross(a["plane_normal1"], a["plane_normal2"])))
        return 1.0 / max(m * m, 1e-12) if m > 1e-6 else 1.0
    if fname in ("plane_to_triangle", "plane_to_rectangle", "plane_to_box", "plane_to_ellipsoid",
                 "plane_to_cylinder"):
        return 1e3
    return 1.0


def _close(py, mo, tol, fields=("d", "p1", "p2"), dsq=False):
    """dsq: the distance is sqrt(|q|) of a quantity q that suffers cancellation when the primitives
    (nearly) intersect (`_line_to_line`): compare q = d^2 with the tolerance scaled accordingly"""
    worst = 0.0
    if dsq and "d" in fields:
        fields = tuple(f for f in fields if f != "d")
        w = abs(float(py["d"]) ** 2 - float(mo["d"]) ** 2)
        if not (w <= tol * max(1.0, float(py["d"]))) or not math.isfinite(py["d"]):
            return False, w
    for f in fields:
        if f not in py or f not in mo:
            continue
        x = np.array(py[f], dtype=float).reshape(-1)
        y = np.array([float(v) for v in (mo[f] if isinstance(mo[f], (list, tuple)) else [mo[f]])])
        if x.shape != y.shape:
            return False, float("inf")
        if not np.all(np.isfinite(x)):
            return False, float("inf")
        worst = max(worst, float(np.max(np.abs(x - y))) if x.size else 0.0)
    return worst <= tol, worst


def run_correspondence(ctx, cases, tag):
    """cases: list of (fname, stream, args)."""
    drv = core.Driver("c10-" + tag)
    plan = []
    for fname, stream, args in cases:
        try:
            with np.errstate(all="ignore"):
                py = corr_impl(fname, args)
        except Exception as e:  # noqa
            py = {"exc": type(e).__name__ + ": " + str(e)[:200]}
        if fname in ("plane_to_ellipsoid", "plane_to_cylinder"):
            if "support" not in py:
                ctx.broke("correspondence", "distance." + fname, "implementation raised %s" % py.get("exc"),
                          {"function": fname, "args": args})
                continue
            vals = list(args["plane_point"]) + list(args["plane_normal"]) + py["support"]
            dfn = "C10.plane_to_support_pair"
        else:
            vals = _flat(args, fname)
            dfn = "C10." + fname
        cf = drv.add(dfn, "F", _enc(vals, "F"))
        cq = drv.add(dfn, "Q", _enc(vals, "Q"))
        plan.append((fname, stream, args, cf, cq, py))
    out = drv.run()
    env = ctx.extra.setdefault("rounding_envelope", {})
    ties = ctx.extra.setdefault("ties_arbitrated", {})
    for fname, stream, args, cf, cq, py in plan:
        mf = _parse(out.get(cf, "bad missing"), "F")
        mq = _parse(out.get(cq, "bad missing"), "Q")
        key = (fname, tuple(_enc(_flat(args, fname), "F")))
        ctx.count("corr:" + stream, key=key, sample={"fn": fname, "stream": stream, "args": args})
        name = "distance." + fname
        seed_input = {"function": fname, "args": args}
        if "bad" in mf or "bad" in mq:
            ctx.broke("correspondence", name, "driver: %s / %s" % (mf.get("bad"), mq.get("bad")), seed_input)
            continue
        if "err" in mq or "err" in mf:
            # the model reports a division by zero: the implementation must show inf/nan or raise
            ctx.branch(fname, "err:" + str(mq.get("err", mf.get("err"))))
            bad_py = "exc" in py or not all(np.all(np.isfinite(np.array(py[k], dtype=float)))
                                            for k in ("d", "p1", "p2") if k in py)
            if not bad_py:
                ctx.broke("correspondence", name, "model says %s / %s, implementation returns finite %s" % (mf, mq, py),
                          seed_input)
            continue
        if "exc" in py:
            ctx.broke("correspondence", name, "implementation raised %s, model ok (branch %s)" % (py["exc"], mq["br"]),
                      seed_input)
            continue
        ctx.branch(fname, mq["br"])
        if "t1" in mq and fname not in ("point_to_line", "line_to_line"):
            ctx.branch(fname + ":clamp", "%d%d" % (_region(mq.get("t1")), _region(mq.get("t2", 0))))
        sc = _scale(args)
        exact = stream in ("L", "M") and all(float(x) * 4096 == round(float(x) * 4096) and abs(x) < 64 for x in _flat(args, fname)) and stream == "M" or stream == "L" and all(float(x) == round(float(x) * 2) / 2 for x in _flat(args, fname)
                                      if not isinstance(x, bool))
        exact = exact and fname not in ("plane_to_ellipsoid", "plane_to_cylinder")
        tol = (1e-12 if exact else 1e-9 * _cond(fname, args)) * sc
        dsq = fname == "line_to_line"
        okF, wF = _close(py, mf, tol, dsq=dsq)
        okQ, wQ = _close(py, mq, tol, dsq=dsq)
        if okQ:
            env[fname] = max(env.get(fname, 0.0), wQ / sc)
        if exact:
            # all decisions are exact: branch ids must agree exactly between Float and Rat model
            if mf["br"] != mq["br"]:
                # a decision whose exact margin is zero (e.g. `t <= segment_length` for a segment ending exactly on
                # the plane, where `segment_length` is an irrational square root): Float and exact evaluation may
                # take different sides; both sides must then give the same values
                ties[fname] = ties.get(fname, 0) + 1
                if not (okF and (okQ or _close(py, mq, 1e-9 * sc, dsq=dsq)[0])):
                    ctx.broke("correspondence", name,
                              "lattice input: Float model branch %s != Rat model branch %s and the values differ: "
                              "implementation %s vs model F %s / Q %s" % (mf["br"], mq["br"], py, _fl(mf), _fl(mq)),
                              seed_input)
                continue
            if not (okF and okQ):
                ctx.broke("correspondence", name,
                          "lattice input (exact arithmetic): implementation %s vs model F %s / Q %s (|Δ| F %.3g Q %.3g > %.3g)"
                          % (py, _fl(mf), _fl(mq), wF, wQ, tol), seed_input)
            continue
        if okF or okQ:
            if mf["br"] != mq["br"]:
                ties[fname] = ties.get(fname, 0) + 1
            continue
        # disagreement with both: a branch flip between Float and exact evaluation is a tie — then only the
        # distance has to agree with one of them (points may differ along a degenerate direction)
        if mf["br"] != mq["br"] or _near_decision(fname, args):
            ties[fname] = ties.get(fname, 0) + 1
            # (nearly) parallel segments: every clamped s is optimal up to sin(angle)*length, so the distances of the
            # three evaluations may differ by that much (sin^2 <= 1e-9 in this class)
            told = max(tol, 4e-5 * sc) if fname in ("line_to_line_segment", "line_segment_to_line_segment") else tol
            okd = _close(py, mf, told, ("d",), dsq=dsq)[0] or _close(py, mq, told, ("d",), dsq=dsq)[0]
            if okd and fname.startswith("plane_to_") and fname != "plane_to_plane":
                # vertex ties leave the in-plane position open, not the heights of the two points over the plane
                # (this keeps the (plane point, hull point) order under comparison)
                pp_, n_ = np.array(args["plane_point"], dtype=float), np.array(args["plane_normal"], dtype=float)
                hgt = lambda r_: [float((np.array([float(x) for x in r_[k]]) - pp_).dot(n_)) for k in ("p1", "p2")]  # noqa
                hp_, hm_ = hgt(py), hgt(mq)
                okd = all(abs(a_ - b_) <= told for a_, b_ in zip(hp_, hm_))
            if okd:
                continue
        ctx.broke("correspondence", name,
                  "implementation %s vs model F %s / Q %s (|Δ| F %.3g Q %.3g > %.3g, scale %.3g)"
                  % (py, _fl(mf), _fl(mq), wF, wQ, tol, sc), seed_input)


def _region(t):
    if t is None:
        return 9
    return 0 if t <= 0 else (2 if t >= 1 else 1)


def _fl(m):
    return {k: ([float(x) for x in v] if isinstance(v, (list, tuple)) else (float(v) if k != "br" else v))
            for k, v in m.items()}


def _near_decision(fname, args):
    """exact (Fraction) recomputation of the deciding quantity of the epsilon tests: True when the input sits
    within 1e-9 (relative) of the threshold, where Float and exact evaluation may legitimately take different
    branches"""
    F = lambda v: [Fraction(float(x)) for x in v]  # noqa
    dot = lambda u, v: sum(x * y for x, y in zip(u, v))  # noqa
    if fname == "line_to_line":
        c = dot(F(args["line_direction1"]), F(args["line_direction2"]))
        det = abs(1 - c * c)
        return abs(det - Fraction(1, 10 ** 6)) < Fraction(1, 10 ** 15)
    if fname == "line_to_plane":
        l = dot(F(args["line_direction"]), F(args["plane_normal"]))
        return abs(l * l - Fraction(1, 10 ** 6)) < Fraction(1, 10 ** 15)
    if fname in ("line_to_line_segment", "line_segment_to_line_segment"):
        if fname == "line_to_line_segment":
            d1 = [y - x for x, y in zip(F(args["segment_start"]), F(args["segment_end"]))]
            d2 = F(args["line_direction"])
        else:
            d1 = [y - x for x, y in zip(F(args["segment_start1"]), F(args["segment_end1"]))]
            d2 = [y - x for x, y in zip(F(args["segment_start2"]), F(args["segment_end2"]))]
        a, e, b = dot(d1, d1), dot(d2, d2), dot(d1, d2)
        # sin^2 of the angle between the directions (exact): below 1e-9 the float value of `denom` (relative
        # rounding error ~1e-16/sin^2 ... of a difference of two products) decides the branch and the parameter s
        return abs(a * e - b * b) <= Fraction(1, 10 ** 9) * a * e
    if fname in ("plane_to_ellipsoid", "plane_to_cylinder"):
        return False
    if fname in ("plane_to_triangle", "plane_to_rectangle", "plane_to_box"):
        # argmin/argmax over the vertex heights: two (nearly) equal heights make the chosen vertex a tie
        ts = sorted(_hull_heights(fname, args))
        sc = _scale(args)
        return any(abs(x - y) <= 1e-9 * sc for x, y in zip(ts, ts[1:])) or \
            any(abs(abs(x) - abs(y)) <= 1e-9 * sc for i, x in enumerate(ts) for y in ts[i + 1:])
    return False


def _hull_heights(fname, args):
    a = {k: np.array(v, dtype=float) for k, v in args.items()}
    if fname == "plane_to_triangle":
        pts = a["triangle_points"]
    elif fname == "plane_to_rectangle":
        co = np.array([[-0.5, -0.5], [-0.5, 0.5], [0.5, -0.5], [0.5, 0.5]])
        pts = a["rectangle_center"] + (co * a["rectangle_lengths"]).dot(a["rectangle_axes"])
    else:
        co = np.array([[i, j, k] for i in (-0.5, 0.5) for j in (-0.5, 0.5) for k in (-0.5, 0.5)])
        T = a["box2origin"]
        pts = T[:3, 3] + (co * a["size"]).dot(T[:3, :3].T)
    return ((pts - a["plane_point"]).dot(a["plane_normal"])).tolist()


def correspondence(ctx):
    """Lean model (F and Q mode) vs implementation on (a) generators built around the model's decisions
    (corr_gen: lattice / general; corr_gen_edge: malformed), (b) the placement generators of the search
    (gen_case), (c) the recorded witnesses of the modelled functions (the faithful model must reproduce the
    defective outputs too)."""
    n = ctx.budget(300, 6000)
    cases = []
    for k in _known_list():
        w = k.get("witness", {})
        if w.get("fn") in MODELLED and isinstance(w.get("args"), dict):
            cases.append((w["fn"], "K", w["args"]))
    for fn, a in REGRESSION_WITNESSES:
        if fn in MODELLED:
            cases.append((fn, "K", a))
    for fname in MODELLED:
        for i in range(n):
            stream = "L" if i % 2 == 0 else "G"
            cases.append((fname, stream, corr_gen(ctx.rng, fname, stream)))
        for i in range(n // 3):
            stream = "L" if i % 2 == 0 else "G"
            cases.append((fname, stream + "p", gen_case(ctx.rng, fname, stream)))
        for i in range(max(10, n // 5)):
            a = corr_gen_edge(ctx.rng, fname)
            if a is not None:
                cases.append((fname, "M", a))
    run_correspondence(ctx, cases, "corr")
    unreached = {}
    for fn, ids in EXPECTED_BRANCHES.items():
        seen = set(ctx.branches.get(fn, {}))
        miss = [i for i in ids if str(i) not in seen]
        if miss:
            unreached[fn] = miss
    ctx.extra["unreached_branches"] = unreached
    ctx.notes.append("plane_to_triangle/rectangle/box branches 1, 2 (t outside the segment although the end points "
                     "straddle the plane) are unreachable in exact arithmetic (straddle_hit); branch 3 is the band "
                     "(shallow crossing treated as parallel: feasible since /repo 4c5c535, not optimal); "
                     "plane_to_box/ellipsoid/cylinder cannot reach it inside domain P")


# quick-tier cases per function and stream (interpreted engine; calibrated so the whole quick search stays < 40 s)
QUICK = {f: 1200 for f in FUNCS}
QUICK.update({"point_to_triangle": 800, "point_to_ellipsoid": 800, "line_to_triangle": 800,
              "line_segment_to_triangle": 800, "plane_to_triangle": 800, "line_to_circle": 1000,
              "line_segment_to_circle": 1000, "line_to_rectangle": 1000, "line_segment_to_rectangle": 1000,
              "disk_to_disk": 1000, "triangle_to_triangle": 400, "triangle_to_rectangle": 400,
              "rectangle_to_rectangle": 400, "rectangle_to_box": 250})
THOROUGH_FACTOR = 8


# witnesses of defects that were repaired in /repo: replayed on every run as regression inputs (they carry no
# finding id any more, so a regression is a VIOLATION)
REGRESSION_WITNESSES = [
    # /repo 714bcb1 "fix: line_to_circle returned a point off the circle when the line is the circle's axis"
    # (was F-c10-linecircle-axis-exact; recorded as fixed in known_findings.json: F-C11-line-circle-axis)
    ("line_to_circle", {"line_point": [0.0, 0.0, 0.0], "line_direction": [0.6, 0.0, 0.8], "center": [0.0, 0.0, 0.0],
                        "radius": 1.0, "normal": [0.6, 0.0, 0.8]}),
    ("line_segment_to_circle", {"segment_start": [0.0, 0.0, 0.0], "segment_end": [1.2, 0.0, 1.6],
                                "center": [0.0, 0.0, 0.0], "radius": 1.0, "normal": [0.6, 0.0, 0.8]}),
    ("line_to_circle", {"line_point": [1.0, 2.0, 3.0], "line_direction": [-0.6, 0.0, 0.8], "center": [1.0, 2.0, 3.0],
                        "radius": 3.0, "normal": [-0.6, 0.0, 0.8]}),
    # /repo 4c5c535 "fix: plane_to_triangle/rectangle/box returned their two points in swapped order for nearly
    # parallel crossings" (was F-c10-plane-hull-swapped; input of the Lean theorem
    # C10.planeToTriangle_before_fix_counterexample, plus a rectangle in the same band)
    ("plane_to_triangle", {"plane_point": [0.0, 0.0, 0.0], "plane_normal": [0.0, 0.0, 1.0],
                           "triangle_points": [[0.0, 0.0, -0.000244140625], [1.0, 0.0, 0.000244140625],
                                               [0.0, 1.0, 0.000244140625]]}),
    ("plane_to_triangle", {"plane_point": [0.0, 0.0, 0.0], "plane_normal": [0.0, 0.0, 1.0],
                           "triangle_points": [[0.0, 0.0, -0.0001], [1.0, 0.0, 0.0001], [0.0, 1.0, 0.0]]}),
    ("plane_to_rectangle", {"plane_point": [0.0, 0.0, 0.0], "plane_normal": [0.0, 0.0, 1.0],
                            "rectangle_center": [0.0, 0.0, 0.0],
                            "rectangle_axes": [[0.9999999701976776, 0.0, 0.000244140625], [0.0, 1.0, 0.0]],
                            "rectangle_lengths": [1.0, 1.0]}),
    # /repo 0e4a1a6 "fix: point_to_circle treated every point within 1e-3 of the circle's axis as lying on the axis"
    # (was F-c10-circle-axis-band: d = sqrt(r^2+h^2) inconsistent with the returned rim point)
    ("point_to_circle", {"point": [0.0005, 0.0, 0.5], "center": [0.0, 0.0, 0.0], "radius": 1.0,
                         "normal": [0.0, 0.0, 1.0]}),
    ("point_to_circle", {"point": [0.0005, 0.0, 0.0], "center": [0.0, 0.0, 0.0], "radius": 1.0,
                         "normal": [0.0, 0.0, 1.0]}),
    ("line_segment_to_circle", {"segment_start": [0.0005, 0.0, 0.5], "segment_end": [0.0005, 0.0, 2.5],
                                "center": [0.0, 0.0, 0.0], "radius": 1.0, "normal": [0.0, 0.0, 1.0]}),
    # /repo a2da3a4 "fix: line_to_box raised 'math domain error' when the line passes through the box"
    # (was F-c10-linebox-sqrt-negative)
    ("line_to_box", {"line_point": [0.3999999999999999, 1.7, 1.5], "line_direction": [0.36, 0.48, 0.8],
                     "box2origin": [[1.0, 0.0, 0.0, 0.0], [0.0, 1.0, 0.0, 0.0], [0.0, 0.0, 1.0, 0.0],
                                    [0.0, 0.0, 0.0, 1.0]], "size": [1.0, 1.0, 1.0]}),
    ("line_segment_to_box", {"segment_start": [0.3999999999999999, 1.7, 1.5],
                             "segment_end": [-0.68, 0.26, -0.9],
                             "box2origin": [[1.0, 0.0, 0.0, 0.0], [0.0, 1.0, 0.0, 0.0], [0.0, 0.0, 1.0, 0.0],
                                            [0.0, 0.0, 0.0, 1.0]], "size": [1.0, 1.0, 1.0]}),
]


def search(ctx):
    for fn, a in REGRESSION_WITNESSES:
        check_case(ctx, fn, a, "R", tag="regression-witness")
    for k in _known_list():
        w = k.get("witness", {})
        if w.get("fn") in FUNCS and isinstance(w.get("args"), dict):
            check_case(ctx, w["fn"], w["args"], "K", tag="known-witness")
    boost = 3 if ctx.extra.get("search_boost") else 1
    per = {}
    for fname in FUNCS:
        n = ctx.budget(QUICK[fname], QUICK[fname] * THOROUGH_FACTOR) * boost
        per[fname] = n
        for stream in ("L", "G"):
            for _ in range(n):
                args, tag = gen_case_tagged(ctx.rng, fname, stream)
                check_case(ctx, fname, args, stream, tag=tag)
    # repeated calls through caller-owned buffers that are overwritten in place between calls (pose matrices,
    # points, directions): the result must depend on the current CONTENT of the arrays, not on their identity
    nseq = ctx.budget(6, 60) * boost
    for fname in FUNCS:
        for _ in range(nseq):
            bufs = {}
            stream = ctx.rng.choice(["L", "G"])
            for _k in range(3):
                args, tag = gen_case_tagged(ctx.rng, fname, stream)
                check_case(ctx, fname, args, stream + "-reused-buffers", tag=(tag or "") + "/reused-buffers", bufs=bufs)
    ctx.extra["search_cases_per_function"] = per
    ctx.extra["search_streams"] = ["L", "G"]


def replay(ctx, payload):
    fname = payload.get("function")
    args = payload.get("args")
    if fname not in FUNCS or not isinstance(args, dict):
        # kind "no-failing-input-found": the file names what no longer checks (theorem / correspondence); for a
        # correspondence entry the recorded input is re-run through model and implementation
        seeds = [b["seed_input"] for b in payload.get("broken", [])
                 if isinstance(b.get("seed_input"), dict) and b["seed_input"].get("function") in MODELLED]
        for b in payload.get("broken", [])[:5]:
            print("broken:", b.get("kind"), b.get("name"), str(b.get("message"))[:300])
        if not seeds:
            print("replay file names no input")
            return False
        c2 = core.Ctx(ctx.prop, ctx.tier, ctx.seed)
        run_correspondence(c2, [(sd["function"], "R", sd["args"]) for sd in seeds[:5]], "replay")
        ok = True
        for sd in seeds[:5]:
            res = call_impl(sd["function"], sd["args"])
            for pb in oracle(sd["function"], sd["args"], res):
                ok = False
                print("FAIL", sd["function"], pb["what"], json.dumps(pb["detail"], default=str)[:300])
        for b in c2.broken:
            ok = False
            print("MODEL AND IMPLEMENTATION DISAGREE", b["name"], b["message"][:600])
        return ok
    res = call_impl(fname, args)
    probs = oracle(fname, args, res)
    print("function:", fname)
    print("returned:", {k: res.get(k) for k in ("d", "p1", "p2", "err", "msg") if k in res})
    for p in probs:
        print("FAIL", p["what"], json.dumps(p["detail"], default=str)[:500])
    fid = finding_for(fname, args, probs)
    if fid:
        print("known finding class:", fid)
    return not probs
