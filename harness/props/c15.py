"""C15 — hydroelastic contact polygons lie on the contact plane inside both tetrahedra.

correspondence: Lean model (D3/Model/Hydro.lean) vs the 2-D kernels of _halfplanes.py, make_halfplanes,
contact_plane, check_tetrahedra_intersect_contact_plane, compute_contact_polygon, intersect_tetrahedron_pair and
compute_contact_force (np.linalg.solve is a parameter of the model: the harness hands the inverse matrix over);
search: definition-level oracle on the real code (exact rational barycentric coordinates, plane residual,
orientation of consecutive edge cross products, force direction, equal pressure at the vertices, argument swap,
separating-axis test).
"""
import itertools
import math
from fractions import Fraction as Fr

import numpy as np

import core
from core import f2h, h2f, q2s, s2q

RULE = ("one case = one call of a 2-D kernel / make_halfplanes / intersect_halfplanes / contact_plane / "
        "intersect_tetrahedron_pair / compute_contact_force on concrete arrays, or one find_contact_surface / "
        "contact_forces call on a pair of factory bodies; all drawn from one PRNG: lattice stream (half-integer "
        "tetrahedra, exactly inverted barycentric transforms, axis-aligned stacking with faces parallel to the contact "
        "plane, shared vertices/edges, concurrent boundary lines; model evaluated exactly at Rat where no sqrt/atan2 is "
        "involved), general stream (random tetrahedra/potentials/Young's moduli in [1e-2,1e2], random body poses; model "
        "at Float, tolerance 1e-9*scale, point sets compared order-insensitively), malformed/edge stream (empty and "
        "single half-plane lists, parallel lines, all-zero normals, slivers); a case is non-trivial unless it is one of "
        "the fixed corpus inputs; distinct = distinct encoded input")
EXPLANATION = ("the theorems are about the Lean model at exact real arithmetic for all inputs; this run compares that very "
               "model (at Rat on lattice inputs, at Float on random inputs) with the implementation function by function "
               "and runs an independent oracle on the polygons, planes and forces the real code returns")

EPS = float(np.finfo(float).eps)
F_SAME = "F-C15-same-branch"
# F-C15-halfplane-buffer (3*n row buffer of intersect_halfplanes) is repaired: its witnesses are regression inputs
# (`regression_halfplanes`) that run first and must return normally; a raise there is a new violation
F_DROP = "F-C15-vertex-drop"
F_EXTRA = "F-C15-coincident-lines"
F_COINC = "F-C15-coincident-fields"


# =================================================================== small exact linear algebra
def fr(x):
    return Fr(float(x))


def fr_solve(A, b):
    """Gauss elimination over Fractions; A n×n list of lists, b list. None if singular."""
    n = len(A)
    M = [list(A[i]) + [b[i]] for i in range(n)]
    for c in range(n):
        piv = None
        for r in range(c, n):
            if M[r][c] != 0:
                piv = r
                break
        if piv is None:
            return None
        M[c], M[piv] = M[piv], M[c]
        pv = M[c][c]
        M[c] = [x / pv for x in M[c]]
        for r in range(n):
            if r != c and M[r][c] != 0:
                f = M[r][c]
                M[r] = [x - f * y for x, y in zip(M[r], M[c])]
    return [M[i][n] for i in range(n)]


def fr_inv4(tet):
    """exact inverse of [[v0 v1 v2 v3],[1 1 1 1]] (4x4) for a tetrahedron given as 4 points; rows = barycentric
    coordinate functionals [n, c].  None if degenerate."""
    A = [[fr(tet[j][i]) for j in range(4)] for i in range(3)] + [[Fr(1)] * 4]
    cols = []
    for k in range(4):
        e = [Fr(int(i == k)) for i in range(4)]
        s = fr_solve(A, e)
        if s is None:
            return None
        cols.append(s)
    # cols[k] = A^{-1} e_k  -> inverse matrix has these as columns
    return [[cols[k][i] for k in range(4)] for i in range(4)]


def is_float_exact(q):
    try:
        return Fr(float(q)) == q
    except OverflowError:
        return False


def bary_exact(tet, p):
    A = [[fr(tet[j][i]) for j in range(4)] for i in range(3)] + [[Fr(1)] * 4]
    return fr_solve(A, [fr(p[0]), fr(p[1]), fr(p[2]), Fr(1)])


def bary_min(tet, p):
    """minimum barycentric coordinate of p in tet: numpy first, exact when near the threshold."""
    A = np.vstack((np.asarray(tet, dtype=float).T, np.ones((1, 4))))
    try:
        b = np.linalg.solve(A, np.append(np.asarray(p, dtype=float), 1.0))
        m = float(np.min(b))
        if not np.isfinite(m):
            raise np.linalg.LinAlgError
    except np.linalg.LinAlgError:
        return None
    if m < 1e-6:
        be = bary_exact(tet, p)
        if be is None:
            return None
        return float(min(be))
    return m


def tet_volume6(tet):
    t = np.asarray(tet, dtype=float)
    return float(np.dot(np.cross(t[1] - t[0], t[2] - t[0]), t[3] - t[0]))


def tets_separated(t1, t2, margin):
    """separating-axis test (8 face normals + 36 edge-edge cross products); True iff some axis separates the two
    tetrahedra by more than `margin` (in units of length)."""
    t1 = np.asarray(t1, dtype=float)
    t2 = np.asarray(t2, dtype=float)
    axes = []
    for t in (t1, t2):
        for a, b, c in ((0, 1, 2), (0, 1, 3), (0, 2, 3), (1, 2, 3)):
            axes.append(np.cross(t[b] - t[a], t[c] - t[a]))
    ed = ((0, 1), (0, 2), (0, 3), (1, 2), (1, 3), (2, 3))
    for a, b in ed:
        for c, d in ed:
            axes.append(np.cross(t1[b] - t1[a], t2[d] - t2[c]))
    for ax in axes:
        n = np.linalg.norm(ax)
        if n < 1e-12:
            continue
        ax = ax / n
        p1 = t1.dot(ax)
        p2 = t2.dot(ax)
        if p1.max() + margin < p2.min() or p2.max() + margin < p1.min():
            return True
    return False


# =================================================================== implementation access
def impl():
    from distance3d import hydroelastic_contact as hc
    from distance3d.hydroelastic_contact import _tetrahedron_intersection as ti
    from distance3d.hydroelastic_contact import _halfplanes as hp
    from distance3d.hydroelastic_contact import _forces as fo
    return hc, ti, hp, fo


def err_name(e):
    if isinstance(e, IndexError):
        return "indexOOB"
    if isinstance(e, AssertionError):
        return "assertFail"
    if isinstance(e, ZeroDivisionError):
        return "divZero"
    if isinstance(e, np.linalg.LinAlgError):
        return "linalg"
    return "exc:" + type(e).__name__


def c_arr(x):
    return np.ascontiguousarray(np.asarray(x, dtype=float))


def pair_X(case):
    """barycentric transforms of a pair case: given exactly (lattice) or via the library's pinv"""
    hc, _, _, _ = impl()
    if case.get("X1") is not None:
        return c_arr(case["X1"]), c_arr(case["X2"])
    X = hc.barycentric_transforms(np.array([case["t1"], case["t2"]], dtype=float))
    return c_arr(X[0]), c_arr(X[1])


def run_pair(case, swap=False):
    """intersect_tetrahedron_pair (+ compute_contact_force on the result) on the real code."""
    hc, ti, hp, fo = impl()
    t1, t2 = c_arr(case["t1"]), c_arr(case["t2"])
    e1, e2 = c_arr(case["e1"]), c_arr(case["e2"])
    X1, X2 = pair_X(case)
    E1, E2 = float(case["E1"]), float(case["E2"])
    if swap:
        t1, t2, e1, e2, X1, X2, E1, E2 = t2, t1, e2, e1, X2, X1, E2, E1
    out = {"X1": X1.tolist(), "X2": X2.tolist()}
    try:
        inter, det = ti.intersect_tetrahedron_pair(t1, e1, X1, t2, e2, X2, E1, E2)
    except Exception as e:  # noqa
        out.update(ok=False, err=err_name(e), msg=str(e)[:200])
        return out
    out.update(ok=True, inter=bool(inter), plane=np.asarray(det[0], dtype=float).tolist(),
               poly=None if det[1] is None else np.asarray(det[1], dtype=float).tolist())
    if inter:
        try:
            com, force, area, tri = fo.compute_contact_force(t1, e1, c_arr(det[0]), c_arr(det[1]), E1)
            out.update(com=np.asarray(com).tolist(), force=np.asarray(force).tolist(), area=float(area))
        except Exception as e:  # noqa
            out.update(force_err=err_name(e), force_msg=str(e)[:200])
    return out


# =================================================================== the oracle (independent of the model)
def same_branch_class(case, res):
    """Is this call in the input class of finding F_SAME?  Decided from the *inputs* only (independent
    recomputation of the un-normalised equal-pressure plane): the potential gradients coincide (normal part zero)
    or the normalised offset is below 10*EPSILON (plane through the origin of the common frame)."""
    X1, X2 = np.asarray(res["X1"]), np.asarray(res["X2"])
    e1 = np.asarray(case["e1"], dtype=float) * float(case["E1"])
    e2 = np.asarray(case["e2"], dtype=float) * float(case["E2"])
    raw = e1.dot(X1) - e2.dot(X2)
    nrm = float(np.linalg.norm(raw[:3]))
    if nrm == 0.0:
        deg = True
    else:
        deg = abs(raw[3] / nrm) < 1e3 * EPS        # generous: the decision of the code is at 10*EPS
    return deg


def plane_basis(n):
    n = np.asarray(n, dtype=float)
    a = np.array([1.0, 0, 0]) if abs(n[0]) < 0.6 else np.array([0, 1.0, 0])
    u = np.cross(n, a)
    u /= np.linalg.norm(u)
    v = np.cross(n, u)
    return u, v


def oracle_polygon(t1, t2, plane, poly, tol_rel=1e-9):
    """checks of one reported polygon. returns list of (what, detail)"""
    bad = []
    poly = np.asarray(poly, dtype=float)
    plane = np.asarray(plane, dtype=float)
    n, d = plane[:3], plane[3]
    scale = max(1.0, float(np.max(np.abs(poly))) if poly.size else 1.0, float(np.max(np.abs(t1))),
                float(np.max(np.abs(t2))))
    if not np.all(np.isfinite(poly)) or not np.all(np.isfinite(plane)):
        return [("non-finite", {"plane": plane.tolist(), "poly": poly.tolist()})]
    if len(poly) < 3:
        bad.append(("fewer-than-3-vertices", {"n": len(poly)}))
    if abs(np.linalg.norm(n) - 1.0) > 1e-9:
        bad.append(("normal-not-unit", {"norm": float(np.linalg.norm(n))}))
    for k, p in enumerate(poly):
        r = float(np.dot(n, p) - d)
        if abs(r) > tol_rel * scale:
            bad.append(("vertex-off-plane", {"vertex": k, "residual": r}))
        for which, t in (("tet1", t1), ("tet2", t2)):
            m = bary_min(t, p)
            if m is not None and m < -1e-9:
                bad.append(("vertex-outside-" + which, {"vertex": k, "min_barycentric": m, "point": p.tolist()}))
    # convexity: consistent orientation of consecutive cross products in the plane (a vertex list that spans no
    # area — a point or a segment — is trivially convex; its order along the line is not constrained)
    if len(poly) >= 3 and polygon_area(n, poly) > 1e-9 * scale * scale:
        u, v = plane_basis(n)
        q = np.column_stack((poly.dot(u), poly.dot(v)))
        m = len(q)
        cr = []
        for k in range(m):
            a, b, c = q[k], q[(k + 1) % m], q[(k + 2) % m]
            cr.append(float((b[0] - a[0]) * (c[1] - b[1]) - (b[1] - a[1]) * (c[0] - b[0])))
        ext = float(np.max(np.abs(q - q.mean(axis=0)))) if m else 0.0
        tol = 1e-9 * max(ext * ext, 1e-300) + 1e-9 * scale * ext
        pos = any(c > tol for c in cr)
        neg = any(c < -tol for c in cr)
        if pos and neg:
            bad.append(("not-convex", {"cross": cr}))
        # orientation: the vertices are documented as counter-clockwise, i.e. the signed area about the REPORTED normal is
        # the non-negative area the property speaks of (computed in 3D, independent of any plane basis)
        c0 = poly.mean(axis=0)
        signed = 0.5 * float(sum(np.dot(np.cross(poly[k] - c0, poly[(k + 1) % m] - c0), n) for k in range(m)))
        if signed < -1e-9 * scale * scale and not (pos and neg):
            bad.append(("clockwise-about-normal", {"signed_area": signed}))
        # a polygon that winds more than once is also not convex: total turning must be one revolution
        if not (pos and neg) and m >= 4 and ext > 0:
            ang = 0.0
            ok = True
            for k in range(m):
                e0 = q[(k + 1) % m] - q[k]
                e1 = q[(k + 2) % m] - q[(k + 1) % m]
                if np.linalg.norm(e0) < 1e-9 * scale or np.linalg.norm(e1) < 1e-9 * scale:
                    ok = False
                    break
                ang += math.atan2(e0[0] * e1[1] - e0[1] * e1[0], float(np.dot(e0, e1)))
            if ok and abs(abs(ang) - 2 * math.pi) > 1e-6:
                bad.append(("winding", {"total_turning": ang}))
    return bad


def polygon_area(normal, poly):
    """area of the convex hull of the reported vertices projected to the plane (independent of their order)"""
    P = np.asarray(poly, dtype=float).reshape(-1, 3)
    if len(P) < 3 or not np.all(np.isfinite(P)) or not np.all(np.isfinite(normal)) or np.linalg.norm(normal) < 0.5:
        return 0.0
    u, v = plane_basis(normal)
    H = hull2d([(float(np.dot(q, u)), float(np.dot(q, v))) for q in P])
    if len(H) < 3:
        return 0.0
    return 0.5 * abs(sum(H[k][0] * H[(k + 1) % len(H)][1] - H[(k + 1) % len(H)][0] * H[k][1] for k in range(len(H))))


def oracle_equal_pressure(case, res, scale):
    """the reported plane is the *contact* plane: at every polygon vertex the two pressure fields (potential
    interpolated with independently computed barycentric coordinates, times Young's modulus) agree"""
    t1, t2 = np.asarray(case["t1"], dtype=float), np.asarray(case["t2"], dtype=float)
    w1 = np.asarray(case["e1"], dtype=float) * float(case["E1"])
    w2 = np.asarray(case["e2"], dtype=float) * float(case["E2"])
    try:
        A1 = np.linalg.inv(np.vstack((t1.T, np.ones((1, 4)))))
        A2 = np.linalg.inv(np.vstack((t2.T, np.ones((1, 4)))))
    except np.linalg.LinAlgError:
        return []
    g = float(np.linalg.norm(w1.dot(A1)[:3]) + np.linalg.norm(w2.dot(A2)[:3]))
    tol = 1e-7 * g * scale + 1e-9 * float(max(np.max(np.abs(w1)), np.max(np.abs(w2)), 1e-300))
    out = []
    for k, P in enumerate(np.asarray(res["poly"], dtype=float)):
        x = np.append(P, 1.0)
        p1, p2 = float(w1.dot(A1.dot(x))), float(w2.dot(A2.dot(x)))
        if abs(p1 - p2) > tol:
            out.append(("vertex-not-on-equal-pressure-surface", {"vertex": k, "pressure1": p1, "pressure2": p2}))
            break
    return out


def oracle_pair(case, res, res_swapped):
    """Property oracle for one tetrahedron pair.  returns list of (what, detail)."""
    bad = []
    t1 = np.asarray(case["t1"], dtype=float)
    t2 = np.asarray(case["t2"], dtype=float)
    scale = max(1.0, float(np.max(np.abs(t1))), float(np.max(np.abs(t2))))
    if not res.get("ok"):
        return [("raised", {"err": res.get("err"), "msg": res.get("msg")})]
    if res["inter"]:
        plane = np.asarray(res["plane"])
        bad += oracle_polygon(t1, t2, plane, res["poly"])
        if tets_separated(t1, t2, 1e-7 * scale):
            bad.append(("intersection-reported-for-separated-tetrahedra", {}))
        bad += oracle_equal_pressure(case, res, scale)
        if "force_err" in res:
            bad.append(("force-raised", {"err": res["force_err"], "msg": res.get("force_msg")}))
        elif "force" in res:
            f = np.asarray(res["force"])
            n = plane[:3]
            area = res["area"]
            if not (area >= 0.0):
                bad.append(("negative-area", {"area": area}))
            fs = max(1.0, float(np.linalg.norm(f)))
            if float(np.linalg.norm(np.cross(f, n))) > 1e-9 * fs:
                bad.append(("force-not-along-normal", {"force": f.tolist(), "normal": n.tolist()}))
            emax = max(1e-300, float(np.max(np.abs(case["e1"]))) * float(case["E1"]))
            if float(np.dot(f, n)) < -1e-9 * emax * max(area, 1e-300) - 1e-300:
                bad.append(("negative-pressure", {"force_dot_normal": float(np.dot(f, n)), "area": area}))
    if res_swapped is not None:
        # a polygon whose area is zero within the tolerance is identified with "no polygon" here: whether a
        # degenerate intersection (a point, a segment) is reported at all is decided by rounding
        def area_of(r):
            if not r.get("inter"):
                return 0.0
            return polygon_area(np.asarray(r["plane"], dtype=float)[:3], r["poly"])
        if not res_swapped.get("ok"):
            bad.append(("raised-when-swapped", {"err": res_swapped.get("err"), "msg": res_swapped.get("msg")}))
        elif max(area_of(res), area_of(res_swapped)) <= 1e-9 * scale * scale:
            pass
        elif res_swapped["inter"] != res["inter"]:
            bad.append(("swap-changes-intersection", {"inter": res["inter"], "swapped": res_swapped["inter"]}))
        elif res["inter"]:
            A = np.asarray(res["poly"], dtype=float)
            B = np.asarray(res_swapped["poly"], dtype=float)
            dm = np.linalg.norm(A[:, None, :] - B[None, :, :], axis=2)
            if dm.min(axis=1).max() > 1e-9 * scale or dm.min(axis=0).max() > 1e-9 * scale:
                bad.append(("swap-changes-vertex-set", {"poly": A.tolist(), "swapped": B.tolist()}))
    return bad


def true_vertices(case):
    """Vertices of the exact contact polygon {x on the equal-pressure plane : all 8 barycentric coordinates >= 0},
    recomputed from the tetrahedra and potentials alone (numpy inverse, own plane basis; tolerance 1e-9 on the
    dimensionless barycentric coordinates).  Returns (normal, [(vertex3d, number of face planes through it)]) or
    None when there is no proper plane."""
    t1, t2 = np.asarray(case["t1"], dtype=float), np.asarray(case["t2"], dtype=float)
    try:
        Xa = np.linalg.inv(np.vstack((t1.T, np.ones((1, 4)))))
        Xb = np.linalg.inv(np.vstack((t2.T, np.ones((1, 4)))))
    except np.linalg.LinAlgError:
        return None
    raw = (np.asarray(case["e1"], dtype=float) * float(case["E1"])).dot(Xa) - (
        np.asarray(case["e2"], dtype=float) * float(case["E2"])).dot(Xb)
    nn = float(np.linalg.norm(raw[:3]))
    if not np.isfinite(nn) or nn == 0.0:
        return None
    n, d = raw[:3] / nn, -raw[3] / nn
    x0 = n * d
    u, v = plane_basis(n)
    X = np.vstack((Xa, Xb))
    A = np.column_stack((X[:, :3].dot(u), X[:, :3].dot(v)))
    b = X[:, :3].dot(x0) + X[:, 3]
    out = []
    for i in range(8):
        for j in range(i + 1, 8):
            det = A[i, 0] * A[j, 1] - A[i, 1] * A[j, 0]
            if abs(det) <= 1e-9 * np.linalg.norm(A[i]) * np.linalg.norm(A[j]):
                continue
            q = np.linalg.solve(np.array([A[i], A[j]]), -np.array([b[i], b[j]]))
            lam = A.dot(q) + b
            if np.all(lam >= -1e-9):
                out.append((x0 + q[0] * u + q[1] * v, int(np.sum(np.abs(lam) <= 1e-9))))
    return n, out


def vertex_drop_class(case, res, res_swapped):
    """input/observation class of finding F_DROP: both reported polygons lie inside the exact polygon, and a vertex of
    the exact polygon through which three or more of the eight face planes pass (concurrent or coincident boundary
    lines) is missing from one of them."""
    tv = true_vertices(case)
    if tv is None:
        return False
    n, V = tv
    if not V:
        return False
    t1, t2 = np.asarray(case["t1"], dtype=float), np.asarray(case["t2"], dtype=float)
    scale = max(1.0, float(np.max(np.abs(t1))), float(np.max(np.abs(t2))))
    u, v = plane_basis(n)
    H = hull2d([(float(np.dot(p, u)), float(np.dot(p, v))) for p, _ in V])
    missing = False
    for r in (res, res_swapped):
        if r is None or not r.get("ok"):
            return False
        R = np.asarray(r["poly"], dtype=float).reshape(-1, 3) if r.get("inter") else np.zeros((0, 3))
        for p in R:
            if dist_to_hull((float(np.dot(p, u)), float(np.dot(p, v))), H) > 1e-7 * scale:
                return False
            if abs(float(np.dot(n, p - V[0][0]))) > 1e-7 * scale:
                return False
        for p, mult in V:
            if mult >= 3 and (len(R) == 0 or float(np.min(np.linalg.norm(R - p, axis=1))) > 1e-9 * scale):
                missing = True
    return missing


def coincident_fields_class(case):
    """input class of finding F_COINC: the two pressure fields have the same gradient up to rounding (independent
    recomputation with numpy inverses), so there is no equal-pressure plane to find"""
    t1, t2 = np.asarray(case["t1"], dtype=float), np.asarray(case["t2"], dtype=float)
    try:
        Xa = np.linalg.inv(np.vstack((t1.T, np.ones((1, 4)))))
        Xb = np.linalg.inv(np.vstack((t2.T, np.ones((1, 4)))))
    except np.linalg.LinAlgError:
        return False
    g1 = (np.asarray(case["e1"], dtype=float) * float(case["E1"])).dot(Xa)
    g2 = (np.asarray(case["e2"], dtype=float) * float(case["E2"])).dot(Xb)
    g = float(np.linalg.norm(g1[:3]) + np.linalg.norm(g2[:3]))
    return g > 0.0 and float(np.linalg.norm(g1[:3] - g2[:3])) <= 1e-9 * g


def classify(case, res, what, res_swapped=None):
    """finding id for a failing pair, or None (= new violation)."""
    if what in ("raised", "raised-when-swapped"):
        return None
    if what in ("swap-changes-vertex-set", "swap-changes-intersection") and res_swapped is not None:
        if not same_branch_class(case, res) and coincident_fields_class(case):
            return F_COINC
        if not same_branch_class(case, res) and vertex_drop_class(case, res, res_swapped):
            return F_DROP
        if (what == "swap-changes-vertex-set" and not same_branch_class(case, res) and res.get("inter")
                and res_swapped.get("inter")):
            # same convex region in both orders: the lists differ only by extra vertices on its edges
            t1, t2 = np.asarray(case["t1"], dtype=float), np.asarray(case["t2"], dtype=float)
            scale = max(1.0, float(np.max(np.abs(t1))), float(np.max(np.abs(t2))))
            if hull_agree(res["poly"], res_swapped["poly"], np.asarray(res["plane"], dtype=float)[:3],
                          1e-9 * scale) == "":
                return F_EXTRA
    if not res.get("ok") or not res.get("inter"):
        # swap-changes-intersection with the first order not intersecting: the swapped call went through the branch
        sw = dict(case, t1=case["t2"], t2=case["t1"], e1=case["e2"], e2=case["e1"], E1=case["E2"], E2=case["E1"])
        r2 = {"X1": res["X2"], "X2": res["X1"]}
        return F_SAME if what == "swap-changes-intersection" and same_branch_class(sw, r2) else None
    if what in ("vertex-outside-tet1", "vertex-outside-tet2", "intersection-reported-for-separated-tetrahedra",
                "swap-changes-vertex-set", "swap-changes-intersection", "vertex-off-plane",
                "vertex-not-on-equal-pressure-surface"):
        poly = np.asarray(res["poly"], dtype=float)
        degenerate = len(poly) == 3 and np.all(poly == poly[0])
        if degenerate and same_branch_class(case, res):
            return F_SAME
        if what in ("swap-changes-vertex-set", "swap-changes-intersection"):
            sw = dict(case, t1=case["t2"], t2=case["t1"], e1=case["e2"], e2=case["e1"], E1=case["E2"], E2=case["E1"])
            r2 = {"X1": res["X2"], "X2": res["X1"]}
            if same_branch_class(sw, r2) or same_branch_class(case, res):
                return F_SAME
    return None


def check_pair(ctx, case, stream, function="intersect_tetrahedron_pair"):
    res = run_pair(case)
    sw = run_pair(case, swap=True)
    bad = oracle_pair(case, res, sw)
    ctx.count("search:" + stream, key=("pair", repr(case["t1"]), repr(case["t2"]), repr(case["e1"]),
                                       repr(case["e2"]), case["E1"], case["E2"]))
    ctx.branch("pair-outcome", ("inter/%d" % len(res["poly"])) if res.get("ok") and res["inter"] else
               ("no" if res.get("ok") else "raised"))
    for what, detail in bad:
        ctx.fail(function + ":" + what, {"kind": "pair", "case": core.jsonable(case)}, detail,
                 "C15 statement", "exact barycentric/plane/convexity/force/swap oracle",
                 finding=classify(case, res, what, sw))
    return res, bad


# =================================================================== rigid bodies
def pose_mat(R, t):
    A = np.eye(4)
    A[:3, :3] = np.asarray(R, dtype=float)
    A[:3, 3] = np.asarray(t, dtype=float)
    return A


def make_body(spec):
    """spec = {"kind", "params", "R", "t", "E"} -> RigidBody"""
    hc, _, _, _ = impl()
    RB = hc.RigidBody
    A = pose_mat(spec["R"], spec["t"])
    k, p = spec["kind"], spec["params"]
    if k == "sphere":
        # make_sphere takes a centre only; the rotation is applied through the pose afterwards
        b = RB.make_sphere(np.zeros(3), p["radius"], p["order"])
        b.body2origin_ = A
    elif k == "ellipsoid":
        b = RB.make_ellipsoid(A, np.array(p["radii"], dtype=float), p["order"])
    elif k == "cube":
        b = RB.make_cube(A, p["size"])
    elif k == "box":
        b = RB.make_box(A, np.array(p["size"], dtype=float))
    elif k == "cylinder":
        b = RB.make_cylinder(A, p["radius"], p["length"], p["hint"])
    elif k == "capsule":
        b = RB.make_capsule(A, p["radius"], p["height"], p["hint"])
    else:
        raise ValueError(k)
    b.youngs_modulus = float(spec["E"])
    return b


def body_radius(spec):
    k, p = spec["kind"], spec["params"]
    if k == "sphere":
        return p["radius"]
    if k == "ellipsoid":
        return max(p["radii"])
    if k == "cube":
        return p["size"] * math.sqrt(3) / 2
    if k == "box":
        return float(np.linalg.norm(p["size"])) / 2
    if k == "cylinder":
        return math.hypot(p["radius"], p["length"] / 2)
    if k == "capsule":
        return p["radius"] + p["height"] / 2
    raise ValueError(k)


def run_bodies(s1, s2, s3=None):
    """find_contact_surface + contact_forces on fresh bodies. JSON-able summary.
    s3: a third body; the observed call is then the LAST one of the history (b1,b2), (b2,b3), (b1,b2) on the same
    objects — body 2 has served as reference body, was re-expressed in another frame, and serves again."""
    hc, _, _, _ = impl()
    out = {}
    if s3 == "inplace":
        return run_bodies_inplace(s1, s2)
    try:
        b1, b2 = make_body(s1), make_body(s2)
        if s3 is not None:
            b3 = make_body(s3)
            hc.find_contact_surface(b1, b2)
            hc.find_contact_surface(b2, b3)
        cs = hc.find_contact_surface(b1, b2)
        out.update(ok=True, inter=bool(cs.intersection),
                   planes=np.asarray(cs.contact_planes, dtype=float).reshape(-1, 4).tolist(),
                   polys=[np.asarray(p, dtype=float).tolist() for p in cs.contact_polygons],
                   i1=[int(i) for i in cs.intersecting_tetrahedra1], i2=[int(i) for i in cs.intersecting_tetrahedra2],
                   forces=np.asarray(cs.contact_forces, dtype=float).reshape(-1, 3).tolist(),
                   areas=np.asarray(cs.contact_areas, dtype=float).reshape(-1).tolist(),
                   tp1=b1.tetrahedra_points, tp2=b2.tetrahedra_points,
                   pot1=b1.tetrahedra_potentials, pot2=b2.tetrahedra_potentials)
        c1, c2 = make_body(s1), make_body(s2)
        if s3 is not None:
            c3 = make_body(s3)
            hc.contact_forces(c1, c2)
            hc.contact_forces(c2, c3)
        inter, w12, w21 = hc.contact_forces(c1, c2)
        out.update(cf_inter=bool(inter), w12=np.asarray(w12, dtype=float).tolist(),
                   w21=np.asarray(w21, dtype=float).tolist())
    except Exception as e:  # noqa
        out.update(ok=False, err=err_name(e), msg=str(e)[:200])
    return out


def _warm_bodies(s1, s2):
    """the two bodies of (s1, s2) built at ANOTHER configuration (body 1 pushed into body 2) and the world-frame
    translations that bring them to the configuration of (s1, s2)"""
    t1, t2 = np.array(s1["t"], dtype=float), np.array(s2["t"], dtype=float)
    w1 = t2 + 0.3 * (t1 - t2) + np.array([0.011, -0.007, 0.005]) * body_radius(s1)
    w2 = t2 + np.array([-0.35, 0.2, 0.15]) * body_radius(s2)
    a1, a2 = dict(s1, t=w1.tolist()), dict(s2, t=w2.tolist())
    return make_body(a1), make_body(a2), t1 - w1, t2 - w2


def run_bodies_inplace(s1, s2):
    """the observed call is the SECOND one on the same objects: after a first query in another configuration both
    bodies are moved in place (`body.body2origin_[:3, 3] += v * dt`, as the library's own examples do)"""
    hc, _, _, _ = impl()
    out = {}
    try:
        b1, b2, m1, m2 = _warm_bodies(s1, s2)
        hc.find_contact_surface(b1, b2)
        b1.body2origin_[:3, 3] += m1
        b2.body2origin_[:3, 3] += m2
        cs = hc.find_contact_surface(b1, b2)
        out.update(ok=True, inter=bool(cs.intersection),
                   planes=np.asarray(cs.contact_planes, dtype=float).reshape(-1, 4).tolist(),
                   polys=[np.asarray(p, dtype=float).tolist() for p in cs.contact_polygons],
                   i1=[int(i) for i in cs.intersecting_tetrahedra1], i2=[int(i) for i in cs.intersecting_tetrahedra2],
                   forces=np.asarray(cs.contact_forces, dtype=float).reshape(-1, 3).tolist(),
                   areas=np.asarray(cs.contact_areas, dtype=float).reshape(-1).tolist(),
                   tp1=b1.tetrahedra_points, tp2=b2.tetrahedra_points,
                   pot1=b1.tetrahedra_potentials, pot2=b2.tetrahedra_potentials)
        c1, c2, m1, m2 = _warm_bodies(s1, s2)
        hc.contact_forces(c1, c2)
        c1.body2origin_[:3, 3] += m1
        c2.body2origin_[:3, 3] += m2
        inter, w12, w21 = hc.contact_forces(c1, c2)
        out.update(cf_inter=bool(inter), w12=np.asarray(w12, dtype=float).tolist(),
                   w21=np.asarray(w21, dtype=float).tolist())
    except Exception as e:  # noqa
        out.update(ok=False, err=err_name(e), msg=str(e)[:200])
    return out


def details_consistency(s1, s2):
    """contact_forces(..., return_details=True) reports the contact surface in the WORLD frame: every polygon vertex
    must lie on its reported plane (n . x = d) and inside both reported tetrahedra there as well"""
    hc, _, _, _ = impl()
    bad = []
    try:
        out = hc.contact_forces(make_body(s1), make_body(s2), return_details=True)
    except Exception as e:  # noqa
        return [("raised", {"err": err_name(e), "msg": str(e)[:200]})]
    if not out[0]:
        return []
    det = out[3]
    planes = np.asarray(det["contact_planes"], dtype=float).reshape(-1, 4)
    T1 = np.asarray(det["intersecting_tetrahedra1"], dtype=float)
    T2 = np.asarray(det["intersecting_tetrahedra2"], dtype=float)
    # the same surface in the frame it was computed in (fresh bodies): what is already off there (the recorded
    # degenerate-polygon findings) is judged by the per-pair oracle, not here; this check is about the transformation
    b1, b2 = make_body(s1), make_body(s2)
    cs = hc.find_contact_surface(b1, b2)
    bp = np.asarray(cs.contact_planes, dtype=float).reshape(-1, 4)
    bt1 = b1.tetrahedra_points[np.asarray(cs.intersecting_tetrahedra1, dtype=int)]
    bt2 = b2.tetrahedra_points[np.asarray(cs.intersecting_tetrahedra2, dtype=int)]
    if len(cs.contact_polygons) != len(det["contact_polygons"]):
        return [("polygon-count", {"details": len(det["contact_polygons"]), "find_contact_surface": len(cs.contact_polygons)})]

    def measures(P, plane, ta, tb):
        r = float(np.max(np.abs(P.dot(plane[:3]) - plane[3])))
        mm = []
        for T in (ta, tb):
            m = [bary_min(T, p) for p in P]
            m = [x for x in m if x is not None]
            mm.append(min(m) if m else 0.0)
        return r, mm
    for k, poly in enumerate(det["contact_polygons"]):
        P = np.asarray(poly, dtype=float).reshape(-1, 3)
        Pb = np.asarray(cs.contact_polygons[k], dtype=float).reshape(-1, 3)
        if not len(P) or len(P) != len(Pb):
            continue
        scale = max(1.0, float(np.max(np.abs(P))), float(np.max(np.abs(T1[k]))), float(np.max(np.abs(T2[k]))))
        r, mm = measures(P, planes[k], T1[k], T2[k])
        rb, mb = measures(Pb, bp[k], bt1[k], bt2[k])
        if r > 1e-8 * scale + 10.0 * rb:
            bad.append(("vertex-off-plane", {"polygon": k, "residual": r, "residual_in_body_frame": rb,
                                             "plane": planes[k].tolist()}))
            continue
        for which, a, b in (("tet1", mm[0], mb[0]), ("tet2", mm[1], mb[1])):
            if a < -1e-7 and a < b - 1e-6:
                bad.append(("vertex-outside-" + which, {"polygon": k, "min_barycentric": a, "in_body_frame": b}))
    return bad


def check_bodies(ctx, s1, s2, separated, stream, s3=None):
    """oracle on one body pair.  `separated` = the bodies are disjoint by construction."""
    r = run_bodies(s1, s2, s3)
    args = {"kind": "bodies", "s1": core.jsonable(s1), "s2": core.jsonable(s2), "separated": bool(separated)}
    if s3 == "inplace":
        args["s3"] = "inplace"
        args["history"] = "query in another configuration, both bodies moved in place, query again; the last call is judged"
    elif s3 is not None:
        args["s3"] = core.jsonable(s3)
        args["history"] = "(b1,b2), (b2,b3), (b1,b2) on the same objects; the last call is judged"
    ctx.count("search:" + stream, key=("bodies", json_key(s1), json_key(s2)))
    fn = "find_contact_surface"
    if not r.get("ok"):
        ctx.fail(fn + ":raised", args, {"err": r.get("err"), "msg": r.get("msg")}, "no exception", "C15 statement",
                 finding=None)
        ctx.branch("bodies-outcome", "raised")
        return r
    npoly = len(r["polys"])
    ctx.branch("bodies-outcome", "inter" if r["inter"] else "no")
    if r["inter"] != (npoly > 0) or r["cf_inter"] != r["inter"]:
        ctx.fail(fn + ":flag-inconsistent", args, {"inter": r["inter"], "n": npoly, "contact_forces": r["cf_inter"]},
                 "intersection == (some polygon reported)", "consistency")
    n_same = 0
    reported = set()
    for k in range(npoly):
        i, j = r["i1"][k], r["i2"][k]
        case = dict(t1=r["tp1"][i].tolist(), t2=r["tp2"][j].tolist(), e1=r["pot1"][i].tolist(),
                    e2=r["pot2"][j].tolist(), E1=float(s1["E"]), E2=float(s2["E"]), X1=None, X2=None)
        res = {"ok": True, "inter": True, "plane": r["planes"][k], "poly": r["polys"][k], "force": r["forces"][k],
               "area": r["areas"][k]}
        X1, X2 = pair_X(case)
        res["X1"], res["X2"] = X1.tolist(), X2.tolist()
        sw = run_pair(case, swap=True)
        bad = oracle_pair(case, res, sw)
        ctx.branch("pair-outcome", "inter/%d" % len(res["poly"]))
        for what, detail in bad:
            fid = classify(case, res, what, sw)
            if fid == F_SAME:
                n_same += 1
            if (what, fid) in reported:
                continue
            reported.add((what, fid))
            ctx.fail(fn + ":" + what, dict(args, pair=[i, j], case=core.jsonable(case)), detail, "C15 statement",
                     "exact barycentric/plane/convexity/force/swap oracle", finding=fid)
    if separated:
        wz = max(np.max(np.abs(r["w12"])), np.max(np.abs(r["w21"])))
        if wz != 0.0:
            ctx.fail("contact_forces:nonzero-wrench-for-separated-bodies", args, {"w12": r["w12"], "w21": r["w21"]},
                     "zero wrenches", "bodies disjoint by construction")
        if r["inter"]:
            # all reported pairs of the known class? then it is that finding, otherwise new
            fid = F_SAME if (n_same > 0 and all(
                len(p) == 3 and p[0] == p[1] == p[2] for p in r["polys"])) else None
            ctx.fail(fn + ":intersection-for-separated-bodies", args, {"n_polygons": npoly}, "intersection False",
                     "bodies disjoint by construction", finding=fid)
    if s3 is None:
        bad_d = details_consistency(s1, s2)
        for what, detail in bad_d[:3]:
            ctx.fail("contact_forces(return_details=True):" + what, args, detail, "C15 statement in the world frame",
                     "world-frame polygons lie on their world-frame planes and inside the world-frame tetrahedra",
                     finding=None)
    if s3 == "inplace" and not stream.startswith("BL"):
        # the same configuration on freshly built bodies (random poses only: on the lattice the frame-dependent tie
        # findings would blur the comparison): same flag, same total contact area, same wrenches
        r0 = run_bodies(s1, s2)
        if r0.get("ok"):
            a0, a1 = float(np.sum(r0["areas"])), float(np.sum(r["areas"]))
            f0 = float(np.sum(np.linalg.norm(np.asarray(r0["forces"], dtype=float).reshape(-1, 3), axis=1)))
            dw = float(np.max(np.abs(np.array(r0["w12"]) - np.array(r["w12"])))) if r0["w12"] is not None else 0.0
            # tolerances: the 5 % of the force magnitude that property C16 grants to repeated calls (single polygons
            # appear, vanish or lose a vertex with the last bits of the frame the bodies happen to be expressed in:
            # findings F-C15-vertex-drop / -coincident-lines); a stale relative pose changes the result wholesale
            w0n = float(np.linalg.norm(np.array(r0["w12"], dtype=float)[:3])) if r0["w12"] is not None else 0.0
            if r0["inter"] != r["inter"] or abs(a0 - a1) > 0.02 * max(a0, a1) + 1e-12 or dw > 0.05 * max(w0n, 1e-3 * f0) * (
                    1.0 + body_radius(s1) + body_radius(s2)) + 1e-12:
                ctx.fail(fn + ":moved-in-place-differs-from-fresh-bodies", args,
                         {"inter": r["inter"], "n_polygons": npoly, "area": a1, "w12": r["w12"]},
                         {"inter": r0["inter"], "n_polygons": len(r0["polys"]), "area": a0, "w12": r0["w12"]},
                         "the same configuration on freshly constructed bodies", finding=None)
    return r


def json_key(s):
    import json
    return json.dumps(core.jsonable(s), sort_keys=True)


# =================================================================== generators
SMALL_DIRS = [(1, 0), (0, 1), (1, 1), (-1, 1), (2, 1), (1, 2), (-2, 1), (-1, 2), (3, 1), (1, 3), (-3, 1), (-1, 3),
              (3, 2), (2, 3), (-3, 2), (-2, 3)]
HALF = [-2, -1.5, -1, -0.5, 0, 0.5, 1, 1.5, 2]


def gen_halfplanes(rng, stream):
    """list of [p0, p1, d0, d1] rows and a label"""
    if stream == "M":
        k = rng.choice(["empty", "single", "parallel", "duplicate", "zero-dir", "all-parallel"])
        if k == "empty":
            return [], k
        if k == "single":
            return [[0.0, 0.0, 1.0, 0.0]], k
        if k == "parallel":
            return [[0.0, 0.0, 1.0, 0.0], [0.0, 1.0, -1.0, 0.0], [0.0, 2.0, 2.0, 0.0]], k
        if k == "duplicate":
            h = [rng.choice(HALF), rng.choice(HALF), 1.0, 1.0]
            return [list(h), list(h), [0.0, 0.0, 0.0, 1.0], [1.0, 0.0, -1.0, 0.0]], k
        if k == "zero-dir":
            return [[0.0, 0.0, 0.0, 0.0], [0.0, 0.0, 1.0, 0.0], [1.0, 0.0, 0.0, 1.0], [0.0, 1.0, -1.0, -1.0]], k
        n = rng.randrange(2, 9)
        return [[float(rng.choice(HALF)), float(rng.choice(HALF)), 1.0, 2.0] for _ in range(n)], k
    if stream == "L":
        k = rng.choice(["concurrent", "concurrent", "box-cuts", "lattice-lines", "concurrent-shifted"])
        if k in ("concurrent", "concurrent-shifted"):
            n = rng.randrange(3, 9)
            P = (rng.choice(HALF), rng.choice(HALF))
            dirs = rng.sample(SMALL_DIRS, n)
            hps = []
            for (a, b) in dirs:
                s = rng.choice([1, -1]) if rng.random() < 0.4 else 1
                m = rng.choice([0, 0, 1, -1, 2]) if k == "concurrent-shifted" else rng.choice([0, 0, 0, 1, -2])
                hps.append([P[0] + m * a, P[1] + m * b, float(s * a), float(s * b)])
            if k == "concurrent-shifted" and rng.random() < 0.7:
                i = rng.randrange(n)     # move one line off the common point
                hps[i][0] += rng.choice([0.5, -0.5, 1])
            return hps, "%s-%d" % (k, n)
        if k == "box-cuts":
            s = rng.choice([0.5, 1, 2])
            hps = [[-s, -s, 1.0, 0.0], [s, -s, 0.0, 1.0], [s, s, -1.0, 0.0], [-s, s, 0.0, -1.0]]
            for _ in range(rng.randrange(0, 5)):
                c = rng.choice([(-s, -s), (s, -s), (s, s), (-s, s), (0, 0), (s, 0), (0, s)])
                a, b = rng.choice(SMALL_DIRS)
                sg = rng.choice([1, -1])
                hps.append([float(c[0]), float(c[1]), float(sg * a), float(sg * b)])
            rng.shuffle(hps)
            return hps, k
        n = rng.randrange(2, 9)
        hps = []
        for _ in range(n):
            a, b = rng.choice(SMALL_DIRS)
            sg = rng.choice([1, -1])
            hps.append([float(rng.choice(HALF)), float(rng.choice(HALF)), float(sg * a), float(sg * b)])
        return hps, k
    # general: tangents of a circle (a proper polygon) plus random extra lines
    n = rng.randrange(3, 9)
    sc = 10 ** rng.uniform(-2, 2)
    c = (rng.uniform(-1, 1) * sc, rng.uniform(-1, 1) * sc)
    r = sc * rng.uniform(0.1, 1)
    hps = []
    n_t = rng.randrange(3, n + 1)
    th0 = rng.uniform(0, 2 * math.pi)
    for k in range(n_t):
        th = th0 + 2 * math.pi * (k + rng.uniform(-0.3, 0.3)) / n_t
        s = 10 ** rng.uniform(-2, 2)
        tt = rng.uniform(-1, 1) * sc
        p = (c[0] + r * math.cos(th) - tt * math.sin(th), c[1] + r * math.sin(th) + tt * math.cos(th))
        hps.append([p[0], p[1], -math.sin(th) * s, math.cos(th) * s])
    for _ in range(n - n_t):
        th = rng.uniform(0, 2 * math.pi)
        rr = r * rng.choice([0.5, 1.0, 3.0, -0.2])
        hps.append([c[0] + rr * math.cos(th), c[1] + rr * math.sin(th), -math.sin(th), math.cos(th)])
    rng.shuffle(hps)
    return hps, "tangents-%d" % n


def rand_tet(rng, scale=1.0, center=(0.0, 0.0, 0.0), minvol=0.05):
    while True:
        t = [[center[k] + scale * rng.uniform(-1, 1) for k in range(3)] for _ in range(4)]
        if abs(tet_volume6(t)) > minvol * scale ** 3:
            return t


def lattice_tet(rng):
    """tetrahedron with half-integer vertices whose barycentric transform is exactly representable"""
    base = [
        [[0, 0, 0], [1, 0, 0], [0, 1, 0], [0, 0, 1]],
        [[0, 0, 0], [2, 0, 0], [0, 2, 0], [0, 0, 2]],
        [[0, 0, 0], [1, 0, 0], [0, 1, 0], [0, 0, -1]],
        [[0, 0, 0], [1, 1, 0], [0, 1, 1], [1, 0, 1]],
        [[-0.5, -0.5, -0.5], [0.5, -0.5, -0.5], [0.5, 0.5, -0.5], [0, 0, 0]],   # a cube-mesh element
        [[-1, -1, 0], [1, -1, 0], [0, 1, 0], [0, 0, 2]],
        [[0, 0, 0], [1, 0, 0], [1, 1, 0], [1, 1, 1]],
        [[0, 0, 0], [4, 0, 0], [0, 2, 0], [0, 0, 1]],
    ]
    for _ in range(50):
        if rng.random() < 0.7:
            t = [list(map(float, v)) for v in rng.choice(base)]
        else:
            t = [[float(rng.choice(HALF)) for _ in range(3)] for _ in range(4)]
        # signed axis permutation
        perm = rng.sample(range(3), 3)
        sg = [rng.choice([1, -1]) for _ in range(3)]
        t = [[sg[k] * v[perm[k]] for k in range(3)] for v in t]
        rng.shuffle(t)
        if tet_volume6(t) == 0:
            continue
        X = fr_inv4(t)
        if X is not None and all(is_float_exact(x) for row in X for x in row):
            return t, [[float(x) for x in row] for row in X]
    t = [[0.0, 0, 0], [1.0, 0, 0], [0, 1.0, 0], [0, 0, 1.0]]
    return t, [[float(x) for x in row] for row in fr_inv4(t)]


def shift_tet(t, X, s):
    """translate a tetrahedron (and its exact barycentric transform) by s"""
    t2 = [[v[k] + s[k] for k in range(3)] for v in t]
    X2 = [[r[0], r[1], r[2], r[3] - (r[0] * s[0] + r[1] * s[1] + r[2] * s[2])] for r in X]
    return t2, X2


def gen_pair(rng, stream):
    """one tetrahedron pair case {t1,t2,e1,e2,E1,E2,X1,X2,label}"""
    if stream == "L":
        k = rng.choice(["stack", "stack", "shared", "free", "mirror", "same", "translate-far"])
        t1, X1 = lattice_tet(rng)
        pot = lambda: [float(rng.choice([0, 0, 0.5, 1, 2])) for _ in range(4)]  # noqa
        e1, e2 = pot(), pot()
        if max(e1) == 0:
            e1[rng.randrange(4)] = 1.0
        if max(e2) == 0:
            e2[rng.randrange(4)] = 1.0
        if k == "stack":
            # the same element shifted along an axis: faces parallel to the contact plane, mirrored potentials
            ax = rng.randrange(3)
            s = [0.0, 0.0, 0.0]
            s[ax] = rng.choice([0.25, 0.5, -0.5, 0.75, 1.0])
            if rng.random() < 0.5:
                s[(ax + 1) % 3] = rng.choice([0, 0.25, -0.25])
            t2, X2 = shift_tet(t1, X1, s)
            if rng.random() < 0.5:
                e2 = list(e1)
            off = [float(rng.choice([0, 1, 2, -3])) for _ in range(3)]
            t1, X1 = shift_tet(t1, X1, off)
            t2, X2 = shift_tet(t2, X2, off)
        elif k == "shared":
            t2, X2 = lattice_tet(rng)
            # move t2 so that one of its vertices coincides with a vertex of t1
            a, b = rng.choice(t1), rng.choice(t2)
            t2, X2 = shift_tet(t2, X2, [a[i] - b[i] for i in range(3)])
        elif k == "mirror":
            ax = rng.randrange(3)
            t2 = [[(-v[i] if i == ax else v[i]) for i in range(3)] for v in t1]
            X2 = [[(-r[i] if i == ax else r[i]) for i in range(3)] + [r[3]] for r in X1]
            s = [0.0, 0.0, 0.0]
            s[ax] = rng.choice([0.5, 1, 3, 8])
            t2, X2 = shift_tet(t2, X2, s)
            e2 = list(e1)
        elif k == "same":
            t2, X2 = [list(v) for v in t1], [list(r) for r in X1]
            if rng.random() < 0.5:
                e2 = list(e1)
        elif k == "translate-far":
            s = [float(rng.choice([0, 4, -6, 10])) for _ in range(3)]
            t2, X2 = shift_tet(t1, X1, s)
            e2 = list(e1)
        else:
            t2, X2 = lattice_tet(rng)
            t2, X2 = shift_tet(t2, X2, [float(rng.choice(HALF)) / 2 for _ in range(3)])
        ok = all(is_float_exact(Fr(x)) for row in X1 + X2 for x in row)
        E1, E2 = float(rng.choice([0.5, 1, 1, 2, 4])), float(rng.choice([0.5, 1, 1, 2]))
        return dict(t1=t1, t2=t2, e1=e1, e2=e2, E1=E1, E2=E2, X1=X1 if ok else None, X2=X2 if ok else None,
                    label="L:" + k)
    if stream == "M":   # malformed: all potentials zero (0/0 in the "same" exit), zero Young's modulus
        t1, X1 = lattice_tet(rng)
        k = rng.choice(["zero-potentials", "zero-modulus", "zero-one-side"])
        t2, X2 = shift_tet(t1, X1, [float(rng.choice([0, 0.5, 1])) for _ in range(3)])
        e1 = [0.0] * 4 if k != "zero-modulus" else [1.0, 0.0, 0.5, 0.0]
        e2 = [0.0] * 4 if k == "zero-potentials" else [0.0, 1.0, 0.0, 0.5]
        E1, E2 = (0.0, 0.0) if k == "zero-modulus" else (1.0, 1.0)
        return dict(t1=t1, t2=t2, e1=e1, e2=e2, E1=E1, E2=E2, X1=X1, X2=X2, label="M:" + k)
    if stream == "N":   # nearly degenerate: slivers / tiny / huge, library pinv
        sc = 10 ** rng.uniform(-2, 2)
        t1 = rand_tet(rng, sc, minvol=0.05)
        flat = rng.choice([1e-2, 1e-3, 1e-4])
        ax = rng.randrange(3)
        t1 = [[(v[i] * (flat if i == ax else 1.0)) for i in range(3)] for v in t1]
        t2 = rand_tet(rng, sc, [sc * rng.uniform(-0.3, 0.3) * (flat if i == ax else 1.0) for i in range(3)])
        if rng.random() < 0.5:
            t2 = [[(v[i] * (flat if i == ax else 1.0)) for i in range(3)] for v in t2]
        e1 = [rng.uniform(0, sc) for _ in range(4)]
        e2 = [rng.uniform(0, sc) for _ in range(4)]
        return dict(t1=t1, t2=t2, e1=e1, e2=e2, E1=10 ** rng.uniform(-2, 2), E2=10 ** rng.uniform(-2, 2), X1=None,
                    X2=None, label="N:sliver")
    if stream == "S":   # shared vertex / edge / face with random geometry
        sc = 10 ** rng.uniform(-2, 2) if rng.random() < 0.5 else 1.0
        t1 = rand_tet(rng, sc)
        t2 = rand_tet(rng, sc, [sc * rng.uniform(-0.3, 0.3) for _ in range(3)])
        m = rng.choice([1, 2, 3])
        for i in range(m):
            t2[i] = list(t1[i])
        if abs(tet_volume6(t2)) < 0.01 * sc ** 3:
            t2 = rand_tet(rng, sc)
        e1 = [rng.choice([0.0, rng.uniform(0, sc)]) for _ in range(4)]
        e2 = [rng.choice([0.0, rng.uniform(0, sc)]) for _ in range(4)]
        if max(e1) == 0:
            e1[3] = sc
        if max(e2) == 0:
            e2[3] = sc
        if rng.random() < 0.5:
            for i in range(m):
                e2[i] = e1[i]   # equal pressure at the shared vertices: the contact plane passes through them
        return dict(t1=t1, t2=t2, e1=e1, e2=e2, E1=1.0, E2=1.0, X1=None, X2=None, label="S:shared-%d" % m)
    sc = 10 ** rng.uniform(-2, 2) if rng.random() < 0.4 else 1.0
    t1 = rand_tet(rng, sc)
    t2 = rand_tet(rng, sc, [sc * rng.uniform(-0.7, 0.7) for _ in range(3)])
    e1 = [rng.choice([0.0, 0.0, rng.uniform(0, sc)]) for _ in range(4)]
    e2 = [rng.choice([0.0, 0.0, rng.uniform(0, sc)]) for _ in range(4)]
    if max(e1) == 0:
        e1[rng.randrange(4)] = sc * 0.5
    if max(e2) == 0:
        e2[rng.randrange(4)] = sc * 0.5
    return dict(t1=t1, t2=t2, e1=e1, e2=e2, E1=10 ** rng.uniform(-2, 2), E2=10 ** rng.uniform(-2, 2), X1=None,
                X2=None, label="G:random")


def quat_rot(rng):
    while True:
        q = [rng.gauss(0, 1) for _ in range(4)]
        n = math.sqrt(sum(x * x for x in q))
        if n > 1e-3:
            break
    w, x, y, z = [v / n for v in q]
    return [[1 - 2 * (y * y + z * z), 2 * (x * y - z * w), 2 * (x * z + y * w)],
            [2 * (x * y + z * w), 1 - 2 * (x * x + z * z), 2 * (y * z - x * w)],
            [2 * (x * z - y * w), 2 * (y * z + x * w), 1 - 2 * (x * x + y * y)]]


def axis_rot(rng):
    """signed axis permutation (proper rotation), optionally times a 3-4-5 or 45° rotation about an axis"""
    while True:
        perm = rng.sample(range(3), 3)
        sg = [rng.choice([1, -1]) for _ in range(3)]
        R = np.zeros((3, 3))
        for i in range(3):
            R[i, perm[i]] = sg[i]
        if np.linalg.det(R) > 0:
            break
    u = rng.random()
    if u < 0.6:
        return R.tolist(), "perm"
    k = rng.randrange(3)
    i, j = [(1, 2), (2, 0), (0, 1)][k]
    c, s = (0.6, 0.8) if u < 0.8 else (math.sqrt(0.5), math.sqrt(0.5))
    Q = np.eye(3)
    Q[i, i], Q[i, j], Q[j, i], Q[j, j] = c, -s, s, c
    return R.dot(Q).tolist(), "perm*rot"


def rand_spec(rng, lattice):
    k = rng.choice(["sphere", "ellipsoid", "cube", "box", "cylinder", "capsule"])
    if lattice:
        S = [0.5, 1.0, 1.5, 2.0]
        u = lambda: rng.choice(S)  # noqa
    else:
        u = lambda: 10 ** rng.uniform(-1, 1)  # noqa
    if k == "sphere":
        p = dict(radius=u(), order=rng.choice([0, 1]))
    elif k == "ellipsoid":
        p = dict(radii=[u() for _ in range(3)], order=rng.choice([0, 1]))
    elif k == "cube":
        p = dict(size=u())
    elif k == "box":
        p = dict(size=[u() for _ in range(3)])
    elif k == "cylinder":
        r = u()
        p = dict(radius=r, length=u(), hint=r * (rng.choice([1.0, 1.5]) if lattice else rng.uniform(0.8, 1.6)))
    else:
        r = u()
        p = dict(radius=r, height=u(), hint=r * (rng.choice([1.0, 1.5]) if lattice else rng.uniform(0.8, 1.6)))
    return dict(kind=k, params=p)


def gen_bodies(rng, stream):
    """(s1, s2, separated, label).  stream "BL": axis-aligned stacking on a lattice, "BG": random poses"""
    lat = stream == "BL"
    s1, s2 = rand_spec(rng, lat), rand_spec(rng, lat)
    r1, r2 = body_radius(s1), body_radius(s2)
    sep = rng.random() < 0.2
    if lat:
        R1, _ = axis_rot(rng)
        R2, _ = axis_rot(rng)
        t2 = [float(rng.choice([-1, 0, 0, 0.5, 2])) for _ in range(3)]
        ax = rng.randrange(3)
        dd = [0.0, 0.0, 0.0]
        dd[ax] = rng.choice([0.25, 0.5, 0.75, 1.0]) * (r1 + r2) * 0.5
        if sep:
            dd[ax] = math.ceil(2 * (r1 + r2) + 1) / 2
        elif rng.random() < 0.3:
            dd[(ax + 1) % 3] = rng.choice([0.25, -0.5])
        t1 = [t2[k] + dd[k] for k in range(3)]
        E1, E2 = float(rng.choice([1, 1, 0.5, 2, 100])), float(rng.choice([1, 1, 0.5, 0.01]))
    else:
        R1, R2 = quat_rot(rng), quat_rot(rng)
        t2 = [rng.uniform(-3, 3) for _ in range(3)]
        d = np.array([rng.gauss(0, 1) for _ in range(3)])
        d /= np.linalg.norm(d)
        dist = (r1 + r2) * (rng.uniform(1.01, 1.5) if sep else rng.uniform(0.1, 0.9))
        t1 = (np.array(t2) + d * dist).tolist()
        E1, E2 = 10 ** rng.uniform(-2, 2), 10 ** rng.uniform(-2, 2)
    s1.update(R=R1, t=t1, E=E1)
    s2.update(R=R2, t=t2, E=E2)
    return s1, s2, sep, ("BL:" if lat else "BG:") + s1["kind"] + "/" + s2["kind"]


# =================================================================== correspondence plumbing
def enc(vals, mode):
    if mode == "F":
        return [f2h(v) for v in vals]
    return [q2s(Fr(float(v))) for v in vals]


def dec(tok, mode):
    return h2f(tok) if mode == "F" else float(s2q(tok))


def flat(a):
    return [float(x) for x in np.asarray(a, dtype=float).reshape(-1)]


class Obs:
    """canonical observation: exact tag, numbers compared with tolerance, optional point set"""

    def __init__(self, tag, nums=(), pts=None, dim=0):
        self.tag, self.nums, self.pts, self.dim = tuple(tag), list(nums), pts, dim

    def __repr__(self):
        return "Obs(%s, %s, %s)" % (self.tag, self.nums[:8], None if self.pts is None else self.pts[:8])


def pts_of(nums, dim):
    return [tuple(nums[i:i + dim]) for i in range(0, len(nums), dim)]


def agree(a, b, tol, ordered=False):
    """'' if the observations agree, else a reason"""
    if len(a.tag) != len(b.tag) or any(x != y and x != "*" and y != "*" for x, y in zip(a.tag, b.tag)):
        return "tag %s vs %s" % (a.tag, b.tag)
    if len(a.nums) != len(b.nums):
        return "length %d vs %d" % (len(a.nums), len(b.nums))
    for x, y in zip(a.nums, b.nums):
        if not (abs(x - y) <= tol or (math.isnan(x) and math.isnan(y)) or x == y):
            return "value %r vs %r (tol %g)" % (x, y, tol)
    if (a.pts is None) != (b.pts is None):
        return "point set present vs absent"
    if a.pts is not None:
        A, B = np.asarray(a.pts, dtype=float), np.asarray(b.pts, dtype=float)
        if len(A) == 0 or len(B) == 0:
            return "" if len(A) == len(B) else "point count %d vs %d" % (len(A), len(B))
        if ordered and len(A) == len(B) and np.all(np.abs(A - B) <= tol):
            return ""
        dm = np.max(np.abs(A[:, None, :] - B[None, :, :]), axis=2)
        if dm.min(axis=1).max() > tol or dm.min(axis=0).max() > tol:
            return "point sets differ by %g (tol %g)" % (max(dm.min(axis=1).max(), dm.min(axis=0).max()), tol)
    return ""


def parse_model(out, mode, spec):
    """spec: list of field kinds after 'ok': 'i' int tag, 's' scalar, 'S*' rest scalars,
    'P2'/'P3' = count followed by that many 2-/3-vectors (point set), 'm' string tag"""
    parts = out.split()
    if not parts:
        return Obs(("bad", "empty"))
    if parts[0] == "err":
        return Obs(("err", parts[1]))
    if parts[0] != "ok":
        return Obs(("bad", out[:60]))
    tag, nums, pts, dim = ["ok"], [], None, 0
    k = 1
    for f in spec:
        if f in ("i", "m"):
            tag.append(parts[k])
            k += 1
        elif f == "s":
            nums.append(dec(parts[k], mode))
            k += 1
        elif f == "S*":
            nums += [dec(t, mode) for t in parts[k:]]
            k = len(parts)
        elif f in ("P2", "P3", "P4"):
            dim = int(f[1])
            n = int(parts[k])
            k += 1
            if n < 0:
                tag.append("none")
                pts = None
            else:
                vals = [dec(t, mode) for t in parts[k:k + n * dim]]
                k += n * dim
                pts = pts_of(vals, dim)
        elif f == "N":      # a count that is part of the tag
            tag.append(parts[k])
            k += 1
    return Obs(tag, nums, pts, dim)


def hull2d(P):
    """Andrew's monotone chain; counter-clockwise hull without collinear points"""
    P = sorted(set(map(tuple, P)))
    if len(P) <= 2:
        return P

    def cr(o, a, b):
        return (a[0] - o[0]) * (b[1] - o[1]) - (a[1] - o[1]) * (b[0] - o[0])
    lo, up = [], []
    for q in P:
        while len(lo) >= 2 and cr(lo[-2], lo[-1], q) <= 0:
            lo.pop()
        lo.append(q)
    for q in reversed(P):
        while len(up) >= 2 and cr(up[-2], up[-1], q) <= 0:
            up.pop()
        up.append(q)
    return lo[:-1] + up[:-1]


def seg_dist(q, a, b):
    q, a, b = np.asarray(q), np.asarray(a), np.asarray(b)
    ab = b - a
    L = float(np.dot(ab, ab))
    t = 0.0 if L == 0 else min(1.0, max(0.0, float(np.dot(q - a, ab)) / L))
    return float(np.linalg.norm(q - (a + t * ab)))


def dist_to_hull(q, H):
    if len(H) == 0:
        return float("inf")
    if len(H) == 1:
        return float(np.linalg.norm(np.asarray(q) - np.asarray(H[0])))
    if len(H) == 2:
        return seg_dist(q, H[0], H[1])
    inside = True
    best = float("inf")
    for k in range(len(H)):
        a, b = H[k], H[(k + 1) % len(H)]
        if (b[0] - a[0]) * (q[1] - a[1]) - (b[1] - a[1]) * (q[0] - a[0]) < 0:
            inside = False
        best = min(best, seg_dist(q, a, b))
    return 0.0 if inside else best


def hull_agree(A, B, normal, tol):
    """the two planar point sets span the same convex polygon within tol (extra points on edges or inside do not
    matter); an empty set agrees with a set of zero area"""
    u, v = plane_basis(normal)
    A2 = [(float(np.dot(p, u)), float(np.dot(p, v))) for p in np.asarray(A, dtype=float).reshape(-1, 3)]
    B2 = [(float(np.dot(p, u)), float(np.dot(p, v))) for p in np.asarray(B, dtype=float).reshape(-1, 3)]
    HA, HB = hull2d(A2), hull2d(B2)

    def area(H):
        return 0.5 * abs(sum(H[k][0] * H[(k + 1) % len(H)][1] - H[(k + 1) % len(H)][0] * H[k][1]
                             for k in range(len(H)))) if len(H) >= 3 else 0.0

    def diam(H):
        return max([math.dist(a, b) for a in H for b in H] + [0.0])
    if not A2 or not B2:
        H = HA or HB
        if not H:
            return ""
        return "" if area(H) <= tol * max(diam(H), tol) else "one side empty, the other spans area %g" % area(H)
    if area(HA) <= tol * max(diam(HA), tol) and area(HB) <= tol * max(diam(HB), tol):
        return ""          # both degenerate (zero area): the extent along the common line is rounding noise
    dA = max(dist_to_hull(q, HB) for q in HA)
    dB = max(dist_to_hull(q, HA) for q in HB)
    return "" if max(dA, dB) <= tol else "convex hulls differ by %g (tol %g)" % (max(dA, dB), tol)


def explain_drop(case):
    """a polygon disagreement between implementation and model is an instance of F_DROP when both polygons lie in
    the exact polygon and a vertex of it with >= 3 face planes through it is missing from one of them"""
    def f(py_o, m_o):
        if py_o.tag[0] != "ok" or m_o.tag[0] != "ok":
            return None
        ra = {"ok": True, "inter": bool(py_o.pts) and len(py_o.pts) >= 3, "poly": py_o.pts or []}
        rb = {"ok": True, "inter": bool(m_o.pts) and len(m_o.pts) >= 3, "poly": m_o.pts or []}
        try:
            return F_DROP if vertex_drop_class(case, ra, rb) else None
        except Exception:  # noqa
            return None
    return f


def hull_cmp(normal, ctx=None, weak=False):
    """comparator for reported polygons: exact vertex-set agreement first; otherwise the two vertex lists must span
    the same convex region within tol (extra points on edges / duplicates that differ in the last bits are decided
    by rounding), and when both regions have zero area (a point or a segment: the < 3 unique vertices decision and
    the extent are rounding noise) only the plane is compared."""
    def note(k):
        if ctx is not None:
            ctx.branch("polygon-comparison", k)

    def f(py_o, m_o, tol):
        r0 = agree(py_o, m_o, tol)
        if r0 == "":
            note("vertex-sets-equal")
            return ""
        if py_o.tag[0] != "ok" or m_o.tag[0] != "ok":
            return r0
        r = agree(Obs(("ok",), py_o.nums), Obs(("ok",), m_o.nums), tol)
        if r:
            return r
        A = py_o.pts or []
        B = m_o.pts or []
        rh = hull_agree(A, B, normal, tol)
        if rh:
            return rh
        u, v = plane_basis(normal)
        both = [(float(np.dot(q, u)), float(np.dot(q, v))) for q in np.asarray(list(A) + list(B)).reshape(-1, 3)]
        H = hull2d(both)
        ar = 0.5 * abs(sum(H[k][0] * H[(k + 1) % len(H)][1] - H[(k + 1) % len(H)][0] * H[k][1]
                           for k in range(len(H)))) if len(H) >= 3 else 0.0
        dm = max([math.dist(a, b) for a in H for b in H] + [0.0])
        if ar <= tol * max(dm, tol):
            note("zero-area-region(flag not compared)")
            return ""
        # same region of positive area: flags and None-ness must agree (branch ids are wildcards on the python side)
        rt = agree(Obs(py_o.tag), Obs(m_o.tag), tol)
        if rt:
            return rt
        note("same-convex-region")
        return ""
    return f


class Cmp:
    """collects (python observation, model lines) and compares after one driver run"""

    def __init__(self, ctx, tag):
        self.ctx = ctx
        self.drv = core.Driver("c15-" + tag)
        self.items = []
        self.stats = {"cases": 0, "agree_F": 0, "agree_Q": 0, "tie_Q_only": 0, "rounding_tie": 0}

    def add(self, fn, args_f, spec, py_obs, tol, seed_input, branch_pos=None, ordered=False, exact_q=False,
            stream="G", with_q=False, custom=None, explain=None):
        """args_f: callable(mode) -> tokens; custom: optional comparator (py_obs, model_obs, tol) -> reason;
        explain: optional (py_obs, model_obs) -> finding id when a disagreement is an instance of a known finding"""
        idF = self.drv.add(fn, "F", args_f("F"))
        idQ = self.drv.add(fn, "Q", args_f("Q")) if with_q else None
        self.items.append((fn, idF, idQ, spec, py_obs, tol, seed_input, branch_pos, ordered, exact_q, stream, custom,
                           explain))

    def run(self):
        out = self.drv.run()
        ctx = self.ctx
        for (fn, idF, idQ, spec, py, tol, seed, bpos, ordered, exact_q, stream, custom, explain) in self.items:
            self.stats["cases"] += 1
            mF = parse_model(out.get(idF, "bad missing"), "F", spec)
            rF = custom(py, mF, tol) if custom else agree(py, mF, tol, ordered)
            if bpos is not None and len(mF.tag) > bpos:
                ctx.branch(fn, mF.tag[bpos] if mF.tag[0] == "ok" else "err:" + str(mF.tag[-1]))
            elif mF.tag[0] == "err":
                ctx.branch(fn, "err:" + str(mF.tag[-1]))
            rQ = None
            if idQ is not None:
                mQ = parse_model(out.get(idQ, "bad missing"), "Q", spec)
                rQ = (custom(py, mQ, tol) if custom else agree(py, mQ, 0.0 if exact_q else tol, ordered))
            if rF == "":
                self.stats["agree_F"] += 1
                if rQ == "":
                    self.stats["agree_Q"] += 1
                elif rQ is not None:
                    self.stats["rounding_tie"] += 1   # exact arithmetic decides differently than floats: rounding
                continue
            if rQ == "":
                self.stats["tie_Q_only"] += 1
                continue
            fid = explain(py, mF) if explain else None
            ctx.broke("correspondence", fn, "implementation %r, model(Float) %r: %s%s" % (
                py, mF, rF, "" if rQ is None else "; model(Rat): " + rQ), seed)
            if fid:
                # rounding defect of the implementation (the model agrees with the exact polygon): recorded,
                # attributed to the known finding, not a verdict on the model
                ctx.broken[-1]["finding"] = fid
                self.stats["explained_by_" + fid] = self.stats.get("explained_by_" + fid, 0) + 1
        for k, v in self.stats.items():
            ctx.extra["corr_%s_%s" % (self.drv.tag, k)] = v


def py_err(e):
    return Obs(("err", err_name(e)))


def tokens(*groups):
    def build(mode):
        t = []
        for g in groups:
            if isinstance(g, str):
                t.append(g)
            elif isinstance(g, int):
                t.append(str(g))
            else:
                t += enc(flat(g), mode)
        return t
    return build


def absmax(*arrs):
    m = 1.0
    for a in arrs:
        a = np.asarray(a, dtype=float)
        if a.size:
            v = float(np.nanmax(np.abs(a)))
            if np.isfinite(v):
                m = max(m, v)
    return m


# =================================================================== correspondence streams
def corr_halfplanes(ctx, cmp, hps, stream, label):
    """2-D kernels and intersect_halfplanes on one half-plane list"""
    _, ti, hp, _ = impl()
    H = c_arr(hps).reshape(-1, 4)
    n = len(H)
    lattice = stream in ("L", "M")
    rng = ctx.rng
    sc = absmax(H)
    key = ("hp", tuple(flat(H)))
    ctx.count("corr:ih:" + stream, key=key, nontrivial=n >= 2,
              sample={"fn": "intersect_halfplanes", "stream": stream, "label": label, "halfplanes": H.tolist()})
    # intersect_halfplanes
    try:
        pts = hp.intersect_halfplanes(H)
        py = Obs(("ok",), [], [tuple(p) for p in np.asarray(pts).tolist()], 2)
        pmax = absmax(pts)
    except Exception as e:  # noqa
        py = py_err(e)
        pmax = 1.0
    cmp.add("C15.ih", tokens(n, H), ["P2"], py, 1e-9 * max(sc, pmax), {"fn": "ih", "halfplanes": H.tolist()},
            ordered=True, with_q=lattice, stream=stream)
    ctx.branch("ih-outcome", py.tag[-1] if py.tag[0] == "err" else "points/%d" % len(py.pts))
    # the pre-repair function (3*n rows) against intersectHalfplanes_asIs_before_fix
    old = old_intersect_halfplanes()
    if old is not None:
        try:
            pts = old(H)
            pyo = Obs(("ok",), [], [tuple(p) for p in np.asarray(pts).tolist()], 2)
            pmax = absmax(pts)
        except Exception as e:  # noqa
            pyo = py_err(e)
            pmax = 1.0
        cmp.add("C15.ih.before_fix", tokens(n, H), ["P2"], pyo, 1e-9 * max(sc, pmax),
                {"fn": "ih.before_fix", "halfplanes": H.tolist()}, ordered=True, with_q=lattice, stream=stream)
        ctx.count("corr:ih.before_fix:" + stream, key=("hpo",) + key[1:])
        ctx.branch("ih.before_fix-outcome", pyo.tag[-1] if pyo.tag[0] == "err" else "ok")
    # kernels on pairs and probe points
    for _ in range(min(4, n * (n - 1) // 2)):
        i, j = rng.sample(range(n), 2)
        p = hp.intersect_two_halfplanes(H[i], H[j])
        if len(p) == 0:
            py = Obs(("ok", "0"))
        else:
            py = Obs(("ok", "1"), flat(p))
        cmp.add("C15.i2h", tokens(H[i], H[j]), ["i", "S*"], py, 1e-9 * absmax(H[i], H[j], p),
                {"fn": "i2h", "h1": H[i].tolist(), "h2": H[j].tolist()}, branch_pos=1, with_q=lattice, stream=stream)
        ctx.count("corr:i2h:" + stream, key=("i2h", tuple(flat(H[i])), tuple(flat(H[j]))))
        c = float(hp.cross2d(c_arr(H[i][2:]), c_arr(H[j][2:])))
        cmp.add("C15.cross2d", tokens(H[i][2:], H[j][2:]), ["s"], Obs(("ok",), [c]), 1e-12 * absmax(c),
                {"fn": "cross2d", "a": H[i][2:].tolist(), "b": H[j][2:].tolist()}, with_q=lattice, exact_q=lattice,
                stream=stream)
        ctx.count("corr:cross2d:" + stream, key=("x", tuple(flat(H[i][2:])), tuple(flat(H[j][2:]))))
        # point_outside_of_halfplane: the intersection point itself, lattice points, points on the boundary
        probes = []
        if len(p):
            probes.append(np.asarray(p, dtype=float))
        probes.append(np.array([float(rng.choice(HALF)), float(rng.choice(HALF))]) * (1.0 if lattice else sc))
        k = rng.randrange(n)
        probes.append(H[k][:2] + H[k][2:] * float(rng.choice([0, 1, -2, 0.5])))       # on the line of k
        for q in probes:
            q = c_arr(q)
            o = bool(hp.point_outside_of_halfplane(H[k], q))
            side = float(hp.cross2d(c_arr(H[k][2:]), q - H[k][:2]))
            cmp.add("C15.poh", tokens(H[k], q), ["i", "s"], Obs(("ok", str(int(o))), [side]),
                    1e-9 * absmax(H[k], q) ** 2, {"fn": "poh", "h": H[k].tolist(), "q": q.tolist()}, branch_pos=1,
                    with_q=lattice, stream=stream)
            ctx.count("corr:poh:" + stream, key=("poh", tuple(flat(H[k])), tuple(flat(q))))


def tet_tokens(case, swap=False):
    X1, X2 = pair_X(case)
    return X1, X2


def corr_pair(ctx, cmp, case, stream):
    """contact_plane, check, plane basis, make_halfplanes, order/unique, compute_contact_polygon,
    intersect_tetrahedron_pair, compute_contact_force on one tetrahedron pair"""
    hc, ti, hp, fo = impl()
    from distance3d.utils import plane_basis_from_normal
    t1, t2 = c_arr(case["t1"]), c_arr(case["t2"])
    e1, e2 = c_arr(case["e1"]), c_arr(case["e2"])
    E1, E2 = float(case["E1"]), float(case["E2"])
    X1, X2 = pair_X(case)
    lattice = case.get("X1") is not None
    seed = {"fn": "pair", "case": core.jsonable(case)}
    sc = absmax(t1, t2)
    xs = absmax(X1, X2)
    key = ("pair", tuple(flat(t1)), tuple(flat(t2)), tuple(flat(e1)), tuple(flat(e2)), E1, E2)
    ctx.count("corr:pair:" + stream, key=key,
              sample={"fn": "intersect_tetrahedron_pair", "stream": stream, "label": case.get("label"),
                      "t1": t1.tolist(), "t2": t2.tolist(), "e1": e1.tolist(), "e2": e2.tolist(), "E1": E1, "E2": E2})
    # contact_plane
    hnf, same = ti.contact_plane(X1, X2, e1, e2, E1, E2)
    raw = (e1 * E1).dot(X1) - (e2 * E2).dot(X2)
    cmp.add("C15.cp", tokens(X1, X2, e1, e2, [E1], [E2]), ["i", "i", "S*"],
            Obs(("ok", "*", str(int(bool(same)))), flat(hnf)), 1e-9 * absmax(hnf),
            dict(seed, fn="cp"), branch_pos=1, with_q=False, stream=stream)
    # conditioning of the 2-D stage (decides which comparisons are meaningful, see `conditioning`)
    n, d = c_arr(hnf[:3]), float(hnf[3])
    cond = None
    if not same and np.all(np.isfinite(hnf)):
        cond = conditioning(X1, X2, n, d, sc)
    chk = (not same) and np.all(np.isfinite(hnf)) and bool(
        ti.check_tetrahedra_intersect_contact_plane(t1, t2, n, d, 1e-6))
    ill = cond is not None and cond["ill"]
    # whole pair
    try:
        inter, det = ti.intersect_tetrahedron_pair(t1, e1, X1, t2, e2, X2, E1, E2)
        pl = flat(det[0])
        if det[1] is None:
            py = Obs(("ok", "*", str(int(bool(inter))), "none"), pl, None)
        else:
            py = Obs(("ok", "*", str(int(bool(inter)))), pl, [tuple(p) for p in np.asarray(det[1]).tolist()], 3)
        poly = det[1]
        if not np.all(np.isfinite(pl)) or (det[1] is not None and not np.all(np.isfinite(det[1]))):
            # 0/0 in _handle_same_tetrahedron (all potentials zero): NaN interpreted, the model says divZero
            py = Obs(("err", "divZero"))
    except Exception as e:  # noqa
        py = py_err(e)
        inter, poly = False, None
    skip = ill and cond["why"] == "face-in-contact-plane"
    weak = ill and not skip          # coincident boundary lines: compare the polygons as convex regions
    if skip and chk:
        ctx.count("corr:ill-conditioned-2d-stage(not compared):" + stream, key=("ill",) + key)
        ctx.branch("conditioning", cond["why"])
    else:
        # with coincident lines the < 3 vertices decision itself is noise: the flag is then not compared
        cmp.add("C15.pair", tokens(t1, e1, X1, t2, e2, X2, [E1], [E2]), ["i", "i", "s", "s", "s", "s", "P3"], py,
                1e-9 * absmax(sc, poly if poly is not None else [1.0]), seed, branch_pos=1, with_q=lattice,
                stream=stream, custom=hull_cmp(n if np.all(np.isfinite(n)) and np.linalg.norm(n) > 0.5
                                               else np.array([0.0, 0.0, 1.0]), ctx), explain=explain_drop(case))
    if same:
        try:
            pl, pg = ti._handle_same_tetrahedron(e2, t2)
            py = Obs(("ok", "*"), flat(pl), [tuple(p) for p in np.asarray(pg).tolist()], 3)
            if not np.all(np.isfinite(pl)):
                py = Obs(("err", "divZero"))
        except Exception as e:  # noqa
            py = py_err(e)
        cmp.add("C15.same", tokens(e2, t2), ["i", "s", "s", "s", "s", "P3"], py, 1e-9 * sc, dict(seed, fn="same"),
                branch_pos=1, stream=stream)
        ctx.count("corr:same:" + stream, key=("same",) + key)
        return
    if cond is None:
        return
    cmp.add("C15.chk", tokens(t1, t2, n, [d], [1e-6]), ["i"], Obs(("ok", str(int(chk)))), 0.0, dict(seed, fn="chk"),
            branch_pos=1, stream=stream)
    ctx.count("corr:chk:" + stream, key=("chk",) + key)
    # plane basis + make_halfplanes (also for pairs the check rejects: the functions are total)
    xa, ya = cond["xa"], cond["ya"]
    cmp.add("C15.basis", tokens(n), ["i", "S*"], Obs(("ok", "*"), flat(xa) + flat(ya)), 1e-9, dict(seed, fn="basis"),
            branch_pos=1, stream=stream)
    ctx.count("corr:basis:" + stream, key=("basis", tuple(flat(n))))
    pp = n * d
    c2p = np.vstack((xa, ya))
    X = np.vstack((X1, X2))
    H = ti.make_halfplanes(X, pp, c2p)
    mask = "".join("1" if v > EPS else "0" for v in cond["n2norm"])
    noise = cond["noise_rows"]

    def cmp_rows(py_o, m_o, tol):
        """rows compared by source index; rows whose projected normal is rounding noise are ignored"""
        if m_o.tag[0] != "ok" or len(m_o.tag) < 2 or len(m_o.tag[1]) != 8:
            return "model output %r" % (m_o,)
        def by_index(mk, rows):  # noqa
            out, k = {}, 0
            for i, c in enumerate(mk):
                if c == "1":
                    if k >= len(rows):
                        return None
                    out[i] = rows[k]
                    k += 1
            return out if k == len(rows) else None
        A, B = by_index(py_o.tag[1], py_o.pts), by_index(m_o.tag[1], m_o.pts)
        if A is None or B is None:
            return "row count does not match the mask"
        for i in range(8):
            if i in noise:
                continue
            if (i in A) != (i in B):
                return "row %d kept by one side only" % i
            if i in A and max(abs(x - y) for x, y in zip(A[i], B[i])) > tol:
                return "row %d: %r vs %r" % (i, A[i], B[i])
        return ""
    cmp.add("C15.mh", tokens(8, X, pp, xa, ya), ["m", "P4"], Obs(("ok", mask), [], [tuple(r) for r in H.tolist()], 4),
            1e-9 * absmax(H[[k for k in range(len(H))]] if not noise else [1.0], xs, sc),
            dict(seed, fn="mh", X=X.tolist(), plane_point=pp.tolist(), cart2plane=c2p.tolist()),
            branch_pos=1, stream=stream, custom=cmp_rows)
    ctx.count("corr:mh:" + stream, key=("mh",) + key)
    old = old_make_halfplanes()
    if old is not None and not noise:
        g = [7.0, -7.0, 3.0, 5.0]
        Ho = old(X, pp, c2p, g)
        cmp.add("C15.mh.before_fix", tokens(8, X, pp, xa, ya, g), ["m", "P4"],
                Obs(("ok", mask), [], [tuple(r) for r in Ho.tolist()], 4), 1e-9 * absmax(Ho, xs),
                dict(seed, fn="mh.before_fix"), ordered=True, stream=stream)
        ctx.count("corr:mh.before_fix:" + stream, key=("mho",) + key)
        ctx.branch("mh.before_fix", "differs-from-current" if (Ho.shape != H.shape or not np.array_equal(Ho, H))
                   else "same-as-current")
    if skip:
        if not chk:
            ctx.count("corr:ill-conditioned-2d-stage(not compared):" + stream, key=("ill",) + key)
            ctx.branch("conditioning", cond["why"])
        return
    ctx.branch("conditioning", cond["why"] if weak else "well-conditioned")
    # compute_contact_polygon (and its stages)
    try:
        v2 = hp.intersect_halfplanes(H)
    except Exception:  # noqa
        v2 = None
    try:
        pg = ti.compute_contact_polygon(X1, X2, n, d)
        py = Obs(("ok", "*"), [], [tuple(p) for p in np.asarray(pg).tolist()], 3)
    except Exception as e:  # noqa
        py = py_err(e)
        pg = None
    cmp.add("C15.poly", tokens(X1, X2, n, [d]), ["i", "P3"], py, 1e-9 * absmax(sc, pg if pg is not None else [1.0]),
            dict(seed, fn="poly"), branch_pos=1, with_q=lattice, stream=stream, custom=hull_cmp(n, ctx),
            explain=explain_drop(case))
    ctx.count("corr:poly:" + stream, key=("poly",) + key)
    if v2 is not None and len(v2) >= 1:
        v2 = c_arr(v2)
        o = ti.order_points(v2)
        cmp.add("C15.order", tokens(len(v2), v2), ["P2"], Obs(("ok",), [], [tuple(p) for p in o.tolist()], 2),
                1e-9 * absmax(v2), dict(seed, fn="order", points=v2.tolist()), stream=stream)
        u = ti.filter_unique_points(c_arr(o))
        cmp.add("C15.uniq", tokens(len(o), o), ["P2"], Obs(("ok",), [], [tuple(p) for p in u.tolist()], 2),
                1e-9 * absmax(v2), dict(seed, fn="uniq", points=o.tolist()), ordered=True, stream=stream)
        ctx.count("corr:order+uniq:" + stream, key=("ou", tuple(flat(v2))))
    # compute_contact_force on the reported polygon (np.linalg.solve replaced by the inverse matrix)
    if inter and poly is not None and len(poly) >= 3:
        A = np.vstack((t1.T, np.ones((1, 4))))
        if abs(np.linalg.det(A)) > 1e-12 * sc ** 3 and np.linalg.cond(A) < 1e6:
            Xi = np.linalg.inv(A)
            com, force, area, tri = fo.compute_contact_force(t1, e1, c_arr(det[0]), c_arr(poly), E1)
            tf = float(np.dot(force, det[0][:3]))
            fs = absmax(force, [area], com) * absmax(e1 * E1)
            cmp.add("C15.force", tokens(Xi, e1, det[0], [E1], len(poly), poly), ["i", "S*"],
                    Obs(("ok", str(len(tri))), flat(com) + flat(force) + [float(area), tf]),
                    1e-7 * fs * absmax(poly), dict(seed, fn="force"), branch_pos=1, stream=stream)
            ctx.count("corr:force:" + stream, key=("force",) + key)


def conditioning(X1, X2, n, d, sc):
    """Is the 2-D stage of this pair decided by rounding noise?  (computed from the inputs with numpy, not from the
    model.)  Two situations make the float result depend on the last bit of a dot product, so that the model at
    Float and the implementation may legitimately differ: (a) a face (nearly) parallel to the contact plane whose
    projected normal is neither exactly zero nor well above rounding noise *and* whose offset is tiny as well (the
    boundary line then passes through the region of interest in an arbitrary direction); (b) two boundary lines that
    are parallel up to rounding but not recognised as parallel by the absolute test `abs(denom) < EPSILON`
    (their 'intersection' is an arbitrary point of the common line).  Such inputs are still run through the
    oracle of `search`; they are only excluded from the point-by-point comparison with the model."""
    from distance3d.utils import plane_basis_from_normal
    try:
        xa, ya = plane_basis_from_normal(n)
    except ZeroDivisionError:
        return None
    if not (np.all(np.isfinite(xa)) and np.all(np.isfinite(ya))):
        return None
    X = np.vstack((X1, X2))
    c2p = np.vstack((xa, ya))
    pp = n * d
    n2 = X[:, :3].dot(c2p.T)
    n2norm = np.linalg.norm(n2, axis=1)
    nf = np.linalg.norm(X[:, :3], axis=1)
    ds = -X[:, 3] - X[:, :3].dot(pp)
    noise_rows, harmful = set(), False
    for i in range(8):
        if 1e-3 * EPS < n2norm[i] < 1e-6 * max(nf[i], 1e-300) or (n2norm[i] <= 1e-3 * EPS and n2norm[i] != 0.0
                                                                  and n2norm[i] > 1e-3 * EPS * 1e-3):
            noise_rows.add(i)
            if abs(ds[i]) < 1e6 * sc * n2norm[i]:
                harmful = True
        elif abs(n2norm[i] - EPS) < 0.5 * EPS:
            noise_rows.add(i)
    why = None
    if harmful:
        why = "face-in-contact-plane"
    else:
        good = [i for i in range(8) if i not in noise_rows and n2norm[i] > EPS]
        for a in range(len(good)):
            for b in range(a + 1, len(good)):
                i, j = good[a], good[b]
                cr = abs(n2[i][0] * n2[j][1] - n2[i][1] * n2[j][0])
                if cr != 0.0 and cr < 1e-6 * n2norm[i] * n2norm[j] and cr > 1e-3 * EPS:
                    # parallel up to rounding; harmful only if the two lines (nearly) coincide
                    pi = n2[i] * ds[i] / n2norm[i] ** 2
                    pj = n2[j] * ds[j] / n2norm[j] ** 2
                    if abs(float(np.dot(n2[i], pj - pi))) / n2norm[i] < 1e-6 * sc:
                        why = "coincident-boundary-lines"
    return {"ill": why is not None, "why": why, "noise_rows": noise_rows, "n2norm": n2norm, "xa": xa, "ya": ya}


_OLD = {}
_OLD_IH = {}


def old_intersect_halfplanes():
    """`intersect_halfplanes` with the buffer it had before the repair commit (`3 * len(halfplanes)` rows): the
    source of the function under test with the allocation line put back (mirror of
    `intersectHalfplanes_asIs_before_fix`).  If the repository under test still has the old allocation the function
    itself is returned; None if the allocation line is not recognised."""
    if "f" in _OLD_IH:
        return _OLD_IH["f"]
    _OLD_IH["f"] = None
    try:
        import inspect
        _, _, hp, _ = impl()
        fn = hp.intersect_halfplanes
        fn = getattr(fn, "py_func", fn)
        src = inspect.getsource(fn)
        if "np.empty((3 * len(halfplanes), 2))" in src:
            _OLD_IH["f"] = fn
            return fn
        new_alloc = "np.empty((n_halfplanes * (n_halfplanes - 1) // 2 + 1, 2))"
        if new_alloc not in src:
            return None
        body = src[src.index("def intersect_halfplanes("):].replace(new_alloc, "np.empty((3 * len(halfplanes), 2))")
        ns = {"np": np, "intersect_two_halfplanes": hp.intersect_two_halfplanes,
              "point_outside_of_halfplane": hp.point_outside_of_halfplane}
        exec(body, ns)  # noqa: S102  (source of the function under test)
        _OLD_IH["f"] = ns["intersect_halfplanes"]
    except Exception:  # noqa
        _OLD_IH["f"] = None
    return _OLD_IH["f"]


def old_make_halfplanes():
    """`make_halfplanes` as it was before the repair commit, taken from the git history of the repository under
    test (None if the history is not available, e.g. for a scratch copy without .git).  The uninitialised buffer
    `np.empty((8, 4))` is replaced by a buffer filled with the given garbage row."""
    if "f" in _OLD:
        return _OLD["f"]
    _OLD["f"] = None
    import subprocess
    try:
        log = subprocess.run(["git", "-C", core.REPO, "log", "--format=%H %s", "--",
                              "distance3d/hydroelastic_contact/_tetrahedron_intersection.py"],
                             capture_output=True, text=True, timeout=20).stdout.splitlines()
        fix = [ln.split()[0] for ln in log if "make_halfplanes left gaps" in ln]
        if not fix:
            return None
        src = subprocess.run(["git", "-C", core.REPO, "show", fix[0] + "^:distance3d/hydroelastic_contact/"
                              "_tetrahedron_intersection.py"], capture_output=True, text=True, timeout=20).stdout
        a = src.index("def make_halfplanes(")
        b = src.index("\n@numba", a)
        body = src[a:b].replace("def make_halfplanes(X, plane_point, cart2plane):",
                                "def make_halfplanes(X, plane_point, cart2plane, GARBAGE):")
        if "np.empty((8, 4))" not in body or "halfplanes[i, :2] = p" not in body:
            return None
        body = body.replace("np.empty((8, 4))", "np.tile(np.asarray(GARBAGE, dtype=float), (8, 1))")
        ns = {"np": np, "EPSILON": EPS}
        exec(body, ns)  # noqa: S102  (source comes from the repository's own history)
        _OLD["f"] = ns["make_halfplanes"]
    except Exception:  # noqa
        _OLD["f"] = None
    return _OLD["f"]


# =================================================================== corpus (fixed inputs, run first)
def concurrent_halfplanes(n):
    """n half-planes whose boundary lines all pass through the origin (distinct directions): every pair meets there
    and the origin lies on every boundary, so all n(n-1)/2 intersections are valid"""
    return [[0.0, 0.0, float(a), float(b)] for (a, b) in SMALL_DIRS[:n]]


UNIT = [[0.0, 0.0, 0.0], [1.0, 0.0, 0.0], [0.0, 1.0, 0.0], [0.0, 0.0, 1.0]]
UNIT_X = [[-1.0, -1.0, -1.0, 1.0], [1.0, 0.0, 0.0, 0.0], [0.0, 1.0, 0.0, 0.0], [0.0, 0.0, 1.0, 0.0]]


def corpus_pairs():
    out = []
    # the same element shifted along z by 1/2: two faces parallel to the contact plane (input class of the
    # repaired make_halfplanes defect)
    t2, X2 = shift_tet(UNIT, UNIT_X, [0.0, 0.0, -0.5])
    out.append(dict(t1=UNIT, t2=t2, e1=[1.0, 0.0, 0.0, 0.0], e2=[0.0, 0.0, 0.0, 1.0], E1=1.0, E2=1.0, X1=UNIT_X, X2=X2,
                    label="corpus:stack-z"))
    t1s, X1s = shift_tet(UNIT, UNIT_X, [1.0, 2.0, 3.0])
    t2s, X2s = shift_tet(UNIT, UNIT_X, [1.0, 2.0, 2.5])
    out.append(dict(t1=t1s, t2=t2s, e1=[1.0, 0.0, 0.0, 0.0], e2=[0.0, 0.0, 0.0, 1.0], E1=2.0, E2=1.0, X1=X1s, X2=X2s,
                    label="corpus:stack-z-shifted"))
    # F_SAME witnesses: mirrored tetrahedra 8 units apart whose equal-pressure plane is x = 0 (d = 0) ...
    ta = [[-5.0, 0.0, 0.0], [-4.0, 0.0, 0.0], [-5.0, 1.0, 0.0], [-5.0, 0.0, 1.0]]
    tb = [[5.0, 0.0, 0.0], [4.0, 0.0, 0.0], [5.0, 1.0, 0.0], [5.0, 0.0, 1.0]]
    Xa = [[float(x) for x in r] for r in fr_inv4(ta)]
    Xb = [[float(x) for x in r] for r in fr_inv4(tb)]
    out.append(dict(t1=ta, t2=tb, e1=[0.0, 1.0, 0.0, 0.0], e2=[0.0, 1.0, 0.0, 0.0], E1=1.0, E2=1.0, X1=Xa, X2=Xb,
                    label="corpus:same-branch-d0"))
    # ... and a translated copy with the same potentials (equal gradients: norm == 0)
    tc, Xc = shift_tet(UNIT, UNIT_X, [10.0, 0.0, 0.0])
    out.append(dict(t1=UNIT, t2=tc, e1=[0.0, 0.0, 0.0, 1.0], e2=[0.0, 0.0, 0.0, 1.0], E1=1.0, E2=1.0, X1=UNIT_X, X2=Xc,
                    label="corpus:same-branch-equal-gradient"))
    # F_DROP witness: stacked elements with two pairs of identical face planes (see known_findings.d/C15.json)
    out.append(dict(t1=[[1.5, 0.5, 1.5], [1.5, -0.5, 1.5], [2.5, 0.5, 1.5], [2.0, 0.0, 2.0]], e1=[1.0, 0.0, 0.5, 0.5],
                    E1=0.5, X1=[[-1.0, 1.0, 0.0, 2.0], [0.0, -1.0, -1.0, 2.0], [1.0, 0.0, -1.0, 0.0],
                                [0.0, 0.0, 2.0, -3.0]],
                    t2=[[1.0, 0.5, 1.5], [1.0, -0.5, 1.5], [2.0, 0.5, 1.5], [1.5, 0.0, 2.0]], e2=[2.0, 0.0, 0.5, 0.0],
                    E2=1.0, X2=[[-1.0, 1.0, 0.0, 1.5], [0.0, -1.0, -1.0, 2.0], [1.0, 0.0, -1.0, 0.5],
                                [0.0, 0.0, 2.0, -3.0]], label="corpus:vertex-drop"))
    # F_EXTRA witness: shared edge in the contact plane (coincident boundary lines), library pinv
    out.append(dict(t1=[[-0.4030722245340361, -0.32794973655921145, 0.9691835563534585],
                        [0.7649127263029474, -0.5933319393015395, -0.8614964996286014],
                        [0.8879011284529339, 0.284952417724174, -0.48375043103197135],
                        [0.532139097491394, 0.08929876493639854, -0.3524258937956539]],
                    t2=[[-0.4030722245340361, -0.32794973655921145, 0.9691835563534585],
                        [0.7649127263029474, -0.5933319393015395, -0.8614964996286014],
                        [0.2941113248117129, 0.6158695317570104, -0.24757084991980205],
                        [1.030555213379542, 0.7883022423253303, 0.6255885271595433]],
                    e1=[0.0, 0.0, 0.9080250331385077, 0.0], e2=[0.0, 0.0, 0.6824648276325453, 0.0], E1=1.0, E2=1.0,
                    X1=None, X2=None, label="corpus:coincident-lines"))
    # F_COINC witness: a cylinder-mesh element and a cube-mesh element whose pressure fields are both z + 1
    out.append(dict(t1=[[2.4458706724972306, 0.9450418679126287, -1.0], [1.3637823263686997, 2.301937735804838, -1.0], [0.4960148481335833, 0.5, -1.0], [0.9298985872511416, 1.400968867902419, 0.0]],
                    t2=[[1.0, 1.0, -1.0], [1.0, -1.0, -1.0], [-1.0, -1.0, -1.0], [0.0, 0.0, 0.0]],
                    e1=[0.0, 0.0, 0.0, 1.0], e2=[0.0, 0.0, 0.0, 1.0], E1=1.0, E2=1.0, X1=None, X2=None,
                    label="corpus:coincident-fields"))
    return out


def corpus_bodies():
    I3 = np.eye(3).tolist()
    c = math.sqrt(0.5)
    R45 = [[c, -c, 0.0], [c, c, 0.0], [0.0, 0.0, 1.0]]
    cube = lambda R, t: dict(kind="cube", params=dict(size=1.0), R=R, t=t, E=1.0)  # noqa
    return [(cube(I3, [0.0, 0.0, 0.8]), cube(I3, [0.0, 0.0, 0.0]), False, "corpus:cube-on-cube"),
            (cube(R45, [0.9, 0.9, 0.0]), cube(I3, [0.0, 0.0, 0.0]), True, "corpus:disjoint-cubes-45deg"),
            (cube(I3, [0.0, 0.0, 1.5]), cube(I3, [0.0, 0.0, 0.0]), True, "corpus:cubes-apart")]


# =================================================================== check steps
def correspondence(ctx):
    import warnings
    with warnings.catch_warnings(), np.errstate(all="ignore"):
        warnings.simplefilter("ignore")       # the malformed stream divides 0/0 on purpose
        _correspondence(ctx)


def _correspondence(ctx):
    cmp = Cmp(ctx, "corr")
    # corpus
    for n in (0, 1, 6, 7, 8, 12):
        corr_halfplanes(ctx, cmp, concurrent_halfplanes(n), "L" if n >= 2 else "M", "corpus:concurrent-%d" % n)
    for case in corpus_pairs():
        corr_pair(ctx, cmp, case, "L")
    nh = ctx.budget(260, 3000)
    for k in range(nh):
        stream = "L" if k % 20 < 9 else ("G" if k % 20 < 17 else "M")
        hps, label = gen_halfplanes(ctx.rng, stream)
        corr_halfplanes(ctx, cmp, hps, stream, label)
    npairs = ctx.budget(320, 4000)
    for k in range(npairs):
        u = k % 20
        stream = "L" if u < 8 else ("G" if u < 14 else ("S" if u < 17 else ("N" if u < 19 else "M")))
        corr_pair(ctx, cmp, gen_pair(ctx.rng, stream), stream)
    # tetrahedron pairs met in body contacts (library pinv, mesh elements)
    nb = ctx.budget(3, 30)
    for k in range(nb):
        s1, s2, sep, label = gen_bodies(ctx.rng, "BL" if k % 2 == 0 else "BG")
        r = run_bodies(s1, s2)
        if not r.get("ok"):
            continue
        idx = list(range(len(r["polys"])))
        ctx.rng.shuffle(idx)
        for kk in idx[:ctx.budget(12, 40)]:
            i, j = r["i1"][kk], r["i2"][kk]
            case = dict(t1=r["tp1"][i].tolist(), t2=r["tp2"][j].tolist(), e1=r["pot1"][i].tolist(),
                        e2=r["pot2"][j].tolist(), E1=float(s1["E"]), E2=float(s2["E"]), X1=None, X2=None, label=label)
            corr_pair(ctx, cmp, case, "B")
    cmp.run()
    if old_make_halfplanes() is None:
        ctx.notes.append("pre-repair make_halfplanes not available from git history: makeHalfplanes_asIs_before_fix "
                         "is not compared in this run")


def regression_halfplanes(ctx):
    """witnesses of the repaired finding F-C15-halfplane-buffer (8 and 7 concurrent boundary lines, the empty list)
    and further lists with many concurrent lines: the public hydroelastic_contact.intersect_halfplanes must return
    normally (proved for the model: halfplane_buffer_never_overflows) with at most one point per pair"""
    hc, _, _, _ = impl()
    cases = [("concurrent-8", concurrent_halfplanes(8), 28), ("concurrent-7", concurrent_halfplanes(7), 21),
             ("empty", [], 0), ("concurrent-16", concurrent_halfplanes(16), 120), ("single", concurrent_halfplanes(1), 0)]
    for k in range(ctx.budget(120, 1500)):
        hps, label = gen_halfplanes(ctx.rng, "L" if k % 3 else "M")
        cases.append((label, hps, None))
    for label, hps, want in cases:
        H = c_arr(hps).reshape(-1, 4)
        n = len(H)
        ctx.count("search:halfplanes", key=("reg-hp", label, tuple(flat(H))), nontrivial=n >= 2)
        args = {"kind": "halfplanes", "halfplanes": H.tolist(), "label": label}
        try:
            pts = hc.intersect_halfplanes(H)
        except Exception as e:  # noqa
            ctx.fail("intersect_halfplanes:raised", args, {"err": err_name(e), "msg": str(e)[:200]},
                     "returns normally (buffer of n(n-1)/2+1 rows)", "halfplane_buffer_never_overflows", finding=None)
            ctx.branch("regression-halfplanes", "raised:" + err_name(e))
            continue
        ctx.branch("regression-halfplanes", "ok")
        if len(pts) > n * (n - 1) // 2 or (want is not None and len(pts) != want):
            ctx.fail("intersect_halfplanes:count", args, {"n_points": len(pts)},
                     "%s points" % (want if want is not None else "<= n(n-1)/2"), "one point per pair at most")


def search(ctx):
    import warnings
    with warnings.catch_warnings(), np.errstate(all="ignore"):
        warnings.simplefilter("ignore")
        _search(ctx)


def _search(ctx):
    boost = 3 if ctx.extra.get("search_boost") else 1
    # regression inputs of repaired findings and corpus first
    regression_halfplanes(ctx)
    for case in corpus_pairs():
        check_pair(ctx, case, "corpus")
    for s1, s2, sep, label in corpus_bodies():
        check_bodies(ctx, s1, s2, sep, "corpus")
    n = ctx.budget(1500, 15000) * boost
    for k in range(n):
        u = k % 20
        stream = "L" if u < 6 else ("G" if u < 12 else ("S" if u < 17 else "N"))
        check_pair(ctx, gen_pair(ctx.rng, stream), stream)
    nb = ctx.budget(45, 400) * boost
    for k in range(nb):
        stream = "BL" if k % 2 == 0 else "BG"
        s1, s2, sep, label = gen_bodies(ctx.rng, stream)
        check_bodies(ctx, s1, s2, sep, stream)
        if k % 3 == 0:
            # the same pair at the end of a three-body history (caches of body 2 must follow its re-expression)
            t1, t3, _, _ = gen_bodies(ctx.rng, stream)
            check_bodies(ctx, s1, s2, sep, stream + "-history", s3=t3)
        if k % 3 == 1:
            check_bodies(ctx, s1, s2, sep, stream + "-inplace", s3="inplace")


def replay(ctx, payload):
    args = payload.get("args")
    if args is None:
        for b in payload.get("broken", []):
            si = b.get("seed_input")
            if si and "case" in si:
                args = {"kind": "pair", "case": si["case"]}
                break
            if si and "halfplanes" in si:
                args = {"kind": "halfplanes", "halfplanes": si["halfplanes"]}
                break
    if args is None:
        print("replay file names no input:", str(payload.get("broken"))[:500])
        return False

    class _C:
        def __init__(self):
            self.failing = []

        def count(self, *a, **k):
            pass

        def branch(self, *a, **k):
            pass

        def fail(self, function, a, observed, expected, oracle, finding=None, engine="interp"):
            self.failing.append((function, observed, finding))
    c = _C()
    if args.get("kind") == "bodies":
        check_bodies(c, args["s1"], args["s2"], args.get("separated", False), "replay", s3=args.get("s3"))
        if "case" in args:
            check_pair(c, args["case"], "replay")
    elif args.get("kind") == "halfplanes":
        hc, _, _, _ = impl()
        try:
            pts = hc.intersect_halfplanes(c_arr(args["halfplanes"]).reshape(-1, 4))
            print("intersect_halfplanes returned %d points" % len(pts))
        except Exception as e:  # noqa
            c.failing.append(("intersect_halfplanes:raised", {"err": err_name(e), "msg": str(e)[:200]}, None))
    else:
        check_pair(c, args["case"], "replay")
    for fn, obs, fid in c.failing:
        print("FAIL", fn, str(obs)[:500], "" if fid is None else "[%s]" % fid)
    return not c.failing


PARTIAL = {
    "polygon_convex_ccw": "convexity / counter-clockwise order of the returned vertex list: needs monotonicity of atan2 around "
                          "an interior point and that all kept points are boundary points of the intersection; not proved "
                          "(the theorems hold for an arbitrary atan2 and only use that order_points permutes and "
                          "filter_unique_points drops points); checked by the oracle on the real code",
    "tetrahedron_order_independence": "only swap_contact_plane-level facts are used: vertex_inside_both_tetrahedra / "
                                      "vertex_on_plane are symmetric in the two tetrahedra (soundness of every reported vertex in "
                                      "either order); that both orders report the same vertex *set* (completeness, basis "
                                      "independence of the skip/parallel tests) is not proved; checked by the oracle (argument swap), "
                                      "which found F-C15-vertex-drop and F-C15-same-branch",
    "pressure_nonneg": "pressure_lower_bound gives total_force >= lo*(sum e_k E)*area from a lower bound lo on the barycentric "
                       "coordinates of the polygon vertices (pinv and solve contracts); with lo = -EPSILON from "
                       "vertex_inside_both_tetrahedra this is 'non-negative up to EPSILON', for kept rows only; exact "
                       "non-negativity (lo = 0) needs vertices exactly inside, which the EPSILON slack of the code does not give",
    "skipped_rows": "for a skipped row vertex_inside_both_tetrahedra bounds the coordinate by its value at plane_point "
                    "+- EPSILON*(|q0|+|q1|). Proved now (skipped_row_coordinate_pos, pair_parallel_face_coordinate_pos): if the "
                    "face is exactly parallel to the contact plane (row gradient a multiple of the unit normal), the pinv "
                    "contract holds and check_tetrahedra_intersect_contact_plane accepts (tolerance >= 0), then the row is "
                    "skipped, is constant on the plane and its value there (at plane_point and at every polygon vertex) is "
                    "strictly in (0, 1). Remaining: rows skipped with a 2-D normal of norm in (0, EPSILON] (not exactly "
                    "parallel); for these positivity at plane_point is false in general "
                    "(skipped_row_value_at_plane_point_counterexample: tilt 1e-16, tetrahedron at x ~ 1e16, value -1/2) and "
                    "only the EPSILON*(|q0|+|q1|) bound of vertex_inside_both_tetrahedra is proved",
}
ASSUMPTIONS = [
    "np.linalg.pinv in barycentric_transforms returns X with X.[[v^T],[1 1 1 1]] = I (IsBaryTransform); the rows X1, X2 are "
    "inputs of the model",
    "np.linalg.solve(X, b) in compute_contact_force returns res with X.res = b; the harness hands the inverse matrix to the "
    "model's solver parameter",
    "np.argsort on <= 16 keys is a stable insertion sort (only the permutation property is used by the theorems)",
    "float rounding is not modelled (theorems at exact real arithmetic); F-C15-vertex-drop is a rounding defect and therefore "
    "has no counterexample theorem, only a replayable witness",
    "the swap comparison of the oracle identifies polygons whose area is <= 1e-9*scale^2 with the empty polygon",
]
TRUSTED = ["modelled: _halfplanes.py (all 4 functions), _tetrahedron_intersection.py (contact_plane, _handle_same_tetrahedron, "
           "check_tetrahedra_intersect_contact_plane, make_halfplanes, order_points, filter_unique_points, project_polygon_to_3d, "
           "compute_contact_polygon, intersect_tetrahedron_pair), compute_contact_force, utils.plane_basis_from_normal; "
           "intersect_tetrahedron_pairs / find_contact_surface / contact_surface_forces are loops over these and are only "
           "exercised by the oracle (bodies from the make_* factories)",
           "makeHalfplanes_asIs_before_fix is compared with the pre-repair source taken from the repository's git history",
           "intersectHalfplanes_asIs_before_fix is compared with the function under test with the pre-repair allocation "
           "line (3 * len(halfplanes) rows) put back"]

MANIFEST = dict(
    text=("Lean theorems on the executable model of the contact-polygon code at exact real arithmetic, for all inputs: "
          "vertex_in_all_halfplanes (every 2-D point returned by intersect_halfplanes satisfies all half-plane tests up to "
          "EPSILON and lies on two non-parallel boundary lines), halfplane_is_trace (the 2-D test value equals the "
          "barycentric coordinate of the lifted 3-D point, any cart2plane), vertex_on_plane, vertex_inside_both_tetrahedra, "
          "pair_polygon_spec (regular exit of intersect_tetrahedron_pair), barycentric_lower_bound (pinv contract), "
          "skipped_row_coordinate_pos / pair_parallel_face_coordinate_pos (rows of faces exactly parallel to the contact plane: "
          "skipped, value in (0,1) on the plane when the straddle check accepts), "
          "skipped_row_value_at_plane_point_counterexample (not so for rows skipped within EPSILON but not parallel), "
          "force_along_normal, pressure_lower_bound, area_nonneg, no_valid_point_no_polygon, reported_pairs_branches, "
          "swap_contact_plane, halfplane_buffer_never_overflows (unconditional: for every list of half-planes, any n "
          "incl. 0, intersect_halfplanes neither indexes its n(n-1)/2+1 row buffer out of range nor trips its assert), "
          "halfplane_points_general_position (<= 2n points); repaired defects as before_fix/fixed pairs: "
          "halfplane_buffer_overflow_before_fix/_fixed (8 concurrent lines: indexOOB with the 3n buffer, 28 points now), "
          "halfplane_buffer_assert_before_fix/_fixed (7 concurrent lines, empty list), makeHalfplanes_asIs_before_fix_gap; "
          "defect of the code as it is: same_branch_asIs_counterexample. The model is "
          "compared function by function with the implementation (lattice inputs exactly at Rat, random inputs at Float, "
          "body contacts) and an independent oracle (exact barycentric coordinates, plane residual, convexity, force, swap, "
          "separating axes) runs on tetrahedron pairs and factory bodies. " 
          "Link theorems (regenerated from today's source by py2lean on every run, D3/Gen/Link15.lean) tie _halfplanes.cross2d, intersect_two_halfplanes and point_outside_of_halfplane to the model for every input. "),
    note=("trusted: Lean kernel + Mathlib, axioms propext/Classical.choice/Quot.sound; exact-real semantics (rounding not "
          "modelled); pinv/solve/argsort as parameters with contracts; correspondence harness (sampling); partial: convexity "
          "of the angular order, order independence of the vertex set. Known findings: F-C15-same-branch, "
          "F-C15-vertex-drop, F-C15-coincident-lines, F-C15-coincident-fields (F-C15-halfplane-buffer and F-make-halfplanes are repaired; their "
          "witnesses run as regression inputs)."),
    technique="Lean 4 proof on hand-written model + correspondence (Rat-exact on lattice tetrahedra, Float on random ones) + py2lean-regenerated kernels linked to the model by theorem",
    design="§7 C15")
