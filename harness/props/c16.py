"""C16 — hydroelastic contact forces: action-reaction, swap, common rigid motion, repeated and
interleaved calls, tree vs brute-force broad phase.

Tie model <-> code: the Lean model of express_in / update_pose / cached properties /
find_contact_surface / accumulate_wrenches / _transform_wrenches (D3/Model/HydroForce.lean) is run
through the driver on stateful *histories* of real RigidBody objects, with the narrow phase (the
model's abstract parameter, property C15) supplied as the table recorded from the implementation;
the broad phases are compared exactly (pair lists) and the C05 well-formedness check + leaf check
(hypotheses of broad_phase_same_pairs) are executed in Lean on the implementation's dumped trees.
Oracle (search): metamorphic relations on the real code, independent of the model."""

import numpy as np

import core
from core import f2h, h2f, q2s

LEAN_TARGETS = []

RULE = ("pairs (plus a third body for interleaved calls and a common rigid motion g) of factory bodies "
        "(sphere/ellipsoid/cube/box/cylinder/capsule, coarse meshes) drawn from one PRNG; general stream: random "
        "quaternion rotations of BOTH bodies, offsets from deep contact to separated; lattice stream: cubes/boxes with "
        "dyadic sizes, signed-permutation rotations, dyadic translations incl. axis-aligned stacking; edge stream: "
        "separated bodies, identical poses, a body against itself-copy. A case is non-trivial if the bodies intersect; "
        "distinct = distinct (kinds, params, poses).")
EXPLANATION = ("Theorems hold for the Lean model with the narrow phase as an arbitrary function of the frame-2 "
               "coordinates. This run compares the model with the implementation on call histories (express_in vertices, "
               "cache flags, wrenches with the recorded narrow-phase table), compares both broad phases exactly, runs "
               "wfCheck/leavesMatch in Lean on the implementation's trees, and checks the property's metamorphic "
               "relations on the real code with the property's 5 % tolerance (exact for flags and pair sets).")
PARTIAL = {
    "swap_exact_of_contract": "swapping the bodies swaps the wrenches: proved (forces and intersection flag, exact) only "
                              "UNDER a contract on the narrow phase (PairContract: rigid-motion equivariance, antisymmetry "
                              "under exchanging the two tetrahedra, no contact for tetrahedra with disjoint AABBs). The "
                              "contract is a C15 statement and is not proved for the real narrow phase; the torque part "
                              "(needs rigid-motion equivariance of center_of_mass_tetrahedral_mesh) is not proved. The "
                              "unconditional swap clause is checked by the oracle on the real code only.",
    "five_percent": "the 'within 5 % of the force magnitude' clauses are not theorems: in exact arithmetic repeated "
                    "calls and common motions reproduce the result exactly (history_reproduces, repeat_reproduces, "
                    "common_motion_equivariant); the allowance is for floating-point decisions of the narrow phase and "
                    "is checked only by the search oracle.",
    "tree_refinement (closed)":
        "closed in D3.C16Link: RigidBody.aabb_tree (tetAabb_valid, buildTree_wf, treeOf_wf) passes wfCheck and "
        "leavesMatch by proof (through C05Insert.insertLeaf_refines); broad_phase_same_pairs_built / "
        "contacts_tree_eq_brute: use_aabb_trees=True/False give permuted contact lists, equal intersection flags and "
        "equal wrenches. The run-time wfCheck on the dumped arrays stays as the tie to the code",
}
ASSUMPTIONS = [
    "narrow phase (intersect_tetrahedron_pair + compute_contact_force) is a function of the tetrahedra coordinates in "
    "the frame of body 2, their potentials and the Young's moduli (model parameter PairFn; property C15)",
    "poses are orthonormal (hypothesis of the express_in / common-motion theorems)",
    "np.argsort order among equal keys in the sorted tree build is unspecified: the tree is compared through "
    "wfCheck/leavesMatch and the pair list, not array by array",
]
TRUSTED = [
    "modelled: _interface.find_contact_surface/contact_forces, _forces.accumulate_wrenches/_transform_wrenches (now and "
    "before the repair), _rigid_body.express_in/update_pose/tetrahedra_points/tetrahedra_potentials/aabbs/aabb_tree/com "
    "with the four caches, _mesh_processing.tetrahedral_mesh_aabbs/volumes/center_of_mass, utils.invert_transform/"
    "transform_points/cross_product_matrix/adjoint_from_transform; aabb_tree via the C05 model",
    "not modelled here: barycentric_transforms, intersect_tetrahedron_pair, compute_contact_force (C15), mesh factories "
    "(C17), make_details, visualisation",
]

MANIFEST = dict(
    text=("Lean theorems on a faithful model of the hydroelastic force pipeline: action_reaction (f12 = -f21 for every "
          "contact list and pose, after the repair), wrench_asIs_before_fix_counterexample/_sum (transposed twist adjoint: "
          "f12+f21 = -R^T(p x (t12+t21))), world_force_is_rotated / world_torque_about_world_com, express_in_composes/"
          "roundtrip/world_invariant/resets_caches, contact_forces_caches_transparent (state threading = cache-free "
          "function), history_reproduces / repeat_reproduces (any re-expression history is invisible), "
          "common_motion_equivariant (exact), broad_phase_same_pairs (tree pair list is a permutation of the brute-force "
          "list, from C05.query_tree_exact) and broad_phase_same_wrenches, swap_exact_of_contract (forces and flag "
          "exactly swapped under an explicit contract on the narrow phase). The model is compared with the implementation "
          "on stateful call histories with the narrow phase recorded from the real run; metamorphic oracle with the "
          "property's 5 % tolerance on the real code."),
    note=("trusted: Lean kernel + Mathlib, axioms propext/Classical.choice/Quot.sound; exact-real semantics; the narrow "
          "phase is an abstract parameter (C15); the 5 % clauses and the swap relation are checked by the oracle only; "
          "tree well-formedness is checked at run time in Lean on the implementation's arrays."),
    technique="Lean 4 proof on hand-written model + correspondence on call histories + metamorphic oracle",
    design="§7 C16")

FINDING_POLY = "F-hydro-polygon-vertex-drop"
FINDING_PLANE = "F-hydro-coincident-pressure-plane"
FINDING_SAME = "F-hydro-same-branch-flag"
KINDS = ["sphere", "ellipsoid", "cube", "box", "cylinder", "capsule"]
REL_TOL = 0.05            # the property's tolerance
FAR_THIRD_BODY = 2600.0   # distance of the third body of relation after_far_third_body (no contact with it)
CORR_TOL = 1e-9           # model <-> implementation


# ------------------------------------------------------------------ poses
def _perm_rots():
    out = []
    import itertools
    for perm in itertools.permutations(range(3)):
        for signs in itertools.product((1.0, -1.0), repeat=3):
            M = np.zeros((3, 3))
            for r in range(3):
                M[r, perm[r]] = signs[r]
            if abs(np.linalg.det(M) - 1.0) < 1e-9:
                out.append(M)
    return out


PERM_ROTS = _perm_rots()


def quat_rot(rng):
    while True:
        q = np.array([rng.gauss(0, 1) for _ in range(4)])
        n = np.linalg.norm(q)
        if n > 1e-3:
            break
    w, x, y, z = q / n
    return np.array([[1 - 2 * (y * y + z * z), 2 * (x * y - z * w), 2 * (x * z + y * w)],
                     [2 * (x * y + z * w), 1 - 2 * (x * x + z * z), 2 * (y * z - x * w)],
                     [2 * (x * z - y * w), 2 * (y * z + x * w), 1 - 2 * (x * x + y * y)]])


def rot345(rng):
    c, s = rng.choice([(0.6, 0.8), (0.8, 0.6), (-0.6, 0.8), (0.28, 0.96)])
    k = rng.randrange(3)
    M = np.eye(3)
    a, b = [(1, 2), (0, 2), (0, 1)][k]
    M[a, a], M[a, b], M[b, a], M[b, b] = c, -s, s, c
    return M


def pose4(R, t):
    T = np.eye(4)
    T[:3, :3] = R
    T[:3, 3] = t
    return T


def gen_rot(rng, stream):
    if stream == "L":
        return rng.choice(PERM_ROTS).copy()
    r = rng.random()
    if r < 0.15:
        return rot345(rng) @ rng.choice(PERM_ROTS)
    return quat_rot(rng)


def dyadic(rng, lo, hi, step):
    n = int(round((hi - lo) / step))
    return lo + step * rng.randrange(n + 1)


# ------------------------------------------------------------------ bodies
def gen_params(rng, kind, stream):
    if kind == "sphere":
        return {"radius": rng.choice([0.125, 0.15, 0.2]), "order": 1}
    if kind == "ellipsoid":
        return {"radii": [rng.choice([0.1, 0.15, 0.2]), rng.choice([0.1, 0.15, 0.25]), rng.choice([0.125, 0.2])],
                "order": 1}
    if kind == "cube":
        return {"size": rng.choice([0.25, 0.5, 0.375]) if stream == "L" else rng.uniform(0.2, 0.4)}
    if kind == "box":
        if stream == "L":
            return {"size": [rng.choice([0.25, 0.5]), rng.choice([0.25, 0.375]), rng.choice([0.25, 0.5, 1.0])]}
        return {"size": [rng.uniform(0.15, 0.4) for _ in range(3)]}
    if kind == "cylinder":
        return {"radius": rng.choice([0.1, 0.125]), "length": rng.choice([0.25, 0.3, 0.4]),
                "resolution_hint": rng.choice([0.1, 0.15, 0.2])}
    if kind == "capsule":
        return {"radius": rng.choice([0.1, 0.125]), "height": rng.choice([0.2, 0.3]),
                "resolution_hint": rng.choice([0.1, 0.15])}
    raise ValueError(kind)


def char_size(kind, p):
    if kind == "sphere":
        return p["radius"]
    if kind == "ellipsoid":
        return sum(p["radii"]) / 3.0
    if kind == "cube":
        return p["size"] / 2.0
    if kind == "box":
        return sum(p["size"]) / 6.0
    if kind == "cylinder":
        return (p["radius"] + p["length"] / 2.0) / 2.0
    return (p["radius"] * 2 + p["height"] / 2.0) / 2.0


def make_body(spec):
    """fresh RigidBody from a JSON-able spec"""
    from distance3d.hydroelastic_contact import RigidBody
    T = np.array(spec["pose"], dtype=float)
    k, p = spec["kind"], spec["params"]
    if k == "sphere":
        b = RigidBody.make_sphere(T[:3, 3].copy(), p["radius"], p["order"])
        if spec.get("via_update_pose"):
            b.update_pose(T.copy())
        else:
            b.body2origin_ = T.copy()
    elif k == "ellipsoid":
        b = RigidBody.make_ellipsoid(T.copy(), np.array(p["radii"], dtype=float), p["order"])
    elif k == "cube":
        b = RigidBody.make_cube(T.copy(), p["size"])
    elif k == "box":
        b = RigidBody.make_box(T.copy(), np.array(p["size"], dtype=float))
    elif k == "cylinder":
        b = RigidBody.make_cylinder(T.copy(), p["radius"], p["length"], p["resolution_hint"])
    elif k == "capsule":
        b = RigidBody.make_capsule(T.copy(), p["radius"], p["height"], p["resolution_hint"])
    else:
        raise ValueError(k)
    if spec.get("youngs") is not None:
        b.youngs_modulus = spec["youngs"]
    return b


def moved(spec, G):
    s = dict(spec)
    s["pose"] = (np.array(G) @ np.array(spec["pose"])).tolist()
    return s


def gen_case(rng, stream):
    kinds = ["cube", "box"] if stream == "L" else KINDS
    k1, k2, k3 = rng.choice(kinds), rng.choice(kinds), rng.choice(kinds)
    p1, p2, p3 = gen_params(rng, k1, stream), gen_params(rng, k2, stream), gen_params(rng, k3, stream)
    s1, s2, s3 = char_size(k1, p1), char_size(k2, p2), char_size(k3, p3)
    if stream == "L":
        t1 = np.array([dyadic(rng, -1, 1, 0.25) for _ in range(3)])
        mode = rng.choice(["stack", "stack", "offset", "same", "far"])
        if mode == "stack":      # axis-aligned stacking: faces parallel to the contact plane
            ax = rng.randrange(3)
            d = np.zeros(3)
            d[ax] = rng.choice([0.125, 0.25, 0.375]) * rng.choice([1, -1])
        elif mode == "offset":
            d = np.array([dyadic(rng, -0.25, 0.25, 0.0625) for _ in range(3)])
        elif mode == "same":
            d = np.zeros(3)
        else:
            d = np.array([2.0, 0.0, 0.0])
        t2 = t1 + d
        t3 = t1 + np.array([dyadic(rng, -0.25, 0.25, 0.125) for _ in range(3)])
        g = pose4(rng.choice(PERM_ROTS), [dyadic(rng, -2, 2, 0.5) for _ in range(3)])
    else:
        t1 = np.array([rng.uniform(-1, 1) for _ in range(3)])
        u = np.array([rng.gauss(0, 1) for _ in range(3)])
        u /= np.linalg.norm(u)
        r = rng.random()
        if stream == "M" or r < 0.12:
            dist = (s1 + s2) * rng.uniform(3.0, 6.0)            # separated
        elif r < 0.2:
            dist = (s1 + s2) * rng.uniform(1.3, 2.2)            # grazing / near miss
        else:
            dist = (s1 + s2) * rng.uniform(0.25, 1.1)           # contact
        t2 = t1 + u * dist
        v = np.array([rng.gauss(0, 1) for _ in range(3)])
        v /= np.linalg.norm(v)
        t3 = t1 + v * (s1 + s3) * rng.uniform(0.3, 1.5)
        g = pose4(gen_rot(rng, "G"), [rng.uniform(-2, 2) for _ in range(3)])
    b1 = {"kind": k1, "params": p1, "pose": pose4(gen_rot(rng, stream), t1).tolist()}
    b2 = {"kind": k2, "params": p2, "pose": pose4(gen_rot(rng, stream), t2).tolist()}
    b3 = {"kind": k3, "params": p3, "pose": pose4(gen_rot(rng, stream), t3).tolist()}
    if k1 == "sphere" and rng.random() < 0.5:
        b1["via_update_pose"] = True
    if rng.random() < 0.3:
        b1["youngs"] = rng.choice([0.5, 2.0])
    if rng.random() < 0.2:
        b2["youngs"] = rng.choice([0.25, 4.0])
    return {"stream": stream, "b1": b1, "b2": b2, "b3": b3, "g": g.tolist()}


def witness_polygon_case():
    """recorded witness of the known finding (cylinder against box, repeated call differs by 13.7 %)"""
    T1 = [[-0.6331335889397447, -0.4732890592851047, -0.6124861834501245, 0.5741938831096021],
          [-0.3829579723533997, -0.49611921421390504, 0.7792361110079221, -0.6167674819597295],
          [-0.6726700899900722, 0.7279170225024268, 0.13285992015634362, 0.60472832226906],
          [0.0, 0.0, 0.0, 1.0]]
    T2 = [[-0.3292179918884963, 0.25022854071457323, -0.9104950253728796, 0.5667152833011002],
          [-0.210054366614302, 0.920679044450424, 0.32897911814599784, -0.6036554641920394],
          [0.9205936545964077, 0.29955930050944696, -0.2505425085591675, 0.588743421033777],
          [0.0, 0.0, 0.0, 1.0]]
    b1 = {"kind": "cylinder", "params": {"radius": 0.1, "length": 0.3, "resolution_hint": 0.1}, "pose": T1}
    b2 = {"kind": "box", "params": {"size": [0.2, 0.25, 0.3]}, "pose": T2}
    b3 = {"kind": "cube", "params": {"size": 0.25}, "pose": np.eye(4).tolist()}
    return {"stream": "W", "b1": b1, "b2": b2, "b3": b3, "g": np.eye(4).tolist()}


# ------------------------------------------------------------------ running the real code
def err_name(e):
    if isinstance(e, IndexError):
        return "indexOOB"
    if isinstance(e, AssertionError):
        return "assertFail"
    if isinstance(e, KeyError):
        return "keyError"
    if isinstance(e, AttributeError):
        return "attrErr"
    if isinstance(e, ZeroDivisionError):
        return "divZero"
    if isinstance(e, TypeError):
        return "typeErr"
    return "exc:" + type(e).__name__


def run_cf(b1, b2, trees=False):
    """what contact_forces does (find_contact_surface + accumulate_wrenches), keeping the per-pair data"""
    from distance3d.hydroelastic_contact._interface import find_contact_surface
    from distance3d.hydroelastic_contact._forces import accumulate_wrenches
    if trees:
        cs = find_contact_surface(b1, b2, use_aabb_trees=True)
    else:
        cs = find_contact_surface(b1, b2)
    w12, w21 = accumulate_wrenches(cs, b1, b2)
    n = len(cs.intersecting_tetrahedra1)
    coms = np.asarray(cs.contact_coms, dtype=float).reshape(n, 3)
    forces = np.asarray(cs.contact_forces, dtype=float).reshape(n, 3)
    return {"flag": bool(cs.intersection), "w12": np.array(w12, dtype=float), "w21": np.array(w21, dtype=float),
            "frame": np.array(cs.frame2world, dtype=float),
            "pairs": [(int(i), int(j)) for i, j in zip(cs.intersecting_tetrahedra1, cs.intersecting_tetrahedra2)],
            "coms": coms, "forces": forces,
            "areas": np.asarray(cs.contact_areas, dtype=float).reshape(n),
            "nverts": [len(p) for p in cs.contact_polygons],
            "com1": np.array(b1.com, dtype=float), "com2": np.array(b2.com, dtype=float)}


def bound_radius(b):
    v = np.asarray(b.vertices_, dtype=float)
    return float(np.max(np.linalg.norm(v - np.asarray(b.com), axis=1)))


def cache_flags(b):
    return "".join("1" if x is not None else "0" for x in (b._tetrahedra_points, b._com, b._aabbs, b._aabb_tree))


# ------------------------------------------------------------------ oracle (independent of the model)
def per_pair_world(rec, sign=1.0, back=None, swap=False):
    """world-frame force on body 1 (of the reference run) contributed by every tetrahedron pair"""
    R = rec["frame"][:3, :3]
    out = {}
    for k, (i, j) in enumerate(rec["pairs"]):
        W = sign * (R @ rec["forces"][k])
        if back is not None:
            W = back @ W
        out[(j, i) if swap else (i, j)] = (W, rec["nverts"][k], float(rec["areas"][k]))
    return out


def narrow_accepts(b1, b2, i, j):
    """does the narrow phase accept pair (i, j) on the current coordinates? (used only to classify a
    missing pair: rejected by the narrow phase = polygon routine, not proposed = broad phase/bookkeeping)"""
    from distance3d.hydroelastic_contact._tetrahedron_intersection import intersect_tetrahedron_pair
    from distance3d.hydroelastic_contact._barycentric_transform import barycentric_transforms
    t1 = np.ascontiguousarray(b1.tetrahedra_points[i])
    t2 = np.ascontiguousarray(b2.tetrahedra_points[j])
    X1 = barycentric_transforms(t1[np.newaxis])[0]
    X2 = barycentric_transforms(t2[np.newaxis])[0]
    ok, _ = intersect_tetrahedron_pair(t1, np.ascontiguousarray(b1.tetrahedra_potentials[i]), X1,
                                       t2, np.ascontiguousarray(b2.tetrahedra_potentials[j]), X2,
                                       b1.youngs_modulus, b2.youngs_modulus)
    return bool(ok)


def true_polygon_area(t1, e1, E1, t2, e2, E2):
    """Independent recomputation of the contact polygon of one tetrahedron pair: the equal-pressure plane
    E1 p1(x) = E2 p2(x) clipped by the 8 face half-spaces (Sutherland-Hodgman in the plane, tolerance-free
    up to rounding). Returns its area (0.0 if empty / degenerate plane)."""
    X1 = np.linalg.inv(np.vstack((np.asarray(t1, dtype=float).T, np.ones((1, 4)))))
    X2 = np.linalg.inv(np.vstack((np.asarray(t2, dtype=float).T, np.ones((1, 4)))))
    hnf = (np.asarray(e1) * E1) @ X1 - (np.asarray(e2) * E2) @ X2       # n.x + c = 0
    nn = np.linalg.norm(hnf[:3])
    if nn == 0.0:
        return 0.0
    n, c = hnf[:3] / nn, hnf[3] / nn
    p0 = -c * n
    u = np.cross(n, [1.0, 0.0, 0.0] if abs(n[0]) < 0.9 else [0.0, 1.0, 0.0])
    u /= np.linalg.norm(u)
    v = np.cross(n, u)
    size = 10.0 * (np.max(np.abs(t1)) + np.max(np.abs(t2)) + 1.0)
    poly = [np.array([-size, -size]), np.array([size, -size]), np.array([size, size]), np.array([-size, size])]
    for X in (X1, X2):
        for r in range(4):
            a = np.array([X[r, :3] @ u, X[r, :3] @ v])
            b0 = X[r, :3] @ p0 + X[r, 3]
            val = lambda q: a @ q + b0  # noqa
            out = []
            for k in range(len(poly)):
                P, Q = poly[k], poly[(k + 1) % len(poly)]
                vp, vq = val(P), val(Q)
                if vp >= 0:
                    out.append(P)
                if (vp >= 0) != (vq >= 0):
                    out.append(P + (Q - P) * (vp / (vp - vq)))
            poly = out
            if len(poly) < 3:
                return 0.0
    x = np.array([q[0] for q in poly])
    y = np.array([q[1] for q in poly])
    return 0.5 * abs(float(np.sum(x * np.roll(y, -1) - np.roll(x, -1) * y)))


def coincident_fields(bodies, i, j):
    """signature of the second known finding for one tetrahedron pair: the two linear pressure fields
    E1 p1 and E2 p2 coincide on all of space (up to rounding), so the equal-pressure plane is undefined;
    contact_plane tests `norm == 0.0` exactly and otherwise normalises the rounding noise"""
    b1, b2 = bodies
    X1 = np.linalg.inv(np.vstack((np.asarray(b1.tetrahedra_points[i], dtype=float).T, np.ones((1, 4)))))
    X2 = np.linalg.inv(np.vstack((np.asarray(b2.tetrahedra_points[j], dtype=float).T, np.ones((1, 4)))))
    g1 = (np.asarray(b1.tetrahedra_potentials[i]) * b1.youngs_modulus) @ X1
    g2 = (np.asarray(b2.tetrahedra_potentials[j]) * b2.youngs_modulus) @ X2
    return bool(np.linalg.norm(g1[:3] - g2[:3]) <= 1e-9 * (np.linalg.norm(g1[:3]) + np.linalg.norm(g2[:3])))


def same_branch_pair(bodies, i, j):
    """signature of the third known finding for one tetrahedron pair: the equal-pressure plane passes through
    the ORIGIN of the current frame (|d| ~ 0) or is undefined; contact_plane then reports `same tetrahedron`
    and intersect_tetrahedron_pair returns intersecting=True with a zero-area polygon, whatever the tetrahedra"""
    b1, b2 = bodies
    X1 = np.linalg.inv(np.vstack((np.asarray(b1.tetrahedra_points[i], dtype=float).T, np.ones((1, 4)))))
    X2 = np.linalg.inv(np.vstack((np.asarray(b2.tetrahedra_points[j], dtype=float).T, np.ones((1, 4)))))
    g1 = (np.asarray(b1.tetrahedra_potentials[i]) * b1.youngs_modulus) @ X1
    g2 = (np.asarray(b2.tetrahedra_potentials[j]) * b2.youngs_modulus) @ X2
    h = g1 - g2
    nn = np.linalg.norm(h[:3])
    if nn <= 1e-9 * (np.linalg.norm(g1[:3]) + np.linalg.norm(g2[:3])):
        return True
    size = 1.0 + float(np.max(np.abs(b1.tetrahedra_points[i]))) + float(np.max(np.abs(b2.tetrahedra_points[j])))
    return bool(abs(h[3] / nn) <= 1e-9 * size)


def classify_flag(recTrue, bodiesTrue):
    """a run reports intersection=True although the other run of the same geometry reports False: the known
    `same`-branch defect iff every contact of the True run is a zero-area, zero-force degenerate polygon of a
    tetrahedron pair whose equal-pressure plane passes through the frame origin (independent recomputation)"""
    if not recTrue["pairs"]:
        return None, {"no_contacts": True}
    for k, (i, j) in enumerate(recTrue["pairs"]):
        if recTrue["areas"][k] != 0.0 or np.any(recTrue["forces"][k] != 0.0):
            return None, {"non_degenerate_contact": [i, j]}
        if not same_branch_pair(bodiesTrue, i, j):
            return None, {"not_through_origin": [i, j]}
    return FINDING_SAME, {"degenerate_pairs": [list(p) for p in recTrue["pairs"][:6]]}


def dropped_vertex(bodies, i, j, area_a, area_b):
    """signature of the known finding for one tetrahedron pair: the polygon the implementation used in
    at least one of the two runs (None = pair rejected) is smaller than the independently recomputed
    polygon, i.e. a true vertex was dropped"""
    b1, b2 = bodies
    star = true_polygon_area(b1.tetrahedra_points[i], b1.tetrahedra_potentials[i], b1.youngs_modulus,
                             b2.tetrahedra_points[j], b2.tetrahedra_potentials[j], b2.youngs_modulus)
    if star <= 1e-14:
        return False, star
    small = [a is None or a < star * (1.0 - 1e-6) for a in (area_a, area_b)]
    big = [a is not None and a > star * (1.0 + 1e-6) for a in (area_a, area_b)]
    return (any(small) and not any(big)), star


def classify(ppA, ppB, nf, bodiesB, swapB=False, fsum=0.0):
    """Is a > 5 % deviation between two runs the known polygon defect?  Yes only if (i) all tetrahedron pairs
    whose polygons agree (same vertex count, same area) contribute identical forces in both runs (the
    accumulation / frame change is fine), (ii) every other pair shows the dropped-vertex signature against
    an independent recomputation of its polygon, and (iii) no pair accepted by the narrow phase was lost
    by the broad phase.  Returns (finding-or-None, detail)."""
    keys = set(ppA) | set(ppB)
    unstable, stable_res = [], np.zeros(3)
    zero = (np.zeros(3), None, None)
    for key in sorted(keys):
        a, b = ppA.get(key), ppB.get(key)
        i, j = (key[1], key[0]) if swapB else key
        wa, wb = (a or zero)[0], (b or zero)[0]
        if np.linalg.norm(wa - wb) <= 1e-7 * nf + 1e-10 * fsum:
            # same contribution in both runs (a pair that is absent in one run and contributes a zero
            # force in the other - the degenerate "same tetrahedron" branch - is of this kind)
            stable_res += wa - wb
            continue
        if b is None and narrow_accepts(bodiesB[0], bodiesB[1], i, j):
            return None, {"lost_pair": list(key)}
        sig, star = dropped_vertex(bodiesB, i, j, None if a is None else a[2], None if b is None else b[2])
        if not sig and coincident_fields(bodiesB, i, j):
            sig = "plane"
        unstable.append((key, None if a is None else a[1], None if b is None else b[1], star, sig))
    detail = {"unstable_pairs": [[list(k), na, nb, st, sg] for k, na, nb, st, sg in unstable[:6]],
              "n_unstable": len(unstable), "stable_residual": float(np.linalg.norm(stable_res))}
    if unstable and all(u[4] for u in unstable) and np.linalg.norm(stable_res) <= 1e-5 * nf + 1e-9 * fsum:
        return (FINDING_PLANE if any(u[4] == "plane" for u in unstable) else FINDING_POLY), detail
    return None, detail


def fsum_of(rec):
    return float(np.sum(np.linalg.norm(rec["forces"], axis=1))) if len(rec["forces"]) else 0.0


def bodies_of_run_A(case):
    """fresh bodies with exactly the coordinates the reference run A saw"""
    f1, f2 = make_body(case["b1"]), make_body(case["b2"])
    f1.express_in(f2.body2origin_)
    return f1, f2


def relation(ctx, name, case, A, B, expB12, expB21, ppA, ppB, lever, bodiesB, swapB=False):
    """check one metamorphic relation: run B must give (expB12, expB21) derived from run A"""
    nf = max(np.linalg.norm(A["w12"][:3]), np.linalg.norm(B["w12"][:3]),
             np.linalg.norm(A["w21"][:3]), np.linalg.norm(B["w21"][:3]))
    problems = []
    if A["flag"] != B["flag"]:
        problems.append(("flag", A["flag"], B["flag"]))
    df = max(np.linalg.norm(B["w12"][:3] - expB12[:3]), np.linalg.norm(B["w21"][:3] - expB21[:3]))
    dt = max(np.linalg.norm(B["w12"][3:] - expB12[3:]), np.linalg.norm(B["w21"][3:] - expB21[3:]))
    if nf > 0:
        ctx.extra.setdefault("max_rel_dev", {})
        ctx.extra["max_rel_dev"][name] = max(ctx.extra["max_rel_dev"].get(name, 0.0), float(df / nf))
    # 5 % of the force magnitude (the property) + the rounding envelope of summing the per-pair forces
    # (1e-9 of the sum of their magnitudes: matters only where the net force cancels to ~0)
    tol = REL_TOL * nf + 1e-9 * max(fsum_of(A), fsum_of(B))
    if df > tol:
        problems.append(("force", float(df), float(nf)))
    if dt > tol * lever:
        problems.append(("torque", float(dt), float(nf * lever)))
    if not problems:
        return True
    finding, detail = (None, {})
    if all(p[0] != "flag" for p in problems):
        finding, detail = classify(ppA, ppB, nf, bodiesB, swapB, max(fsum_of(A), fsum_of(B)))
    elif len(problems) == 1:
        # only the flag differs (forces agree): the degenerate `same` branch?
        if B["flag"]:
            finding, detail = classify_flag(B, bodiesB)
        else:
            finding, detail = classify_flag(A, bodies_of_run_A(case))
    else:
        # the flag differs and with it the forces: the known coincident-pressure-field defect only if EVERY contact
        # of the run that reports an intersection is a tetrahedron pair whose two pressure fields coincide (its
        # contact plane is normalised rounding noise, so the pair comes and goes with the frame). A rejected pair
        # with a well-defined plane is never excused here.
        recT, bodT = (B, bodiesB) if B["flag"] else (A, bodies_of_run_A(case))
        prs = recT["pairs"]
        if prs and all(coincident_fields(bodT, i, j) for (i, j) in prs):   # pair indices are in recT's own order
            finding, detail = FINDING_PLANE, {"coincident_pairs": [list(p) for p in prs[:6]], "n": len(prs)}
        else:
            detail = {"flag_and_forces_differ": True, "n_pairs_true_run": len(prs)}
    ctx.fail("contact_forces:" + name, {"case": case, "relation": name},
             {"problems": problems, "got_w12": B["w12"].tolist(), "got_w21": B["w21"].tolist(), "classification": detail},
             {"w12": expB12.tolist(), "w21": expB21.tolist(), "tolerance": "5 %% of |f| (torques: times lever %.3g)" % lever},
             "metamorphic relation %s on the real code" % name, finding=finding)
    return False


def rot6(R, w):
    return np.hstack((R @ w[:3], R @ w[3:]))


def eval_case(ctx, case, want_dump=False, light=False):
    """run every relation of the property on one case; returns data for the correspondence"""
    from distance3d import hydroelastic_contact as hc
    dump = {}
    s1, s2, s3, G = case["b1"], case["b2"], case["b3"], np.array(case["g"], dtype=float)
    a1, a2 = make_body(s1), make_body(s2)
    A = run_cf(a1, a2)
    lever = bound_radius(a1) + bound_radius(a2) + float(np.linalg.norm(
        np.array(s1["pose"])[:3, 3] - np.array(s2["pose"])[:3, 3]))
    nfA = np.linalg.norm(A["w12"][:3])
    ctx.count("oracle:" + case["stream"], key=("case", str(case)), nontrivial=A["flag"],
              sample={"stream": case["stream"], "b1": s1["kind"], "b2": s2["kind"], "intersect": A["flag"],
                      "pairs": len(A["pairs"])})
    ctx.branch("kinds", s1["kind"] + "/" + s2["kind"])
    ctx.branch("intersection", A["flag"])
    # 0. the public entry point is exactly find_contact_surface + accumulate_wrenches
    f1, f2 = make_body(s1), make_body(s2)
    flag0, w12_0, w21_0 = hc.contact_forces(f1, f2)
    if bool(flag0) != A["flag"] or not np.array_equal(w12_0, A["w12"]) or not np.array_equal(w21_0, A["w21"]):
        ctx.fail("contact_forces", {"case": case, "relation": "api"},
                 {"flag": bool(flag0), "w12": np.asarray(w12_0).tolist(), "w21": np.asarray(w21_0).tolist()},
                 {"flag": A["flag"], "w12": A["w12"].tolist(), "w21": A["w21"].tolist()},
                 "contact_forces == find_contact_surface + accumulate_wrenches on fresh copies (bitwise)")
    # 0b. the same call with return_details=True: identical flag and wrenches (details are a by-product)
    d1, d2 = make_body(s1), make_body(s2)
    try:
        flagD, w12_D, w21_D, _det = hc.contact_forces(d1, d2, return_details=True)
        if bool(flagD) != A["flag"] or not np.allclose(w12_D, A["w12"], rtol=1e-12, atol=1e-300) \
                or not np.allclose(w21_D, A["w21"], rtol=1e-12, atol=1e-300):
            ctx.fail("contact_forces(return_details=True)", {"case": case, "relation": "details"},
                     {"flag": bool(flagD), "w12": np.asarray(w12_D).tolist(), "w21": np.asarray(w21_D).tolist()},
                     {"flag": A["flag"], "w12": A["w12"].tolist(), "w21": A["w21"].tolist()},
                     "the wrenches do not depend on whether details are requested")
    except Exception as e:  # noqa
        ctx.fail("contact_forces(return_details=True)", {"case": case, "relation": "details"},
                 "raised %s: %s" % (type(e).__name__, str(e)[:200]), "same result as without details",
                 "the wrenches do not depend on whether details are requested")
    # 1. action-reaction
    if np.linalg.norm(A["w12"][:3] + A["w21"][:3]) > REL_TOL * nfA + 1e-9 * fsum_of(A):
        ctx.fail("contact_forces:action_reaction", {"case": case, "relation": "action_reaction"},
                 {"f12": A["w12"][:3].tolist(), "f21": A["w21"][:3].tolist()}, "f12 = -f21 within 5 % of |f|",
                 "action-reaction on the real code")
    # 2. no intersection => zeros; separated bounding spheres => no intersection
    if not A["flag"] and (np.any(A["w12"] != 0) or np.any(A["w21"] != 0)):
        ctx.fail("contact_forces:zeros", {"case": case, "relation": "zeros"},
                 {"w12": A["w12"].tolist(), "w21": A["w21"].tolist()}, "zero wrenches", "intersection=False => zeros")
    c2w = np.array(s2["pose"]) @ np.hstack((a2.com, 1.0))
    c1w = A["frame"] @ np.hstack((a1.com, 1.0))
    if A["flag"] and np.linalg.norm(c1w[:3] - c2w[:3]) > (bound_radius(a1) + bound_radius(a2)) * (1 + 1e-9) + 1e-12:
        ctx.fail("contact_forces:flag", {"case": case, "relation": "separated"}, True, False,
                 "bounding spheres of the two meshes are disjoint => intersection must be False")
    ppA = per_pair_world(A)
    if want_dump:
        dump["A"] = A
        dump["bodies"] = (a1, a2)
    # 3. repeat on the same (re-expressed) objects
    B = run_cf(a1, a2)
    relation(ctx, "repeat", case, A, B, A["w12"], A["w21"], ppA, per_pair_world(B), lever, (a1, a2))
    if not light:
        # 4. histories: body 1 first used (and its caches filled) in the frame of a third body, then against
        #    body 2; then body 2 itself re-expressed in the frame of the third body, and the call repeated
        h1, h2, h3 = make_body(s1), make_body(s2), make_body(s3)
        run_cf(h1, h3)
        C = run_cf(h1, h2)
        relation(ctx, "after_other_frame", case, A, C, A["w12"], A["w21"], ppA, per_pair_world(C), lever, (h1, h2))
        run_cf(h1, h3)
        C2 = run_cf(h1, h2)
        relation(ctx, "interleaved", case, A, C2, A["w12"], A["w21"], ppA, per_pair_world(C2), lever, (h1, h2))
        run_cf(h2, h3)
        D = run_cf(h1, h2)
        relation(ctx, "interleaved2", case, A, D, A["w12"], A["w21"], ppA, per_pair_world(D), lever, (h1, h2))
    if not light and case["stream"] != "L":
        # 4d. body 2 was body 1 of an earlier query against a FAR third body (no contact there), so it is stored in a
        #     frame whose origin is thousands of units from the contact; the query (1, 2) then runs entirely in that
        #     frame (plane offsets ~|far|). Nothing moved in the world: must reproduce the query on fresh bodies. A
        #     tolerance made relative to the plane offset or to the coordinates' magnitude shows here on shallow contacts.
        #     Not on the lattice stream: its exactly touching faces / coincident fields sit ON the decision boundaries of
        #     the narrow phase, and coordinates of magnitude 2600 carry 5e-13 of rounding, so there the flag of a
        #     zero-area, zero-force touching contact is a tie, not a statement of the property (seen: seed 2).
        fdir = np.array([0.64, -0.48, 0.6])
        Tf = np.eye(4)
        Tf[:3, 3] = fdir * FAR_THIRD_BODY
        k1, k2, k3 = make_body(s1), make_body(s2), make_body(moved(s3, Tf))
        run_cf(k2, k3)
        K = run_cf(k1, k2)
        # forces below 1e-7 come from sliver patches (depth ~1e-6) whose size is decided by the 5e-13 rounding of
        # far-frame coordinates: ill-conditioned, not a statement of the property (thorough run, stream S: |f| = 2.5e-9)
        if max(np.linalg.norm(A["w12"][:3]), np.linalg.norm(K["w12"][:3])) >= 1e-7 or A["flag"] != K["flag"]:
            relation(ctx, "after_far_third_body", case, A, K, A["w12"], A["w21"], ppA, per_pair_world(K), lever, (k1, k2))
    if not light:
        # 4b. bodies used at another configuration, then moved IN PLACE (`body.body2origin_[:3, 3] += v * dt`, the way
        #     the library's own examples move bodies) to the configuration of the case and queried again on the same
        #     objects: must reproduce the query on fresh bodies
        d1 = np.array([0.37, -0.21, 0.13]) * (1.0 + lever)
        d2 = np.array([-0.11, 0.29, 0.41]) * (1.0 + lever)
        T1, T2 = np.eye(4), np.eye(4)
        T1[:3, 3], T2[:3, 3] = -d1, -d2
        m1, m2 = make_body(moved(s1, T1)), make_body(moved(s2, T2))
        run_cf(m1, m2)
        m1.body2origin_[:3, 3] += d1
        m2.body2origin_[:3, 3] += d2
        E = run_cf(m1, m2)
        relation(ctx, "moved_in_place", case, A, E, A["w12"], A["w21"], ppA, per_pair_world(E), lever, (m1, m2))
    if not light:
        # 4c. the same far away from the origin with a SMALL in-place step of one body (a simulation step of a scene that
        #     is not centred at the origin): a test that decides "nothing moved" relative to the size of the coordinates
        #     confuses the two configurations
        O = np.eye(4)
        O[:3, 3] = [2500.0, -1800.0, 900.0]
        dl = np.array([0.6, -0.3, 0.2]) * 0.05 * max(bound_radius(a1), bound_radius(a2))
        Td = np.eye(4)
        Td[:3, 3] = -dl
        n1, n2 = make_body(moved(s1, O)), make_body(moved(moved(s2, O), Td))
        run_cf(n1, n2)
        n2.body2origin_[:3, 3] += dl
        F = run_cf(n1, n2)
        relation(ctx, "small_step_far_from_origin", case, A, F, A["w12"], A["w21"], ppA, per_pair_world(F), lever,
                 (n1, n2))
    # 5. swap
    b1, b2 = make_body(s1), make_body(s2)
    S = run_cf(b2, b1)
    relation(ctx, "swap", case, A, S, A["w21"], A["w12"], ppA, per_pair_world(S, sign=-1.0, swap=True), lever,
             (b2, b1), swapB=True)
    # 6. common rigid motion
    g1, g2 = make_body(moved(s1, G)), make_body(moved(s2, G))
    M = run_cf(g1, g2)
    Rg = G[:3, :3]
    relation(ctx, "common_motion", case, A, M, rot6(Rg, A["w12"]), rot6(Rg, A["w21"]), ppA,
             per_pair_world(M, back=Rg.T), lever, (g1, g2))
    # 7. tree broad phase vs brute force: same SET of intersecting pairs (exact), same forces
    t1, t2 = make_body(s1), make_body(s2)
    try:
        T = run_cf(t1, t2, trees=True)
    except Exception as e:  # noqa
        ctx.fail("find_contact_surface(use_aabb_trees=True)", {"case": case, "relation": "trees"},
                 "raised %s: %s" % (type(e).__name__, str(e)[:200]), "same pairs as brute force",
                 "tree broad phase must not raise")
        return dump
    if sorted(T["pairs"]) != sorted(A["pairs"]) or len(set(T["pairs"])) != len(T["pairs"]):
        ctx.fail("find_contact_surface(use_aabb_trees=True)", {"case": case, "relation": "trees"},
                 {"only_tree": sorted(set(T["pairs"]) - set(A["pairs"]))[:10],
                  "only_brute": sorted(set(A["pairs"]) - set(T["pairs"]))[:10], "n_tree": len(T["pairs"]),
                  "n_brute": len(A["pairs"])}, "identical sets of intersecting tetrahedron pairs",
                 "tree vs brute-force broad phase (exact set equality)")
    elif T["flag"] != A["flag"] or np.linalg.norm(T["w12"] - A["w12"]) > 1e-9 * max(fsum_of(A), 1e-300) * (1 + lever) \
            or np.linalg.norm(T["w21"] - A["w21"]) > 1e-9 * max(fsum_of(A), 1e-300) * (1 + lever):
        ctx.fail("find_contact_surface(use_aabb_trees=True)", {"case": case, "relation": "trees"},
                 {"w12": T["w12"].tolist(), "flag": T["flag"]}, {"w12": A["w12"].tolist(), "flag": A["flag"]},
                 "same pairs => same forces (1e-9)")
    if want_dump:
        dump["T"] = T
        dump["tree_bodies"] = (t1, t2)
    return dump


# ------------------------------------------------------------------ encoding for the driver
def tk(x, mode):
    if mode == "F":
        return f2h(x)
    from fractions import Fraction
    return q2s(Fraction(float(x)))


def enc_pose(T, mode):
    T = np.asarray(T, dtype=float)
    return [tk(x, mode) for x in T[:3, :3].reshape(-1)] + [tk(x, mode) for x in T[:3, 3]]


def enc_v(v, mode):
    return [tk(x, mode) for x in np.asarray(v, dtype=float).reshape(-1)]


def enc_body(b, mode):
    v = np.asarray(b.vertices_, dtype=float)
    t = np.asarray(b.tetrahedra_, dtype=int)
    p = np.asarray(b.potentials_, dtype=float)
    return (enc_pose(b.body2origin_, mode) + [str(len(v))] + enc_v(v, mode) + [str(len(t))] +
            [str(int(x)) for x in t.reshape(-1)] + enc_v(p, mode))


def enc_table(rec, mode):
    out = [str(len(rec["pairs"]))]
    for k, (i, j) in enumerate(rec["pairs"]):
        out += [str(i), str(j)] + enc_v(rec["coms"][k], mode) + enc_v(rec["forces"][k], mode)
    return out


def enc_boxes(a, mode):
    a = np.asarray(a, dtype=float)
    out = [str(len(a))]
    for b in a:
        out += [tk(b[0, 0], mode), tk(b[0, 1], mode), tk(b[1, 0], mode), tk(b[1, 1], mode), tk(b[2, 0], mode),
                tk(b[2, 1], mode)]
    return out


def enc_tree(tree, mode):
    n = int(tree.filled_len)
    out = [str(int(tree.root)), str(n), str(n)]
    for row in np.asarray(tree.nodes)[:n]:
        out += [str(int(x)) for x in row]
    for b in np.asarray(tree.aabbs, dtype=float)[:n]:
        out += [tk(b[0, 0], mode), tk(b[0, 1], mode), tk(b[1, 0], mode), tk(b[1, 1], mode), tk(b[2, 0], mode),
                tk(b[2, 1], mode)]
    return out


def parse_scalars(tokens, mode):
    if mode == "F":
        return [h2f(t) for t in tokens]
    return [float(core.s2q(t)) for t in tokens]


# ------------------------------------------------------------------ correspondence
def close(a, b, scale):
    a, b = np.asarray(a, dtype=float), np.asarray(b, dtype=float)
    return a.shape == b.shape and bool(np.all(np.abs(a - b) <= CORR_TOL * scale))


def corr_utils(ctx, drv, plan):
    """invert_transform, adjoint_from_transform: lattice exact (Q), general tolerance (F)"""
    from distance3d.utils import invert_transform, adjoint_from_transform
    n = ctx.budget(40, 400)
    for k in range(n):
        stream = "L" if k % 2 == 0 else "G"
        R = gen_rot(ctx.rng, stream)
        t = [dyadic(ctx.rng, -2, 2, 0.25) for _ in range(3)] if stream == "L" else [ctx.rng.uniform(-3, 3) for _ in range(3)]
        T = pose4(R, t)
        inv = invert_transform(T)
        adj = adjoint_from_transform(T)
        mode = "Q" if stream == "L" else "F"
        c1 = drv.add("C16.invert", mode, enc_pose(T, mode))
        c2 = drv.add("C16.adjoint", mode, enc_pose(T, mode))
        plan.append(("utils", stream, mode, T, inv, adj, c1, c2))
        ctx.count("utils:" + stream, key=("utils", T.tobytes()))


def check_utils(ctx, out, item):
    _, stream, mode, T, inv, adj, c1, c2 = item
    o1, o2 = out.get(c1, "bad missing").split(), out.get(c2, "bad missing").split()
    exact = stream == "L"
    scale = 1.0 + float(np.max(np.abs(T)))
    if o1[0] != "ok" or len(o1) != 13:
        ctx.broke("correspondence", "invert_transform", "model output %s" % " ".join(o1)[:120], {"T": T.tolist()})
    else:
        m = parse_scalars(o1[1:], mode)
        want = list(inv[:3, :3].reshape(-1)) + list(inv[:3, 3])
        if (exact and [float(x) + 0.0 for x in m] != [float(x) + 0.0 for x in want]) or not close(m, want, scale):
            ctx.broke("correspondence", "invert_transform", "impl=%s model=%s" % (want, m), {"T": T.tolist()})
        if not np.array_equal(inv[3], [0, 0, 0, 1]):
            ctx.broke("correspondence", "invert_transform", "last row %s" % inv[3], {"T": T.tolist()})
    if o2[0] != "ok" or len(o2) != 37:
        ctx.broke("correspondence", "adjoint_from_transform", "model output %s" % " ".join(o2)[:120], {"T": T.tolist()})
    else:
        m = parse_scalars(o2[1:], mode)
        want = list(np.asarray(adj).reshape(-1))
        if (exact and [float(x) + 0.0 for x in m] != [float(x) + 0.0 for x in want]) or not close(m, want, scale * scale):
            ctx.broke("correspondence", "adjoint_from_transform", "impl=%s model=%s" % (want, m), {"T": T.tolist()})


def old_transform_wrenches(frame, f21, t12, t21):
    """the pre-repair _transform_wrenches, re-run with the repository's own adjoint_from_transform"""
    from distance3d.utils import adjoint_from_transform
    adj = adjoint_from_transform(np.ascontiguousarray(frame))
    w21 = adj.T.dot(np.hstack((f21, t21)))
    w12 = adj.T.dot(np.hstack((-f21, t12)))
    return w12, w21


def corr_accum(ctx, drv, plan, rec, case):
    """accumulate_wrenches + _transform_wrenches on a real ContactSurface (F and exact Q)"""
    args_of = lambda mode: (enc_pose(rec["frame"], mode) + enc_v(rec["com1"], mode) + enc_v(rec["com2"], mode) +  # noqa
                            enc_table(rec, mode))
    cF = drv.add("C16.accum", "F", args_of("F"))
    cQ = drv.add("C16.accum", "Q", args_of("Q"))
    cO = drv.add("C16.accum.old", "F", args_of("F"))
    plan.append(("accum", rec, case, cF, cQ, cO))


def check_accum(ctx, out, item):
    _, rec, case, cF, cQ, cO = item
    fsum = float(np.sum(np.linalg.norm(rec["forces"], axis=1))) if len(rec["forces"]) else 0.0
    lev = 1.0 + (float(np.max(np.linalg.norm(rec["coms"] - rec["com1"], axis=1))) if len(rec["coms"]) else 0.0) \
        + float(np.linalg.norm(rec["com1"] - rec["com2"]))
    scale = max(fsum * lev, 1e-300)
    want = np.hstack((rec["w12"], rec["w21"]))
    for mode, cid in (("F", cF), ("Q", cQ)):
        o = out.get(cid, "bad missing").split()
        if o[0] != "ok" or len(o) != 13:
            ctx.broke("correspondence", "accumulate_wrenches", "model(%s) output %s" % (mode, " ".join(o)[:120]), {"case": case})
            continue
        m = np.array(parse_scalars(o[1:], mode))
        ctx.extra["accum_envelope_" + mode] = max(ctx.extra.get("accum_envelope_" + mode, 0.0),
                                                    float(np.max(np.abs(m - want)) / scale))
        if not close(m, want, scale):
            ctx.broke("correspondence", "accumulate_wrenches/_transform_wrenches",
                      "impl=%s model(%s)=%s" % (want.tolist(), mode, m.tolist()), {"case": case})
    # the pre-repair model against the pre-repair formula evaluated with the repository's adjoint
    o = out.get(cO, "bad missing").split()
    f21 = np.sum(rec["forces"], axis=0) if len(rec["forces"]) else np.zeros(3)
    t21 = np.sum(np.cross(rec["coms"] - rec["com1"], rec["forces"]), axis=0) if len(rec["forces"]) else np.zeros(3)
    t12 = np.sum(np.cross(rec["coms"] - rec["com2"], -rec["forces"]), axis=0) if len(rec["forces"]) else np.zeros(3)
    w12o, w21o = old_transform_wrenches(rec["frame"], f21, t12, t21)
    wanto = np.hstack((w12o, w21o))
    pscale = scale * (1.0 + float(np.linalg.norm(rec["frame"][:3, 3])))
    if o[0] != "ok" or len(o) != 13 or not close(parse_scalars(o[1:], "F"), wanto, pscale):
        ctx.broke("correspondence", "_transform_wrenches_asIs_before_fix",
                  "old formula via adjoint_from_transform=%s model=%s" % (wanto.tolist(), " ".join(o)[:200]), {"case": case})
    ctx.branch("accum", "contacts>0" if len(rec["pairs"]) else "empty")


def corr_broad(ctx, drv, plan, case):
    """brute-force pair list (exact, order included) and tree pair list + wfCheck/leavesMatch in Lean"""
    from distance3d.aabb_tree import all_aabbs_overlap
    b1, b2 = make_body(case["b1"]), make_body(case["b2"])
    b1.express_in(b2.body2origin_)
    a1, a2 = np.array(b1.aabbs), np.array(b2.aabbs)
    _, _, bp = all_aabbs_overlap(a1, a2)
    bp = [(int(i), int(j)) for i, j in bp]
    flag, u1, u2, tp = b1.aabb_tree.overlaps_aabb_tree(b2.aabb_tree)
    tp = [(int(i), int(j)) for i, j in tp]
    cB = drv.add("C16.brute", "F", enc_boxes(a1, "F") + enc_boxes(a2, "F"))
    cT = drv.add("C16.tree", "F", enc_tree(b1.aabb_tree, "F") + enc_tree(b2.aabb_tree, "F") +
                 enc_boxes(a1, "F") + enc_boxes(a2, "F"))
    cA1 = drv.add("C16.aabbs", "F", [str(len(b1.tetrahedra_points))] + enc_v(b1.tetrahedra_points, "F"))
    cC1 = drv.add("C16.com", "F", [str(len(b1.tetrahedra_points))] + enc_v(b1.tetrahedra_points, "F"))
    plan.append(("broad", case, bp, tp, a1, np.array(b1.com), cB, cT, cA1, cC1, sorted(set(i for i, _ in tp)) == sorted(int(x) for x in u1)
                 and sorted(set(j for _, j in tp)) == sorted(int(x) for x in u2) and bool(flag) == (len(tp) > 0)))
    # oracle, independent of the model: both broad phases give the same SET, no duplicates
    if sorted(bp) != sorted(tp) or len(set(tp)) != len(tp):
        ctx.fail("broad phase", {"case": case, "relation": "broad_pairs"},
                 {"only_tree": sorted(set(tp) - set(bp))[:10], "only_brute": sorted(set(bp) - set(tp))[:10]},
                 "identical pair sets", "all_aabbs_overlap vs overlaps_aabb_tree on the bodies' aabbs (exact)")
    # independent brute force with the closed-interval test
    want = [(i, j) for i in range(len(a1)) for j in range(len(a2))
            if all(a1[i, k, 0] <= a2[j, k, 1] and a2[j, k, 0] <= a1[i, k, 1] for k in range(3))]
    if want != bp:
        ctx.fail("all_aabbs_overlap", {"case": case, "relation": "brute_pairs"}, str(bp)[:300], str(want)[:300],
                 "closed-interval brute force")
    ctx.count("broad:" + case["stream"], key=("broad", str(case)), nontrivial=len(bp) > 0)


def check_broad(ctx, out, item):
    _, case, bp, tp, a1, com1, cB, cT, cA1, cC1, uniq_ok = item
    o = out.get(cB, "bad missing").split()
    want = ["ok", str(len(bp))] + [str(x) for p in bp for x in p]
    if o != want:
        ctx.broke("correspondence", "all_aabbs_overlap", "impl=%s model=%s" % (" ".join(want)[:200], " ".join(o)[:200]),
                  {"case": case})
    o = out.get(cT, "bad missing").split()
    ctx.branch("tree_wf", " ".join(o[1:3]))
    if len(o) < 5 or o[0] != "ok" or o[1] != "wf" or o[2] != "wf":
        ctx.broke("correspondence", "wfCheck/leavesMatch(implementation trees)",
                  "Lean check on the dumped trees says %s: hypotheses of broad_phase_same_pairs not met" % " ".join(o[:4]),
                  {"case": case})
    else:
        if o[3] != "1":
            ctx.broke("correspondence", "broad_phase_same_pairs", "model tree pairs are not a permutation of model brute "
                      "force pairs: %s" % " ".join(o[:8]), {"case": case})
        want = [str(len(tp))] + [str(x) for p in tp for x in p]
        if o[4:] != want:
            ctx.broke("correspondence", "query_overlap_of_other_tree", "impl=%s model=%s" % (" ".join(want)[:200], " ".join(o[4:])[:200]),
                      {"case": case})
    if not uniq_ok:
        ctx.broke("correspondence", "overlaps_aabb_tree", "np.unique projections / flag inconsistent with the pair list", {"case": case})
    o = out.get(cA1, "bad missing").split()
    want = ["ok", str(len(a1))] + enc_boxes(a1, "F")[1:]
    if o != want:
        ctx.broke("correspondence", "tetrahedral_mesh_aabbs", "differs (exact comparison)", {"case": case})
    o = out.get(cC1, "bad missing").split()
    if o[0] != "ok" or not close(parse_scalars(o[1:], "F"), com1, 1.0 + float(np.max(np.abs(com1)))):
        ctx.broke("correspondence", "center_of_mass_tetrahedral_mesh", "impl=%s model=%s" % (com1.tolist(), " ".join(o)[:120]),
                  {"case": case})


def corr_history(ctx, drv, plan, case, mode):
    """a stateful history on real RigidBody objects vs the model's Body state machine"""
    rng = ctx.rng
    specs = [case["b1"], case["b2"], case["b3"]]
    bodies = [make_body(s) for s in specs]
    toks = ["3"]
    for b in bodies:
        toks += enc_body(b, mode)
    expect = []
    nops = rng.choice([4, 6, 8])
    G = np.array(case["g"], dtype=float)
    opnames = []
    for _ in range(nops):
        r = rng.random()
        if r < 0.45:
            a, b = rng.sample(range(3), 2)
            trees = 1 if rng.random() < 0.3 else 0
            try:
                rec = run_cf(bodies[a], bodies[b], trees=bool(trees))
                toks += ["cf", str(a), str(b), str(trees)] + enc_table(rec, mode)
                expect.append(("cf", rec))
            except Exception as e:  # noqa
                toks += ["cf", str(a), str(b), str(trees), "0"]
                expect.append(("err", err_name(e)))
            opnames.append("cf%d" % trees)
        elif r < 0.6:
            a = rng.randrange(3)
            N = G @ np.array(specs[rng.randrange(3)]["pose"]) if rng.random() < 0.5 else np.array(specs[rng.randrange(3)]["pose"])
            bodies[a].express_in(N)
            toks += ["ex", str(a)] + enc_pose(N, mode)
            expect.append(("flags", cache_flags(bodies[a])))
            opnames.append("ex")
        elif r < 0.7:
            a = rng.randrange(3)
            N = G @ np.array(bodies[a].body2origin_)
            bodies[a].update_pose(N.copy())
            toks += ["up", str(a)] + enc_pose(N, mode)
            expect.append(("flags", cache_flags(bodies[a])))
            opnames.append("up")
        elif r < 0.8:
            a = rng.randrange(3)
            x = np.array(bodies[a].aabbs)
            toks += ["aabbs", str(a)]
            expect.append(("aabbs", x))
            opnames.append("aabbs")
        elif r < 0.9:
            a = rng.randrange(3)
            x = np.array(bodies[a].com)
            toks += ["com", str(a)]
            expect.append(("com", x))
            opnames.append("com")
        else:
            a = rng.randrange(3)
            toks += ["verts", str(a)]
            expect.append(("verts", np.array(bodies[a].body2origin_), np.array(bodies[a].vertices_)))
            opnames.append("verts")
    for a in range(3):
        toks += ["verts", str(a)]
        expect.append(("verts", np.array(bodies[a].body2origin_), np.array(bodies[a].vertices_)))
        toks += ["flags", str(a)]
        expect.append(("flags", cache_flags(bodies[a])))
    cid = drv.add("C16.hist", mode, toks)
    plan.append(("hist", case, mode, cid, expect, opnames))
    ctx.count("hist:" + case["stream"] + ":" + mode, key=("hist", str(case), tuple(opnames)),
              nontrivial=any(o.startswith("cf") for o in opnames))


def check_history(ctx, out, item):
    _, case, mode, cid, expect, opnames = item
    o = out.get(cid, "bad missing")
    if not o.startswith("ok "):
        ctx.broke("correspondence", "history", "model output %s" % o[:200], {"case": case, "ops": opnames})
        return
    parts = [p.split() for p in o[3:].split(" | ")]
    if len(parts) != len(expect):
        ctx.broke("correspondence", "history", "model answered %d ops, expected %d" % (len(parts), len(expect)),
                  {"case": case, "ops": opnames})
        return
    exact = (mode == "Q")
    for k, (e, m) in enumerate(zip(expect, parts)):
        where = {"case": case, "ops": opnames, "op_index": k}
        kind = e[0]
        if kind == "err":
            ctx.branch("hist_op", "cf:err")
            if m[0] != "err" or m[1] != e[1]:
                ctx.broke("correspondence", "contact_forces", "implementation raised %s, model %s" % (e[1], " ".join(m)[:80]), where)
                return
            continue
        if m[0] != "ok":
            ctx.broke("correspondence", "history:" + kind, "model says %s, implementation ok" % " ".join(m)[:80], where)
            return
        ctx.branch("hist_op", kind)
        if kind == "flags":
            if m[1] != e[1]:
                ctx.broke("correspondence", "RigidBody caches", "cache flags (_tetrahedra_points,_com,_aabbs,_aabb_tree) "
                          "impl=%s model=%s" % (e[1], m[1]), where)
                return
        elif kind == "verts":
            vals = parse_scalars(m[1:13], mode)
            got_pose = np.array(vals)
            want_pose = np.hstack((e[1][:3, :3].reshape(-1), e[1][:3, 3]))
            n = int(m[13])
            got = np.array(parse_scalars(m[14:], mode)).reshape(n, 3)
            sc = 1.0 + float(np.max(np.abs(e[2]))) + float(np.max(np.abs(want_pose)))
            ok = close(got_pose, want_pose, sc) and close(got, e[2], sc * sc)
            if exact and ok and case["stream"] == "L":
                ok = bool(np.array_equal(got + 0.0, e[2] + 0.0))
                ctx.branch("exact_verts", ok)
            if not ok:
                ctx.broke("correspondence", "express_in", "vertices/pose differ: impl=%s model=%s" %
                          (e[2][:2].tolist(), got[:2].tolist()), where)
                return
        elif kind == "aabbs":
            n = int(m[1])
            got = np.array(parse_scalars(m[2:], mode)).reshape(n, 3, 2)
            sc = 1.0 + float(np.max(np.abs(e[1])))
            if not close(got, e[1], sc):
                ctx.broke("correspondence", "RigidBody.aabbs", "differs", where)
                return
        elif kind == "com":
            got = np.array(parse_scalars(m[1:], mode))
            if not close(got, e[1], 1.0 + float(np.max(np.abs(e[1])))):
                ctx.broke("correspondence", "RigidBody.com", "impl=%s model=%s" % (e[1].tolist(), got.tolist()), where)
                return
        elif kind == "cf":
            rec = e[1]
            flag, hits = int(m[1]), int(m[2])
            got = np.array(parse_scalars(m[3:15], mode))
            want = np.hstack((rec["w12"], rec["w21"]))
            fsum = float(np.sum(np.linalg.norm(rec["forces"], axis=1))) if len(rec["forces"]) else 0.0
            lev = 1.0 + (float(np.max(np.linalg.norm(rec["coms"] - rec["com1"], axis=1))) if len(rec["coms"]) else 0.0) \
                + float(np.linalg.norm(rec["com1"] - rec["com2"]))
            if hits != len(rec["pairs"]):
                # a recorded intersecting pair was not proposed by the model's broad phase (or proposed twice):
                # only legitimate when an AABB decision is within rounding of a tie
                ctx.branch("hist_cf", "pair-count-mismatch")
                ctx.broke("correspondence", "find_contact_surface", "model proposes %d of the %d intersecting pairs recorded "
                          "from the implementation" % (hits, len(rec["pairs"])), where)
                return
            ctx.branch("hist_cf", "ok" if flag else "no-contact")
            if bool(flag) != rec["flag"] or not close(got, want, max(fsum * lev, 1e-300)):
                ctx.broke("correspondence", "contact_forces", "impl flag=%s w=%s model flag=%s w=%s" %
                          (rec["flag"], want.tolist(), flag, got.tolist()), where)
                return


def separated_case():
    """regression input of the repaired tree broad phase: nothing overlaps"""
    b1 = {"kind": "cube", "params": {"size": 0.25}, "pose": pose4(np.eye(3), [0.0, 0.0, 0.0]).tolist()}
    b2 = {"kind": "sphere", "params": {"radius": 0.15, "order": 1}, "pose": pose4(PERM_ROTS[5], [2.0, 0.5, 0.0]).tolist()}
    b3 = {"kind": "box", "params": {"size": [0.25, 0.25, 0.5]}, "pose": pose4(np.eye(3), [0.0, 0.125, 0.0]).tolist()}
    return {"stream": "M", "b1": b1, "b2": b2, "b3": b3, "g": pose4(PERM_ROTS[7], [1.0, -2.0, 0.5]).tolist()}


def shallow_case(rng):
    """a grazing contact: the two bodies are pushed together along a random direction just past the separation at which
    the real code first reports a contact (bisection on the intersection flag of fresh bodies), by a few thousandths of a
    length unit. The forces are tiny and carried by few tetrahedron pairs that barely cross the contact plane."""
    case = gen_case(rng, "G")
    p1 = np.array(case["b1"]["pose"])[:3, 3]
    p2 = np.array(case["b2"]["pose"])[:3, 3]
    u = p2 - p1
    n = float(np.linalg.norm(u))
    if n < 1e-9:
        u, n = np.array([1.0, 0.0, 0.0]), 1.0
    u = u / n
    size = (char_size(case["b1"]["kind"], case["b1"]["params"]) + char_size(case["b2"]["kind"], case["b2"]["params"]))

    def at(dist):
        b2 = dict(case["b2"])
        T = np.array(b2["pose"], dtype=float)
        T[:3, 3] = p1 + u * dist
        b2["pose"] = T.tolist()
        return b2

    def flag(dist):
        try:
            return run_cf(make_body(case["b1"]), make_body(at(dist)))["flag"]
        except Exception:  # noqa
            return False
    lo, hi = 0.5 * size, 4.0 * size          # lo: contact, hi: separated
    if not flag(lo) or flag(hi):
        return None
    for _ in range(14):
        mid = 0.5 * (lo + hi)
        if flag(mid):
            lo = mid
        else:
            hi = mid
    depth = rng.choice([0.002, 0.003, 0.004, 0.006])
    out = dict(case)
    out["b2"] = at(lo - depth)
    out["stream"] = "S"
    return out


def shallow_cases(ctx, n):
    out = []
    for _ in range(3 * n):
        if len(out) >= n:
            break
        c = shallow_case(ctx.rng)
        if c is not None:
            out.append(c)
    return out


def corpus():
    return [separated_case(), witness_polygon_case()]


def all_cases(ctx, n):
    cases = []
    for k in range(n):
        r = ctx.rng.random()
        stream = "G" if r < 0.65 else ("L" if r < 0.9 else "M")
        cases.append(gen_case(ctx.rng, stream))
    return cases


def correspondence(ctx):
    drv = core.Driver("c16-corr")
    plan = []
    corr_utils(ctx, drv, plan)
    cases = corpus() + all_cases(ctx, ctx.budget(18, 150))
    for case in cases:
        dump = eval_case(ctx, case, want_dump=True, light=True)
        if "A" in dump:
            corr_accum(ctx, drv, plan, dump["A"], case)
        if "T" in dump:
            corr_accum(ctx, drv, plan, dump["T"], case)
        corr_broad(ctx, drv, plan, case)
        corr_history(ctx, drv, plan, case, "F")
        if case["stream"] == "L":
            corr_history(ctx, drv, plan, case, "Q")
    out = drv.run()
    for item in plan:
        if item[0] == "utils":
            check_utils(ctx, out, item)
        elif item[0] == "accum":
            check_accum(ctx, out, item)
        elif item[0] == "broad":
            check_broad(ctx, out, item)
        elif item[0] == "hist":
            check_history(ctx, out, item)


def search(ctx):
    """metamorphic oracle on the real code (incl. the recorded witness of the known finding)"""
    for case in corpus():
        eval_case(ctx, case)
    n = ctx.budget(22, 300) * (2 if ctx.extra.get("search_boost") else 1)
    for case in all_cases(ctx, n):
        eval_case(ctx, case)
    for case in shallow_cases(ctx, ctx.budget(5, 40)):
        eval_case(ctx, case)


def replay(ctx, payload):
    case = payload.get("args", {}).get("case")
    if case is None:
        for b in payload.get("broken", []):
            si = b.get("seed_input") or {}
            if "case" in si:
                case = si["case"]
                break
    if case is None:
        print("replay file names no input:", payload.get("broken"))
        return False
    eval_case(ctx, case)
    try:
        corr_broad(ctx, core.Driver("c16-replay"), [], case)
    except Exception as e:  # noqa
        print("broad phase raised", type(e).__name__, e)
        return False
    bad = [f for f in ctx.failing if f.get("finding") is None]
    for f in ctx.failing:
        print("FAIL" if f.get("finding") is None else "KNOWN", f["function"], str(f["observed"])[:400])
    return not bad
